"""The API rig: a real Reactor with a real multi-neighbor Configuration (parsed from text), real
Peers, real per-neighbor OutgoingRIBs and a real `Processes` whose one helper process is replaced
by a pair of `os.pipe`s (the only stub: `FakePopen`).  Command bytes are written to the pipe in
arbitrary pieces; the real `Processes._async_reader_callback` is registered on the asyncio loop by
the real `setup_async_readers`; the real `Reactor._async_main_loop` pops commands with
`received_async`, runs `API.process` (v4 or v6 dispatch) and `ASYNC._run_async`, and writes the
acknowledgements back through `flush_write_queue` into the reply pipe, from which they are read.

Observation only (nothing is re-implemented): `API.process` is wrapped to record the command
sequence and to snapshot every neighbor's Adj-RIB-Out before each command; `API.api_*` and
`group._parse_routes` are wrapped to record what the route grammar returned (this is the
uninterpreted `parse` function of M-Api); `Processes.write` is wrapped to count lines so that the
replies can be attributed to commands.
"""

from __future__ import annotations

import asyncio
import fcntl
import os
import select
from typing import Any

from exabgp.configuration.configuration import Configuration
from exabgp.environment import getenv
from exabgp.protocol.family import AFI, SAFI
from exabgp.reactor.api.command import group as group_cmd
from exabgp.reactor.api.command.announce import validate_announce
from exabgp.reactor.api.processes import Processes
from exabgp.reactor.api.response import Response
from exabgp.reactor.loop import Reactor
from exabgp.rib import RIB
from exabgp.version import json as json_version

SERVICE = 'svc'

# the default neighbor set: differing peer-as / local-as / local-ip / router-id / families / process
DEFAULT_NBRS = [
    {'peer': '10.0.0.1', 'local_ip': '192.0.2.1', 'local_as': 65000, 'peer_as': 65001, 'router_id': '1.1.1.1', 'families': ['ipv4 unicast', 'ipv6 unicast'], 'attached': True, 'watchdog': [(9, 'dog', True)]},
    {'peer': '10.0.0.2', 'local_ip': '192.0.2.1', 'local_as': 65000, 'peer_as': 65002, 'router_id': '1.1.1.1', 'families': ['ipv4 unicast'], 'attached': True, 'watchdog': [(9, 'dog', True), (10, 'cat', False)]},
    {'peer': '10.0.0.3', 'local_ip': '192.0.2.9', 'local_as': 65010, 'peer_as': 65001, 'router_id': '3.3.3.3', 'families': ['ipv4 unicast', 'ipv6 unicast'], 'attached': True, 'watchdog': []},
    {'peer': '2001:db8::5', 'local_ip': '2001:db8::1', 'local_as': 65000, 'peer_as': 65001, 'router_id': '5.5.5.5', 'families': ['ipv4 unicast', 'ipv6 unicast'], 'attached': True, 'watchdog': []},
    {'peer': '10.0.0.4', 'local_ip': '192.0.2.1', 'local_as': 65000, 'peer_as': 65001, 'router_id': '1.1.1.1', 'families': ['ipv4 unicast', 'ipv6 unicast'], 'attached': False, 'watchdog': [(9, 'dog', True)]},
]

WATCHDOG_ROUTES = {9: '10.9.0.0/24 next-hop 192.0.2.77', 10: '10.10.0.0/24 next-hop 192.0.2.77'}


def config_text(nbrs: list[dict]) -> str:
    out = ['process svc { run /bin/cat; encoder text; }', 'process other { run /bin/cat; encoder text; }']
    for n in nbrs:
        fam = ' '.join(f'{f};' for f in n['families'])
        static = ''
        if n.get('watchdog'):
            static = 'static { ' + ' '.join(f'route {WATCHDOG_ROUTES[r]} watchdog {name}{" withdraw" if w else ""};' for r, name, w in n['watchdog']) + ' } '
        cap = 'capability { multi-session true; } ' if n.get('multi_session') else ''
        out.append(
            f'neighbor {n["peer"]} {{ router-id {n["router_id"]}; local-address {n["local_ip"]}; local-as {n["local_as"]}; peer-as {n["peer_as"]}; passive true; {cap}'
            f'family {{ {fam} }} {static}api {{ processes [ {SERVICE if n["attached"] else "other"} ]; }} }}'
        )
    return '\n'.join(out) + '\n'


class FakePopen:
    """Stands for the subprocess.Popen of the helper: two pipes, never exits by itself."""

    def __init__(self) -> None:
        r, w = os.pipe()
        self.cmd_w = w
        self.stdout = os.fdopen(r, 'rb', 0)
        r2, w2 = os.pipe()
        self.rep_r = r2
        self.stdin = os.fdopen(w2, 'wb', 0)
        for fd in (r, w, w2, r2):
            fcntl.fcntl(fd, fcntl.F_SETFL, fcntl.fcntl(fd, fcntl.F_GETFL) | os.O_NONBLOCK)
        self.terminated = False

    def poll(self) -> None:
        return None

    def terminate(self) -> None:
        self.terminated = True

    def wait(self, timeout: float | None = None) -> int:
        return 0

    def kill(self) -> None:
        self.terminated = True

    def close(self) -> None:
        for f in (self.stdout, self.stdin):
            try:
                f.close()
            except OSError:
                pass
        for fd in (self.cmd_w, self.rep_r):
            try:
                os.close(fd)
            except OSError:
                pass


PARSERS = {'api_route': 0, 'api_announce_v4': 1, 'api_announce_v6': 2, 'api_flow': 3, 'api_vpls': 4, 'api_attributes': 5}
ACTIONS = {'': 0, 'announce': 1, 'withdraw': 2}


def content_of(routes) -> list | None:
    """Routes by content: (afi, safi, NLRI index, attribute index, next hop), sorted."""
    if routes is None:
        return None
    out = []
    for r in routes:
        a, f = r.nlri.family().afi_safi()
        try:
            h = str(r.nexthop)
        except Exception:  # noqa: BLE001
            h = '?'
        out.append([int(a), int(f), bytes(r.nlri.index()).hex(), bytes(r.attributes.index()).hex(), h])
    return sorted(out)


def parse_alone(version: int, specs: list[dict], fn: int, action: int, words: list[str]) -> list | None:
    """What the parser of a daemon that has parsed NOTHING else makes of this text (a new rig, one call)."""
    rig = ApiRig(version, specs)
    try:
        api = rig.reactor.api
        act = {v: k for k, v in ACTIONS.items()}.get(action, '')
        command = ' '.join(words)
        try:
            if fn == 6:
                rig._orig_group_parse(api, command, act)
            else:
                name = {v: k for k, v in PARSERS.items()}[fn]
                getattr(api, name)(command, act)
        except Exception:  # noqa: BLE001
            pass
        return rig.parse_content[-1] if rig.parse_content else None
    finally:
        rig.close()


class Ids:
    """Abstract ids of routes (first appearance), shared by the parse table and the snapshots."""

    def __init__(self) -> None:
        self.fam: dict = {(AFI.ipv4, SAFI.unicast): 1, (AFI.ipv6, SAFI.unicast): 2}
        self.nlri: dict = {}
        self.attr: dict = {}
        self.nh: dict = {}
        self.wd: dict = {}

    @staticmethod
    def _id(table: dict, key: Any) -> int:
        if key not in table:
            table[key] = len(table) + 1
        return table[key]

    def family(self, fam: tuple) -> int:
        return self._id(self.fam, (fam[0], fam[1]))

    def route(self, route) -> tuple[int, int, int, int]:
        fam = route.nlri.family().afi_safi()
        f = self.family(fam)
        n = self._id(self.nlri, (f, bytes(route.nlri.index())))
        a = self._id(self.attr, bytes(route.attributes.index()))
        try:
            h = self._id(self.nh, str(route.nexthop))
        except Exception:
            h = 0
        return n, f, a, h

    def nlri_key(self, fam: tuple, nlri_index: bytes) -> int:
        return self._id(self.nlri, (self.family(fam), bytes(nlri_index)))

    def watchdog(self, name: str) -> int:
        return self._id(self.wd, name)


class ApiRig:
    def __init__(self, version: int, nbrs: list[dict] | None = None, ack: bool = True, max_command: int | None = None) -> None:
        self.specs = nbrs if nbrs is not None else DEFAULT_NBRS
        self.version = version
        RIB._cache.clear()
        group_cmd.clear_group(SERVICE)
        self._saved_version = getenv().api.version
        getenv().api.version = version
        self.cfg = Configuration([config_text(self.specs)], text=True)
        self.reactor = Reactor(self.cfg)
        self.reactor.processes = Processes()
        self.reactor.asynchronous.set_error_handler(self.reactor.processes.answer_error_sync)
        if not self.reactor.reload():
            raise RuntimeError(f'configuration refused: {self.cfg.error}')
        self.neighbors = list(self.cfg.neighbors.values())
        assert [str(n.session.peer_address) for n in self.neighbors] == [s['peer'].lower() for s in self.specs], 'neighbor order'
        for nb, sp in zip(self.neighbors, self.specs):
            # the specification the oracle reasons with must be what the daemon calls the neighbor
            want = ['neighbor', sp['peer'], 'local-ip', sp['local_ip'], 'local-as', str(sp['local_as']), 'peer-as', str(sp['peer_as']), 'router-id', sp['router_id'], 'family-allowed', sp.get('family_allowed', 'in-open')]
            if nb.name().split(' ') != want:
                raise RuntimeError(f'neighbor specification and Neighbor.name() differ: {want} / {nb.name()}')
        p = self.reactor.processes
        self.fp = FakePopen()
        p._configuration = self.cfg.processes
        p._process[SERVICE] = self.fp  # type: ignore[assignment]
        p._encoder[SERVICE] = Response.JSON(json_version)
        p._ackjson[SERVICE] = False
        p._ack[SERVICE] = ack
        p._restart[SERVICE] = False
        p.respawn_number = 0
        if max_command is not None:
            # boundary tests at small sizes: shadow the class constant on this instance only
            p.MAX_COMMAND_SIZE = max_command
        p._update_fds()
        self.ids = Ids()
        self.commands: list[str] = []
        self.before: list[list[str]] = []  # snapshot before each command
        self.marks: list[int] = []  # number of reply lines written before each command
        self.written: list[str] = []
        self.parse_log: list[tuple] = []  # (fn, action, words, result, index of the command being executed)
        self.parse_content: list[list | None] = []  # aligned with parse_log: the routes by content (comparable across rigs)
        self.reply_bytes = b''
        self._install_observers()
        self.initial_watchdogs = self._watchdog_state()

    # -- observers ------------------------------------------------------------------------------

    def _install_observers(self) -> None:
        api = self.reactor.api
        orig_process = api.process

        def process(reactor, service, command):
            self.commands.append(command)
            self.before.append(self.snapshot())
            self.marks.append(len(self.written))
            return orig_process(reactor, service, command)

        api.process = process  # type: ignore[method-assign]

        def record(fn: int, action: str, command: str, call):
            try:
                routes = call()
            except Exception:
                self.parse_log.append((fn, ACTIONS.get(action, 9), command.split(), None, len(self.commands) - 1))
                self.parse_content.append(None)
                raise
            self.parse_log.append((fn, ACTIONS.get(action, 9), command.split(), self._proutes(routes), len(self.commands) - 1))
            self.parse_content.append(content_of(routes))
            return routes

        for name, fn in PARSERS.items():
            orig = getattr(api, name)
            if name == 'api_attributes':

                def wrapped(command, peers, action='', _o=orig, _f=fn):
                    return record(_f, action, command, lambda: _o(command, peers, action))
            else:

                def wrapped(command, action='', _o=orig, _f=fn):
                    return record(_f, action, command, lambda: _o(command, action))

            setattr(api, name, wrapped)

        self._orig_group_parse = group_cmd._parse_routes

        def group_parse(api_, command, action='announce'):
            routes = self._orig_group_parse(api_, command, action)
            self.parse_log.append((6, ACTIONS.get(action, 9), command.split(), self._proutes(routes), len(self.commands) - 1))
            self.parse_content.append(content_of(routes))
            return routes

        group_cmd._parse_routes = group_parse

        procs = self.reactor.processes
        orig_write = procs.write

        def write(process, string, peer_or_neighbor=None):
            if process == SERVICE and string is not None and process in procs._process:
                self.written.extend(str(string).split('\n'))
            return orig_write(process, string, peer_or_neighbor)

        procs.write = write  # type: ignore[method-assign]

    def _proutes(self, routes) -> list | None:
        if not routes:
            return None if routes is None else []
        out = []
        for r in routes:
            n, f, a, h = self.ids.route(r)
            try:
                valid = validate_announce(r) is None
            except Exception:
                valid = False
            out.append((n, f, a, h, a, int(valid)))
        return out

    # -- state ----------------------------------------------------------------------------------

    def _watchdog_state(self) -> list[list[tuple]]:
        out = []
        for nb in self.neighbors:
            rows = []
            for name, d in nb.rib.outgoing._watchdog.items():
                for sign in ('-', '+'):
                    for route in d.get(sign, {}).values():
                        rows.append((self.ids.route(route), self.ids.watchdog(name), sign == '-'))
            out.append(rows)
        return out

    def snapshot(self) -> list[str]:
        snaps = []
        for nb in self.neighbors:
            rib = nb.rib.outgoing
            cache = sorted(self.ids.route(r) for fam in rib._seen.values() for r in fam.values())
            ann = sorted(self.ids.route(r) for r in rib._new_nlri.values())
            wd = sorted(self.ids.nlri_key(fam, idx) for fam, d in rib._pending_withdraws.items() for idx in d)
            ref = sorted(self.ids.route(r)[0] for r in rib._refresh_routes)
            rf = sorted(self.ids.family(f) for f in rib._refresh_families)
            fmt = lambda rs: ','.join('%d:%d:%d:%d' % r for r in rs) or '-'
            nums = lambda ns: ','.join(str(x) for x in ns) or '-'
            snaps.append(f'c={fmt(cache)};a={fmt(ann)};w={nums(wd)};r={nums(ref)};f={nums(rf)}')
        return snaps

    def nbr_lines(self) -> list[str]:
        """`api nbr …` lines describing the real neighbors (words read back from the real objects)."""
        hx = lambda s: s.encode().hex() or 'e'
        lines = []
        for nb, spec in zip(self.neighbors, self.specs):
            w = nb.name().split(' ')
            assert len(w) == 12, w
            fams = ','.join(str(self.ids.family(f)) for f in nb.families()) or '-'
            # the families the OutgoingRIB serves are its own (for a multi-session neighbor they are not the neighbor's)
            ribfams = ','.join(str(i) for i in sorted(self.ids.family(f) for f in nb.rib.outgoing.families)) or '-'
            lines.append('api nbr ' + ' '.join(hx(x) for x in w[1::2]) + f' {fams} {int(spec["attached"])} {int(bool(nb.capability.route_refresh))} {ribfams}')
        return lines

    # -- running --------------------------------------------------------------------------------

    stalled = False  # the helper does not read its stdin for now (schedule items 'stall' / 'unstall')

    def _stall(self) -> None:
        """The helper stops reading and its stdin pipe is full of what it has not read yet (here: filler
        lines and empty lines written on ExaBGP's behalf): every os.write of flush_write_queue gets EAGAIN."""
        self.stalled = True
        fd = self.fp.stdin.fileno()
        for piece in (b'#filler ' + b'x' * 1000 + b'\n', b'\n'):
            try:
                while True:
                    os.write(fd, piece)
            except BlockingIOError:
                pass

    def _read_replies(self) -> None:
        if self.stalled:
            return
        while True:
            try:
                data = os.read(self.fp.rep_r, 65536)
            except (BlockingIOError, OSError):
                return
            if not data:
                return
            self.reply_bytes += data

    def _idle(self) -> bool:
        p = self.reactor.processes
        if p._command_queue or self.reactor.asynchronous._async or any(q for q in p._write_queue.values()):
            return False
        if SERVICE in p._process:
            r, _, _ = select.select([self.fp.stdout.fileno()], [], [], 0)
            if r:
                return False
        return True

    async def _write(self, data: bytes) -> None:
        view = memoryview(data)
        while view:
            try:
                n = os.write(self.fp.cmd_w, view[:65536])
                view = view[n:]
            except BlockingIOError:
                await asyncio.sleep(0)
                self._read_replies()

    async def _run(self, schedule: list) -> None:
        loop = asyncio.get_running_loop()
        self.reactor.processes.setup_async_readers(loop)
        task = asyncio.ensure_future(self.reactor._async_main_loop())
        try:
            for kind, arg in schedule:
                if kind == 'chunk':
                    await self._write(arg)
                    # let the reader callback pick up exactly this write before the next one
                    for _ in range(64):
                        if not select.select([self.fp.stdout.fileno()], [], [], 0)[0] or SERVICE not in self.reactor.processes._process:
                            break
                        await asyncio.sleep(0)
                elif kind == 'spin':
                    for _ in range(arg):
                        await asyncio.sleep(0)
                elif kind == 'stall':
                    self._stall()
                elif kind == 'unstall':
                    self.stalled = False
                self._read_replies()
            self.stalled = False
            quiet = 0
            for _ in range(200000):
                await asyncio.sleep(0)
                self._read_replies()
                quiet = quiet + 1 if self._idle() else 0
                if quiet >= 12:
                    break
            else:
                raise RuntimeError('rig did not become idle')
        finally:
            task.cancel()
            try:
                await task
            except (asyncio.CancelledError, Exception):
                pass
            self._read_replies()

    def run(self, schedule: list) -> dict:
        """schedule: [('chunk', bytes) | ('spin', n)].  Returns everything observed."""
        loop = asyncio.new_event_loop()
        try:
            asyncio.set_event_loop(loop)
            loop.run_until_complete(self._run(schedule))
        finally:
            try:
                loop.run_until_complete(loop.shutdown_asyncgens())
            finally:
                asyncio.set_event_loop(None)
                loop.close()
        after = self.before[1:] + [self.snapshot()]
        marks = self.marks + [len(self.written)]
        per_cmd = [self.written[marks[i] : marks[i + 1]] for i in range(len(self.commands))]
        return {
            'commands': list(self.commands),
            'before': self.before,
            'after': after,
            'replies': per_cmd,
            'stream': [l for l in self.reply_bytes.decode('ascii', 'replace').split('\n')[:-1] if l and not l.startswith('#filler ')],
            'written': list(self.written),
            'dead': SERVICE not in self.reactor.processes._process,
            'parse_log': list(self.parse_log),
            'parse_content': list(self.parse_content),
            'version_after': getenv().api.version,
            'ack_after': self.reactor.processes._ack.get(SERVICE),
        }

    def close(self) -> None:
        group_cmd._parse_routes = self._orig_group_parse
        group_cmd.clear_group(SERVICE)
        getenv().api.version = self._saved_version
        for peer in self.reactor._peers.values():
            t = getattr(peer, '_async_task', None)
            if t is not None and not t.done():
                t.cancel()
        self.fp.close()
