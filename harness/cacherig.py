"""The rig of C19 (decoding does not depend on what was decoded before).

Two roles, one file:

* library (imported by harness/props/C19.py): session shapes, message material, the pool that
  launches worker interpreters; nothing here decodes;
* `cacherig.py --worker`: a brand-new interpreter (`python -S`) that reads ONE job (a JSON
  document) on stdin, imports exabgp, sets what the application sets at start
  (`Attribute.caching`), and runs the job: for each step, in order, it establishes the step's
  session if it is not yet (our real OPEN and the mirrored peer's real OPEN through the wire),
  decodes the message through the real entry point (`Message.unpack`, or
  `UpdateCollection.unpack_message`), and renders it at once (content, JSON and text API lines,
  re-packed attributes); at the end it renders every returned object again.  One JSON document
  on stdout.  Step 0 of every job is therefore "this message decoded ALONE in a FRESH process";
  the later steps are "in sequence".  (A worker that forks one child per job from a pristine
  parent was measured first: on this VM a forked child runs ~100x slower than its parent
  (copy-on-write faults), a new interpreter per job is cheaper and is the cleaner notion of fresh.)

The real code is instrumented from outside only to *observe*: `AttributeCollection.unpack`,
`Attribute.klass` and `Capability.klass` are wrapped by functions that call the original and
record (which block, what kind of result, whether the returned collection is an object that was
returned before = served from a cache; which class a dispatch returned).
"""

from __future__ import annotations

import hashlib
import json
import os
import queue
import re
import subprocess
import sys
import threading
import time
from pathlib import Path
from typing import Any

HERE = Path(__file__).resolve().parent
VERIF = HERE.parent
REPO = Path(os.environ.get('VERIF_REPO', '/repo'))

# ---------------------------------------------------------------------------------------------
# session shapes (JSON-serialisable; both sides rebuild the same Negotiated from two real OPENs)

FAM46 = 'ipv4 unicast ipv6 unicast'
SPECS: list[dict] = [
    {'name': 'asn4', 'local_as': 65000, 'peer_as': 65001, 'families': FAM46, 'add_path': False, 'asn4': True, 'aigp': False},
    {'name': 'asn2', 'local_as': 65000, 'peer_as': 65001, 'families': FAM46, 'add_path': False, 'asn4': False, 'aigp': False},
    {'name': 'asn4-addpath', 'local_as': 65000, 'peer_as': 65001, 'families': FAM46, 'add_path': True, 'asn4': True, 'aigp': False},
    {'name': 'asn2-addpath', 'local_as': 65000, 'peer_as': 65001, 'families': FAM46, 'add_path': True, 'asn4': False, 'aigp': False},
    {'name': 'asn4-aigp', 'local_as': 65000, 'peer_as': 65001, 'families': FAM46, 'add_path': False, 'asn4': True, 'aigp': True},
    {'name': 'asn4-v4only', 'local_as': 65000, 'peer_as': 65001, 'families': 'ipv4 unicast', 'add_path': False, 'asn4': True, 'aigp': False},
    {'name': 'asn4-all', 'local_as': 65000, 'peer_as': 65001, 'families': 'all', 'add_path': False, 'asn4': True, 'aigp': False},
    {'name': 'asn4-ibgp', 'local_as': 65000, 'peer_as': 65000, 'families': FAM46, 'add_path': False, 'asn4': True, 'aigp': False},
    {'name': 'asn2-all', 'local_as': 65000, 'peer_as': 65001, 'families': 'all', 'add_path': False, 'asn4': False, 'aigp': False},
]
SPEC_FIELDS = ['asn4', 'aigp', 'add_path', 'families', 'peer_as']


def spec_key(spec: dict) -> str:
    return json.dumps({k: spec[k] for k in sorted(spec) if k != 'name'}, sort_keys=True)


_sessions: dict[str, tuple[Any, Any]] = {}


def build_session(spec: dict) -> tuple[Any, Any]:
    """(neighbor, negotiated) of a session shape: our real OPEN and the mirrored peer's real OPEN,
    through the wire (harness/sessions.py). asn4 off = the peer does not announce the capability."""
    k = spec_key(spec)
    if k in _sessions:
        return _sessions[k]
    from harness import sessions
    from exabgp.bgp.message.open.routerid import RouterID
    from exabgp.util.enumeration import TriState

    idx = 10 + (int(hashlib.sha1(k.encode()).hexdigest(), 16) % 200)
    local, peer = '127.0.0.1', f'127.0.1.{idx}'
    _, n = sessions.make_config(local_as=spec['local_as'], peer_as=spec['peer_as'], families=spec['families'], add_path=spec['add_path'], local_address=local, peer_address=peer)
    _, pn = sessions.make_config(local_as=spec['peer_as'], peer_as=spec['local_as'], families=spec['families'], add_path=spec['add_path'], local_address=peer, peer_address=local)
    pn.session.router_id = RouterID('2.2.2.2')
    if spec['aigp']:
        n.capability.aigp = TriState.TRUE
        pn.capability.aigp = TriState.TRUE
    if not spec['asn4']:
        pn.capability.asn4 = TriState.FALSE
    neg = sessions.negotiate(n, pn)
    if bool(neg.asn4) != bool(spec['asn4']) or bool(neg.aigp) != bool(spec['aigp']):
        raise RuntimeError(f'session shape {spec["name"]}: negotiated asn4={neg.asn4} aigp={neg.aigp}')
    _sessions[k] = (n, neg)
    return n, neg


# ---------------------------------------------------------------------------------------------
# observation of the real code (worker side)


class Recorder:
    """Wraps (never replaces) the three class-level entry points. `calls` / `klass` are per step."""

    def __init__(self) -> None:
        from exabgp.bgp.message.open.capability.capability import Capability
        from exabgp.bgp.message.update.attribute.attribute import Attribute
        from exabgp.bgp.message.update.attribute.collection import AttributeCollection

        self.calls: list[dict] = []
        self.klass: list[list] = []
        self.returned: dict[int, Any] = {}  # id -> collection, kept alive so ids stay unique
        self.A = Attribute
        self.AC = AttributeCollection
        self.C = Capability
        orig_unpack = AttributeCollection.__dict__['unpack'].__func__
        orig_aklass = Attribute.__dict__['klass'].__func__
        orig_cklass = Capability.__dict__['klass'].__func__
        rec = self

        def unpack(cls, data, negotiated):  # type: ignore[no-untyped-def]
            entry = {'data': bytes(data).hex(), 'kind': 'error', 'rid': 0, 'hit': False}
            rec.calls.append(entry)
            ret = orig_unpack(cls, data, negotiated)
            entry['hit'] = id(ret) in rec.returned
            rec.returned[id(ret)] = ret
            entry['kind'] = rec.kind_of(ret)
            entry['rid'] = rec.rid_of(ret)
            return ret

        def aklass(cls, attribute_id, flag):  # type: ignore[no-untyped-def]
            k = orig_aklass(cls, attribute_id, flag)
            rec.klass.append(['attr', int(attribute_id), f'{k.__module__}.{k.__qualname__}'])
            return k

        def cklass(cls, what):  # type: ignore[no-untyped-def]
            k = orig_cklass(cls, what)
            rec.klass.append(['cap', int(what), f'{k.__module__}.{k.__qualname__}'])
            return k

        AttributeCollection.unpack = classmethod(unpack)  # type: ignore[method-assign]
        Attribute.klass = classmethod(aklass)  # type: ignore[method-assign]
        Capability.klass = classmethod(cklass)  # type: ignore[method-assign]

    def kind_of(self, coll: Any) -> str:
        CODE = self.A.CODE
        if CODE.INTERNAL_TREAT_AS_WITHDRAW in coll:
            return 'taw'
        if CODE.MP_REACH_NLRI in coll or CODE.MP_UNREACH_NLRI in coll:
            return 'mp'
        if len(coll) == 0:
            return 'empty'
        return 'plain'

    def rid_of(self, coll: Any) -> int:
        """An id of the collection's content that touches none of its lazily cached fields."""
        items = []
        for code in sorted(coll.keys()):
            a = coll[code]
            try:
                s = str(a)
            except Exception as e:  # noqa: BLE001
                s = 'str-raises:' + type(e).__name__
            p = getattr(a, '_packed', None)
            items.append([int(code), type(a).__name__, s, bytes(p).hex() if p is not None else '-', str(getattr(a, '_asn4', '-'))])
        return int(hashlib.sha1(json.dumps(items).encode()).hexdigest()[:12], 16)

    def class_ids(self) -> dict[str, int]:
        out = {}
        for reg in (self.A.registered_attributes, self.C.registered_capability):
            for k in reg.values():
                out[f'{k.__module__}.{k.__qualname__}'] = int(k.ID)
        return out


_VOLATILE = [
    (re.compile(r'"time": [0-9.e+]+, ?'), ''),
    (re.compile(r'"host" : "[^"]*", '), ''),
    (re.compile(r'"pid" : \d+, '), ''),
    (re.compile(r'"ppid" : \d+, '), ''),
    (re.compile(r'"counter": \d+, '), ''),
]


def _strip(s: str) -> str:
    for rx, rep in _VOLATILE:
        s = rx.sub(rep, s)
    return s


def _safe(f: Any) -> Any:
    try:
        return f()
    except Exception as e:  # noqa: BLE001
        return 'raises:' + type(e).__name__


def error_enum(e: BaseException) -> list:
    from exabgp.bgp.message.notification import Notify

    if isinstance(e, Notify):
        return ['notify', int(e.code), int(e.subcode)]
    return ['exception', type(e).__name__]


ENCODERS = ['json6', 'json6c', 'json6g', 'json4', 'text6', 'text4', 'coll']


def _encoders() -> dict:
    """Every API encoder a process can be configured with (reactor/api/processes.py, configuration/command.py)."""
    from exabgp.reactor.api.response import Response
    from exabgp.version import json_v4, text_v4

    j6 = Response.JSON('6.0.0')
    j6c = Response.JSON('6.0.0')
    j6c.compact = True
    j6g = Response.JSON('6.0.0')
    j6g.generic_attribute_format = True
    return {'json6': j6, 'json6c': j6c, 'json6g': j6g, 'json4': Response.V4.JSON(json_v4), 'text6': Response.Text('6.0.0'), 'text4': Response.V4.Text(text_v4)}


def render(obj: Any, n: Any, neg: Any, order: int = 0) -> dict:
    """Canonical rendering of a decoded message: its content and what every API encoder would write.
    `order` permutes the order in which the renderings are asked for (a memoised rendering that depends
    on who asked first shows up as a difference with the fresh twin, which is rendered in order 0)."""
    import random as _random

    from exabgp.bgp.message.keepalive import KeepAlive
    from exabgp.bgp.message.notification import Notification
    from exabgp.bgp.message.open import Open
    from exabgp.bgp.message.refresh import RouteRefresh
    from exabgp.bgp.message.update import Update
    from exabgp.bgp.message.update.collection import UpdateCollection
    from exabgp.bgp.message.update.eor import EOR

    enc = _encoders()
    out: dict = {'class': type(obj).__name__}

    def attrs_of(coll: Any) -> list:
        rows = []
        for code in sorted(coll.keys()):
            a = coll[code]
            rows.append([int(code), int(_safe(lambda: a.ID)) if isinstance(_safe(lambda: a.ID), int) else str(_safe(lambda: a.ID)), type(a).__name__, _safe(lambda: str(a)), _safe(lambda: bytes(a.pack_attribute(neg)).hex())])
        return rows

    todo: list = []  # (key, thunk)
    if isinstance(obj, (Update, UpdateCollection, EOR)):
        data = obj.data if isinstance(obj, Update) else obj
        out['eor'] = bool(getattr(data, 'IS_EOR', False))

        def content() -> None:
            if isinstance(data, EOR):
                out['nlris'] = [_safe(lambda x=x: x.extensive()) for x in data.nlris]
            else:
                out['announces'] = [[_safe(lambda r=r: r.nlri.extensive()), _safe(lambda r=r: str(r.nexthop)), _safe(lambda r=r: bytes(r.nlri.pack_nlri(neg)).hex())] for r in data.announces]
                out['withdraws'] = [[_safe(lambda x=x: x.extensive()), _safe(lambda x=x: bytes(x.pack_nlri(neg)).hex())] for x in data.withdraws]
            out['attributes'] = attrs_of(data.attributes)

        def coll() -> None:
            # the methods of the (possibly shared) collection themselves, each with every argument
            c = data.attributes
            out['coll'] = [_safe(lambda: c.json()), _safe(lambda: c.json(include_nexthop=True)), _safe(lambda: c.json(generic=True)),
                           _safe(lambda: str(c)), _safe(lambda: bytes(c.index()).hex()), _safe(lambda: c.json())]  # fmt: skip

        todo.append(('content', content))
        for k, e in enc.items():
            todo.append((k, lambda k=k, e=e: out.__setitem__(k, _strip(_safe(lambda: e.update(n, 'receive', data, b'', b'', neg))))))
        # in the canonical order the collection's own methods come last: in the application the first to render
        # a decoded UPDATE is an API encoder
        todo.append(('coll', coll))
    elif isinstance(obj, Open):
        todo.append(('content', lambda: out.update({'str': _safe(lambda: str(obj)), 'caps': [[int(k), type(v).__name__, _safe(lambda v=v: int(v.ID)), _safe(lambda v=v: v.json())] for k, v in obj.capabilities.items()]})))
        for k, e in enc.items():
            todo.append((k, lambda k=k, e=e: out.__setitem__(k, _strip(_safe(lambda: e.open(n, 'receive', obj, b'', b'', neg))))))
    elif isinstance(obj, Notification):
        todo.append(('content', lambda: out.__setitem__('str', _safe(lambda: str(obj)))))
        for k, e in enc.items():
            todo.append((k, lambda k=k, e=e: out.__setitem__(k, _strip(_safe(lambda: e.notification(n, 'receive', obj, b'', b'', neg))))))
    elif isinstance(obj, RouteRefresh):
        todo.append(('content', lambda: out.__setitem__('str', _safe(lambda: str(obj)))))
        for k, e in enc.items():
            todo.append((k, lambda k=k, e=e: out.__setitem__(k, _strip(_safe(lambda: e.refresh(n, 'receive', obj, b'', b'', neg))))))
    elif isinstance(obj, KeepAlive):
        for k, e in enc.items():
            todo.append((k, lambda k=k, e=e: out.__setitem__(k, _strip(_safe(lambda: e.keepalive(n, 'receive', b'', b'', neg))))))
    else:
        out['str'] = _safe(lambda: str(obj))
    if order:
        _random.Random(order).shuffle(todo)
    for _, thunk in todo:
        thunk()
    return out


def run_job(job: dict) -> dict:
    """Execute one job in THIS process (which must not have decoded anything before)."""
    import exabgp.reactor.protocol  # noqa: F401
    from exabgp.bgp.message import Message
    from exabgp.bgp.message.update.collection import UpdateCollection

    rec = Recorder()
    specs = job['specs']

    def attr_cache_entries() -> int:  # the per-attribute-id cache: prefilled (ORIGIN, ATOMIC_AGGREGATE), not used when decoding
        return sum(len(c) for c in rec.A.cache.values())

    before = attr_cache_entries()
    sess: list = [None] * len(specs)
    objs: list = []
    steps_out: list[dict] = []
    for st in job['steps']:
        rec.calls = []
        rec.klass = []
        if sess[st['s']] is None:
            # the session is established (two real OPENs) right before its first message:
            # the dispatches this causes are part of the step's record
            sess[st['s']] = build_session(specs[st['s']])
        n, neg = sess[st['s']]
        body = bytes.fromhex(st['body'])
        try:
            if st.get('entry', 'message') == 'collection':
                obj = UpdateCollection.unpack_message(memoryview(bytearray(body)), neg)  # writable, as the receive buffer of the real reader is
            else:
                obj = Message.unpack(st['t'], memoryview(bytearray(body)), neg)
            r = render(obj, n, neg, int(st.get('ord', 0)))
            objs.append((obj, n, neg))
        except Exception as e:  # noqa: BLE001  (whatever escapes is the result, as an enum)
            r = {'class': 'error', 'error': error_enum(e)}
            objs.append(None)
        steps_out.append({'render': r, 'calls': rec.calls, 'klass': rec.klass, 'params': {'asn4': int(bool(neg.asn4)), 'aigp': int(bool(neg.aigp))}})
    rec.calls = []
    rec.klass = []
    again = []
    if job.get('rerender', True):
        for o in objs:
            again.append(None if o is None else render(*o))
    return {'id': job.get('id'), 'steps': steps_out, 'again': again, 'class_ids': rec.class_ids(), 'attr_cache': [before, attr_cache_entries()], 'pid': os.getpid()}


def _prepare_worker() -> None:
    os.environ.setdefault('exabgp_log_enable', 'false')
    sys.path.insert(0, str(VERIF))
    sys.path.insert(0, str(REPO / 'src'))
    import exabgp.reactor.protocol  # noqa: F401  (every message, attribute, capability, NLRI class)
    import exabgp.reactor.api.response  # noqa: F401
    import exabgp.configuration.setup  # noqa: F401
    from harness import sessions  # noqa: F401
    from exabgp.bgp.message.update.attribute.attribute import Attribute

    # what application/server.py does at start (env.cache.attributes defaults to True)
    Attribute.caching = True


def worker_main() -> int:
    _prepare_worker()
    job = json.loads(sys.stdin.read())
    try:
        res = run_job(job)
    except BaseException as e:  # noqa: BLE001
        import traceback

        res = {'id': job.get('id'), 'rig_error': f'{type(e).__name__}: {e}', 'tb': traceback.format_exc()[-1500:]}
    sys.stdout.write(json.dumps(res) + '\n')
    return 0


# ---------------------------------------------------------------------------------------------
# the pool (library side)


def oneshot(job: dict, timeout: float = 300.0) -> dict:
    """Run one job in a brand-new interpreter."""
    env = dict(os.environ)
    env['exabgp_log_enable'] = 'false'
    env['PYTHONPATH'] = str(REPO / 'src')
    try:
        p = subprocess.run([sys.executable, '-S', str(Path(__file__).resolve()), '--worker'], input=json.dumps(job), stdout=subprocess.PIPE, text=True, env=env, cwd=str(VERIF), timeout=timeout)
    except subprocess.TimeoutExpired:
        return {'id': job.get('id'), 'rig_error': 'timeout'}
    try:
        return json.loads(p.stdout)
    except ValueError:
        return {'id': job.get('id'), 'rig_error': f'no output (rc={p.returncode})'}


def zygote_main() -> int:
    """A process that imports what a worker imports and then NEVER decodes anything itself: for every job line
    on stdin it forks, the child runs the job (its step 0 is the first thing decoded in that process image, as
    in a brand-new interpreter after its imports) and exits; the result goes back on stdout, one line per job."""
    import select

    _prepare_worker()
    out = sys.stdout
    for line in sys.stdin:
        line = line.strip()
        if not line:
            continue
        job = json.loads(line)
        r, w = os.pipe()
        pid = os.fork()
        if pid == 0:
            code = 0
            try:
                os.close(r)
                try:
                    res = run_job(job)
                except BaseException as e:  # noqa: BLE001
                    import traceback

                    res = {'id': job.get('id'), 'rig_error': f'{type(e).__name__}: {e}', 'tb': traceback.format_exc()[-1500:]}
                with os.fdopen(w, 'w') as f:
                    f.write(json.dumps(res))
            except BaseException:  # noqa: BLE001
                code = 1
            os._exit(code)
        os.close(w)
        chunks: list[bytes] = []
        end = time.time() + float(job.get('timeout', 300.0))
        timed_out = False
        while True:
            left = end - time.time()
            if left <= 0:
                timed_out = True
                break
            ready, _, _ = select.select([r], [], [], min(left, 5.0))
            if ready:
                b = os.read(r, 1 << 20)
                if not b:
                    break
                chunks.append(b)
        os.close(r)
        if timed_out:
            try:
                os.kill(pid, 9)
            except OSError:
                pass
        os.waitpid(pid, 0)
        text = b''.join(chunks).decode() if not timed_out else ''
        try:
            json.loads(text)
        except ValueError:
            text = json.dumps({'id': job.get('id'), 'rig_error': 'timeout' if timed_out else 'no output from the forked job'})
        out.write(text + '\n')
        out.flush()
    return 0


class Zygote:
    """One zygote process (see zygote_main); `run(job)` is blocking, one job at a time."""

    def __init__(self) -> None:
        env = dict(os.environ)
        env['exabgp_log_enable'] = 'false'
        env['PYTHONPATH'] = str(REPO / 'src')
        self.p = subprocess.Popen([sys.executable, '-S', str(Path(__file__).resolve()), '--zygote'], stdin=subprocess.PIPE, stdout=subprocess.PIPE, text=True, env=env, cwd=str(VERIF))

    def run(self, job: dict) -> dict:
        assert self.p.stdin is not None and self.p.stdout is not None
        self.p.stdin.write(json.dumps(job) + '\n')
        self.p.stdin.flush()
        line = self.p.stdout.readline()
        if not line:
            raise RuntimeError(f'zygote died (rc={self.p.poll()})')
        return json.loads(line)

    def close(self) -> None:
        try:
            if self.p.stdin:
                self.p.stdin.close()
            self.p.wait(timeout=5)
        except Exception:  # noqa: BLE001
            self.p.kill()


FORK = os.environ.get('VERIF_C19_EXEC', '') == ''  # VERIF_C19_EXEC=1: one exec'ed interpreter per job (the slow way)


class Pool:
    """K threads; each job runs in a process of its own that has decoded nothing before: forked from a zygote
    that only imported (default), or a brand-new interpreter per job (VERIF_C19_EXEC=1); results arrive in `results`."""

    def __init__(self, k: int) -> None:
        self.q: 'queue.Queue[dict | None]' = queue.Queue()
        self.results: dict[Any, dict] = {}
        self.lock = threading.Lock()
        self.pending = 0
        self.done_evt = threading.Condition(self.lock)
        self.threads = []
        self.k = k
        for _ in range(k):
            t = threading.Thread(target=self._serve, daemon=True)
            t.start()
            self.threads.append(t)

    def _serve(self) -> None:
        zyg: Zygote | None = None
        while True:
            job = self.q.get()
            if job is None:
                if zyg is not None:
                    zyg.close()
                return
            try:
                if FORK and not job.get('exec'):
                    if zyg is None:
                        zyg = Zygote()
                    try:
                        res = zyg.run(job)
                    except Exception:  # noqa: BLE001  (a dead zygote: this job the slow way, a new zygote for the next)
                        zyg.close()
                        zyg = None
                        res = oneshot(job)
                else:
                    res = oneshot(job)
            except Exception as e:  # noqa: BLE001
                res = {'id': job['id'], 'rig_error': f'{type(e).__name__}: {e}'}
            with self.done_evt:
                self.results[job['id']] = res
                self.pending -= 1
                self.done_evt.notify_all()

    def submit(self, job: dict) -> None:
        with self.lock:
            self.pending += 1
        self.q.put(job)

    def wait(self, ids: list | None = None, timeout: float | None = None) -> bool:
        """Wait until the given ids (or everything) are done. False on timeout."""
        end = None if timeout is None else time.time() + timeout
        with self.done_evt:
            while True:
                if ids is None:
                    if self.pending == 0:
                        return True
                elif all(i in self.results for i in ids):
                    return True
                left = None if end is None else end - time.time()
                if left is not None and left <= 0:
                    return False
                self.done_evt.wait(min(left, 1.0) if left is not None else 1.0)

    def drop_pending(self) -> None:
        """Forget the jobs not yet handed to an interpreter (they are answered as skipped)."""
        while True:
            try:
                job = self.q.get_nowait()
            except queue.Empty:
                return
            if job is None:
                continue
            with self.done_evt:
                self.results[job['id']] = {'id': job['id'], 'skipped': True}
                self.pending -= 1
                self.done_evt.notify_all()

    def close(self) -> None:
        self.drop_pending()
        for _ in self.threads:
            self.q.put(None)


# ---------------------------------------------------------------------------------------------
# message material (library side; nothing here decodes)


def tlv(flag: int, code: int, value: bytes) -> bytes:
    if len(value) > 255 or flag & 0x10:
        return bytes([flag | 0x10, code]) + len(value).to_bytes(2, 'big') + value
    return bytes([flag, code, len(value)]) + value


def h(s: str) -> bytes:
    return bytes.fromhex(s.replace(' ', ''))


IP4 = bytes([1, 2, 3, 4])
# name -> TLV.  The AS_PATH values are chosen to be readable with 2- and with 4-byte AS numbers.
ATTRS: dict[str, bytes] = {
    'origin-igp': tlv(0x40, 1, b'\x00'),
    'origin-egp': tlv(0x40, 1, b'\x01'),
    'origin-bad': tlv(0x40, 1, b'\x09'),
    'aspath-empty': tlv(0x40, 2, b''),
    'aspath-f8': tlv(0x40, 2, h('02 02 0001 0002 02 01 0003')),
    'aspath-f8-set': tlv(0x40, 2, h('01 02 0001 0002 01 01 0003')),
    'aspath-f8-3': tlv(0x40, 2, h('02 03 0001 0002 0003 02 02 0004 0005 02 01 0006')),
    'aspath-f8b': tlv(0x40, 2, h('02 02 0001 0002 02 01 0004')),
    'aspath-2only': tlv(0x40, 2, h('02 01 fde8')),
    'aspath-2only-b': tlv(0x40, 2, h('02 02 fde8 fde9')),
    'aspath-4only': tlv(0x40, 2, h('02 01 0000fde8')),
    'aspath-4only-b': tlv(0x40, 2, h('02 02 0000fde9 0000fdea')),
    'aspath-4big': tlv(0x40, 2, h('02 02 00011170 0000fdea')),
    'aspath-trans': tlv(0x40, 2, h('02 03 fdea 5ba0 0003')),
    'as4path': tlv(0xC0, 17, h('02 02 00011170 00000003')),
    'as4path-small': tlv(0xC0, 17, h('02 01 00000003')),
    'nexthop': tlv(0x40, 3, IP4),
    'nexthop-b': tlv(0x40, 3, bytes([10, 0, 0, 1])),
    'med-1': tlv(0x80, 4, (1).to_bytes(4, 'big')),
    'med-2': tlv(0x80, 4, (2).to_bytes(4, 'big')),
    'med-bad': tlv(0x80, 4, b'\x00\x00\x01'),
    'lp-100': tlv(0x40, 5, (100).to_bytes(4, 'big')),
    'lp-200': tlv(0x40, 5, (200).to_bytes(4, 'big')),
    'atomic': tlv(0x40, 6, b''),
    'aggregator-2': tlv(0xC0, 7, h('fde8') + IP4),
    'aggregator-4': tlv(0xC0, 7, h('0000fde8') + IP4),
    'aggregator-4big': tlv(0xC0, 7, h('00011170') + IP4),
    'as4aggregator': tlv(0xC0, 18, h('00011170') + IP4),
    'community': tlv(0xC0, 8, h('fde80001')),
    'community-2': tlv(0xC0, 8, h('fde80001 ffffff01')),
    'community-bad': tlv(0xC0, 8, h('fde800')),
    'originator': tlv(0x80, 9, IP4),
    'cluster': tlv(0x80, 10, IP4 + bytes([5, 6, 7, 8])),
    'extcomm': tlv(0xC0, 16, h('0002004800000001')),
    'extcomm-2': tlv(0xC0, 16, h('0002004800000001 0003000000480001')),
    'large': tlv(0xC0, 32, h('00000001 00000002 00000003')),
    'aigp': tlv(0x80, 26, h('01 000b 000000000000000a')),
    'aigp-b': tlv(0x80, 26, h('01 000b 000000000000000b')),
    'unknown-trans': tlv(0xC0, 99, h('abcd')),
    'unknown-nontrans': tlv(0x80, 98, h('abcd')),
    'zero-med': tlv(0x80, 4, b''),
    'mp-reach-v6': tlv(0x80, 14, h('0002 01 10 20010db8000000000000000000000001 00 20 20010db8')),
    'mp-reach-v6-pathid': tlv(0x80, 14, h('0002 01 10 20010db8000000000000000000000001 00 00000001 20 20010db8')),
    'mp-unreach-v6': tlv(0x80, 15, h('0002 01 20 20010db8')),
    'mp-unreach-v6-empty': tlv(0x80, 15, h('0002 01')),
    'mp-reach-badflag': tlv(0x40, 14, h('0002 01 10 20010db8000000000000000000000001 00 20 20010db8')),
}
NLRIS: dict[str, bytes] = {
    'none': b'',
    '10/24': h('18 0a0000'),
    '10/24+11/24': h('18 0a0000 18 0b0000'),
    '10/24-pathid': h('00000001 18 0a0000'),
    '10/24-pathid2': h('00000002 18 0a0000'),
    '32bit': h('20 0a000001'),
}


def update_body(withdrawn: bytes, attrs: bytes, nlri: bytes) -> bytes:
    return len(withdrawn).to_bytes(2, 'big') + withdrawn + len(attrs).to_bytes(2, 'big') + attrs + nlri


def block(names: list[str]) -> bytes:
    return b''.join(ATTRS[x] for x in names)


def open_body(caps: list[tuple[int, bytes]], asn: int = 65001, hold: int = 180, rid: bytes = bytes([2, 2, 2, 2])) -> bytes:
    params = b''
    for code, val in caps:
        c = bytes([code, len(val)]) + val
        params += bytes([2, len(c)]) + c
    return bytes([4]) + (asn if asn < 65536 else 23456).to_bytes(2, 'big') + hold.to_bytes(2, 'big') + rid + bytes([len(params)]) + params


CAPS: dict[str, tuple[int, bytes]] = {
    'mp-v4': (1, h('0001 00 01')),
    'mp-v6': (1, h('0002 00 01')),
    'rr': (2, b''),
    'rr-cisco': (128, b''),
    'err': (70, b''),
    'asn4': (65, (65001).to_bytes(4, 'big')),
    'ms': (68, b'\x00'),
    'ms-cisco': (131, b'\x00'),
    'extmsg': (6, b''),
    'hostname': (73, bytes([4]) + b'peer' + bytes([3]) + b'lab'),
    'software': (75, bytes([5]) + b'x/1.0'),
    'addpath': (69, h('0001 01 03')),
    'graceful': (64, h('0078')),
    'unknown': (200, h('0102')),
}

EORS: list[bytes] = [
    h('00000000'),
    h('0000 0007 900f 0003 0001 01'),
    h('0000 0007 900f 0003 0002 01'),
    h('0000 0007 900f 0003 0001 80'),
    h('0000 0007 900f 0003 0001 85'),
    h('0000 0007 900f 0003 0019 46'),
]
NOTIFICATIONS: list[bytes] = [h('0602'), h('0602') + bytes([4]) + b'bye!', h('0202') + h('fde8'), h('0400'), h('0609')]
REFRESHES: list[bytes] = [h('0001 00 01'), h('0002 00 01'), h('0001 01 01'), h('0001 02 01'), h('0001 03 01'), h('0001 00')]

ROUTE_TEXTS: list[str] = [
    'route 10.1.0.0/24 next-hop 1.2.3.4',
    'route 10.1.0.0/24 next-hop 1.2.3.4 as-path [ 65001 65002 ]',
    'route 10.1.1.0/24 next-hop 1.2.3.4 as-path [ 65001 65002 ]',
    'route 10.1.0.0/24 next-hop 1.2.3.4 as-path [ 65001 65003 ]',
    'route 10.2.0.0/24 next-hop 1.2.3.4 as-path [ 65001 70000 ] med 5',
    'route 10.2.0.0/24 next-hop 1.2.3.4 med 5 local-preference 200 community [ 65000:1 no-export ]',
    'route 10.2.0.0/24 next-hop 1.2.3.4 med 6 local-preference 200 community [ 65000:1 no-export ]',
    'route 10.3.0.0/24 next-hop 1.2.3.4 aggregator ( 65001:9.9.9.9 ) atomic-aggregate',
    'route 10.3.0.0/24 next-hop 1.2.3.4 aggregator ( 70000:9.9.9.9 )',
    'route 10.4.0.0/24 next-hop 1.2.3.4 large-community [ 1:2:3 ] extended-community [ target:72:1 ]',
    'route 10.4.0.0/24 next-hop 1.2.3.4 originator-id 9.9.9.9 cluster-list [ 1.1.1.1 2.2.2.2 ]',
    'route 2001:db8:1::/48 next-hop 2001:db8::1 as-path [ 65001 65002 ]',
    'route 2001:db8:2::/48 next-hop 2001:db8::1 med 7',
    'route 10.5.0.0/24 next-hop 1.2.3.4 path-information 0.0.0.7',
    'route 10.5.0.0/24 next-hop 1.2.3.4 attribute [ 0x63 0xc0 0xabcd ]',
    'route 10.6.0.0/24 next-hop 1.2.3.4 aigp 10',
]


def encoded_messages(spec: dict) -> list[tuple[int, bytes, str]]:
    """UPDATEs produced by ExaBGP's own encoder for a session shape, from route text."""
    from exabgp.bgp.message.update.collection import UpdateCollection
    from exabgp.rib.route import Route  # noqa: F401
    from harness import sessions

    n, neg = build_session(spec)
    cfg, _ = sessions.make_config(local_as=spec['local_as'], peer_as=spec['peer_as'], families=FAM46, add_path=spec['add_path'])
    out = []
    for text in ROUTE_TEXTS:
        try:
            routes = cfg.parse_route_text(text)
            if not routes:
                continue
            r = n.resolve_self(routes[0])
            from exabgp.bgp.message.update.collection import RoutedNLRI

            for raw in UpdateCollection([RoutedNLRI(r.nlri, r.nexthop)], [], r.attributes).messages(neg):
                out.append((2, bytes(raw[19:]), f'enc:{spec["name"]}:{text[6:40]}'))
            for raw in UpdateCollection([], [r.nlri], r.attributes).messages(neg):
                out.append((2, bytes(raw[19:]), f'encw:{spec["name"]}:{text[6:40]}'))
        except Exception:  # noqa: BLE001  (a text this shape cannot send is simply not material)
            continue
    return out


def qa_samples() -> list[tuple[int, bytes, str]]:
    out = []
    enc = REPO / 'qa' / 'encoding'
    for f in sorted(enc.glob('*.ci')):
        for line in f.read_text().splitlines():
            parts = line.strip().split(':')
            if len(parts) >= 6 and parts[1] == 'raw' and len(parts[2]) == 32:
                try:
                    out.append((int(parts[4], 16), bytes.fromhex(parts[5]), f'qa-enc:{f.stem}'))
                except ValueError:
                    continue
    dec = REPO / 'qa' / 'decoding'
    for f in sorted(dec.iterdir()):
        lines = f.read_text().splitlines()
        if len(lines) < 2:
            continue
        kind = lines[0].split()[0] if lines[0].split() else ''
        raw = lines[1].replace(' ', '').replace(':', '')
        try:
            b = bytes.fromhex(raw)
        except ValueError:
            continue
        if b[:16] == b'\xff' * 16:
            t, b = b[18], b[19:]
        else:
            t = {'update': 2, 'open': 1}.get(kind)
            if t is None:
                continue
        out.append((t, b, f'qa-dec:{f.name}'))
    return out


if __name__ == '__main__':
    if '--worker' in sys.argv:
        sys.exit(worker_main())
    if '--zygote' in sys.argv:
        sys.exit(zygote_main())
    print(__doc__)
