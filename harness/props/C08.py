"""C08 — malformed attributes never yield announced routes (RFC 7606).

Correspondence: well-formed UPDATEs from the Lean reference encoder (drv_wire), one attribute corrupted
(length, flags, value, truncation, overrun, duplication) for every attribute type, decoded by the REAL code
(Message.unpack -> .data -> JSON event; Protocol.read_message -> API event -> UpdateHandler -> Adj-RIB-In)
and by the compiled Lean model (drv_attr7606), compared on the canonical outcome.
Oracle (independent of the model): the RFC reading of the corrupted bytes (rfc7606rig.rfc_walk / wf_value /
wf_flags) against what the real code reported."""

from __future__ import annotations

import json
import random

from harness import common
from harness import rfc7606rig as rig
from harness.common import Ctx, Disagreement, Failure

THEOREM_MODULES = ['ExaModel.Props.C08']
DRIVERS = ['drv_attr7606', 'drv_wire']
TABLES = ['attr', 'family']  # Generated/AttrTable.lean (harness/tables/attr.py, reused as is), Generated/FamilyTable.lean (familySize)
ASSUMPTIONS = [
    'sessions: ipv4 unicast + ipv6 unicast, no ADD-PATH, no extended next hop, 4-byte and 2-byte AS',
    'the value decoders of PMSI, TUNNEL_ENCAP, AIGP, BGP-LS, PREFIX_SID are outside the Lean model (oracle and generic corruptions only)',
    'the content of the AS_PATH rebuilt by merge_attributes is not compared here (C02)',
    'Python recursion depth is not modelled: bodies with more than 900 attributes are judged by the oracle only',
    'a well-known attribute with the Partial bit set is handled by ExaBGP as a flag conflict (treat-as-withdraw or discard by class; stricter than RFC 7606 3.c, which only names the Optional and Transitive bits); the oracle neither calls it malformed nor counts its loss',
    'whether the one open repair (C08b: empty AS_PATH segment refused) is present in /repo is probed on one fixed input; the model variant with that switch is the one compared',
]
TRUSTED_EXTRA = ['RFC reading in harness/rfc7606rig.py (rfc_walk, wf_value, wf_flags, RFC_CLASS) used by the oracle']

JSON_KEY = {1: 'origin', 2: 'as-path', 4: 'med', 5: 'local-preference', 6: 'atomic-aggregate', 7: 'aggregator', 8: 'community', 9: 'originator-id',
            10: 'cluster-list', 16: 'extended-community', 18: 'aggregator', 25: 'extended-community-ipv6', 32: 'large-community'}  # fmt: skip
CODES = [1, 2, 3, 4, 5, 6, 7, 8, 9, 10, 14, 15, 16, 17, 18, 25, 32, 99, 100]
# order in which the kinds of one group are tried when shrinking (first failing one is the representative)
GROUP_ORDER: dict[str, list[str]] = {}
for _k, _g in rig.GROUPS.items():
    GROUP_ORDER.setdefault(_g, []).append(_k)


# ---------------------------------------------------------------------------------------------
# which repairs does /repo contain?


def probe_fix(S: dict[bool, rig.Session]) -> str:
    """Is the one repair that is still open (C08b, empty AS_PATH segment refused) present in the tree?"""
    s = S[True]
    o, n = rig.tlv(0x40, 1, b'\0'), rig.tlv(0x40, 3, bytes([10, 0, 0, 1]))
    u = s.unpack(rig.join_body(b'', o + rig.tlv(0x40, 2, b'\x02\x00') + n, b'\x18\x0a\x00\x00'))
    seg0 = not (u['out'] == 'ok' and any(c == 2 for c, _, _ in u['kept']))
    return str(int(seg0))


# ---------------------------------------------------------------------------------------------
# the oracle


def occ_malformed(o: dict, asn4: bool) -> str | None:
    """Why the RFC calls this occurrence malformed (None: it is well-formed)."""
    if o['overrun']:
        return 'overrun'
    if not rig.wf_flags(o['code'], o['flag']):
        return 'flags'
    if not rig.wf_value(o['code'], o['val'], asn4):
        # with Partial set on a well-known attribute ExaBGP's decision is the one of a flag conflict
        noise = 0 if o['flag'] & 0x80 else o['flag'] & 0x20
        return 'flags' if noise else 'value'
    return None


def judge_view(view_kept: dict[int, str] | None, view_keys: set[str] | None, occ: list[dict], cut: bool, asn4: bool) -> list[tuple[object, str, str]]:
    """Routes are reported as announced with this attribute view. Returns (code, group, what) for every breach:
    a malformed attribute of a withdraw/reset class (routes must not be announced), a malformed
    discard-class attribute that was kept, an overrunning attribute accepted, a well-formed attribute
    missing or misparsed next to a malformed one."""
    bad: list[tuple[object, str, str]] = []
    seen: set[int] = set()
    codes = {o['code'] for o in occ}
    # an attribute that occurs twice makes the UPDATE malformed as well (RFC 7606 3.g: all but the first are
    # discarded): the FIRST occurrence, well-formed, must then be in the announced route with its own value
    any_malformed = cut or len(codes) < len(occ)
    pending_wf: list[dict] = []
    has17 = 17 in codes
    for o in occ:
        code = o['code']
        if code in seen:
            continue  # RFC 7606 §3.g: later occurrences are discarded whatever they contain (MP: session reset, cannot be announced)
        seen.add(code)
        why = occ_malformed(o, asn4)
        if why is None:
            pending_wf.append(o)
            continue
        any_malformed = True
        cls = rig.RFC_CLASS.get(code)
        name = rig.NAMES.get(code, f'attribute {code}')
        ccode: object = code if code in rig.FLAG_SPEC else 'unknown'
        detail = f'(flags 0x{o["flag"]:02x}, declared length {o["dlen"]}, {len(o["val"])} bytes present)'
        if cls in ('W', 'R'):
            bad.append((ccode, why, f'malformed {name} {detail} and the routes are announced'))
            continue
        again = sum(1 for x in occ if x['code'] == code) > 1  # a later occurrence may legitimately stand in the result
        if view_kept is not None:
            present = code in view_kept and not again
            if code == 17 and 17 not in view_kept and 2 in view_kept:
                # merged: the malformed AS4_PATH was used if the AS_PATH is no longer the one on the wire
                o2 = [x for x in occ if x['code'] == 2]
                present = bool(o2) and view_kept[2] not in (o2[0]['val'].hex(), '?')
        else:
            present = JSON_KEY.get(code) in (view_keys or set()) and code != 18 and not (code == 7 and 18 in codes) and not again
        if present:
            bad.append((ccode, why, f'malformed {name} {detail} is part of the announced route'))
    if cut:
        bad.append(('none', 'cut-header', 'attribute block ends inside an attribute header and the routes are announced'))
    if any_malformed and not bad:
        for o in pending_wf:
            code = o['code']
            if code not in rig.FLAG_SPEC or code in (14, 15):
                continue
            if (o['flag'] & 0x20) and not (o['flag'] & 0x80):
                continue  # Partial on a well-known attribute: ExaBGP treats it as a flag conflict (see ASSUMPTIONS)
            if code == 17 and (asn4 or 18 in codes):
                continue  # RFC 6793: a 4-octet session ignores AS4_PATH; AGGREGATOR without AS_TRANS voids it
            if code == 18 and not asn4:
                continue  # merged into AGGREGATOR (or void) on a 2-octet session
            if code == 7 and 18 in codes and not asn4:
                continue  # may carry AS4_AGGREGATOR's value
            if view_kept is not None:
                if code == 17 and 2 in view_kept:
                    continue  # merged into AS_PATH
                if code not in view_kept:
                    bad.append((code, 'lost', f'well-formed {rig.NAMES[code]} is missing from the announced route'))
                    continue
                got, want = view_kept[code], o['val'].hex()
                if code == 32:
                    got, want = rig.dedup12(got), rig.dedup12(want)
                if code == 2 and has17:
                    continue
                if got != '?' and got != want:
                    bad.append((code, 'lost', f'well-formed {rig.NAMES[code]} misparsed: {got} for {want}'))
            elif view_keys is not None and code in JSON_KEY and code not in (17, 18):
                if JSON_KEY[code] not in view_keys and not (code == 2 and o['val'] == b''):
                    bad.append((code, 'lost', f'well-formed {rig.NAMES[code]} is missing from the JSON event'))
    return bad


def oracle(u: dict, r: dict, body: bytes, asn4: bool) -> list[dict]:
    """Every breach of the property on this case: {code, group, marked, nlri, where, what}."""
    out: list[dict] = []
    marked = 'taw' if u.get('taw') else 'disc' if u.get('disc') else 'none'
    nlri = 'v4' if any(a.startswith('1.1/') for a in u.get('announce', [])) else 'mp'

    def add(items, where: str) -> None:
        for code, group, what in items:
            out.append({'code': code, 'group': group, 'marked': marked, 'nlri': nlri, 'where': where, 'what': what})

    if u['out'].startswith('raise'):
        out.append({'code': 'none', 'group': 'exception', 'marked': 'none', 'nlri': 'v4', 'where': 'Message.unpack', 'what': f'{u["out"][6:]} instead of a NOTIFICATION'})
    elif r['out'].startswith('raise'):
        out.append({'code': 'none', 'group': 'exception', 'marked': 'none', 'nlri': 'v4', 'where': 'Protocol.read_message', 'what': f'{r["out"][6:]} instead of a NOTIFICATION'})
    try:
        _, block, _ = rig.split_body(body)
    except Exception:  # noqa: BLE001
        return out
    occ, cut = rig.rfc_walk(block)
    if u['out'] == 'ok' and not u.get('eor'):
        if u['announce']:
            add(judge_view({c: v for c, _, v in u['kept']}, None, occ, cut, asn4), 'Message.unpack .data')
        if 'announce' in u.get('json', {}):
            add(judge_view(None, set(u['json'].get('attribute', {}).keys()), occ, cut, asn4), 'JSON event')
    if r.get('api') and 'announce' in r['api']:
        add(judge_view(None, set(r['api'].get('attribute', {}).keys()), occ, cut, asn4), 'API event of read_message')
    for route, kept_l in r.get('ribin', []):
        add(judge_view({c: v for c, _, v in kept_l}, None, occ, cut, asn4), f'Adj-RIB-In {route}')
        break  # every route of one UPDATE shares the attribute collection
    return out


def breach_key(b: dict) -> tuple:
    """What the canonical form is made of. Every breach on an UPDATE that the parser itself had marked
    treat-as-withdraw has one cause — the marker is not acted on — whatever attribute and corruption led to
    the marker, so those collapse into one class; a breach without that marker is a malformation the parser
    did not detect, and is keyed by attribute code and by why the RFC calls the occurrence malformed."""
    if b['group'] == 'exception':
        return ('exception', b['what'].split(' ')[0])
    if b['marked'] == 'taw' and b['group'] != 'lost':
        return ('treat-as-withdraw-marker-ignored',)
    return ('lost' if b['group'] == 'lost' else 'not-detected', str(b['code']), b['group'])


# ---------------------------------------------------------------------------------------------
# cases


def f7_body(n: int) -> bytes:
    block = bytes([0x80, 100, 0]) * n
    base = rig.tlv(0x40, 1, b'\0') + rig.tlv(0x40, 2, b'\x02\x01\xfd\xe9\xfd\xe9'[:6]) + rig.tlv(0x40, 3, bytes([10, 0, 0, 1]))
    return rig.join_body(b'', base + block, b'\x18\x0a\x00\x00')


def make_cases(ctx: Ctx) -> list[dict]:
    rng = ctx.rng
    bases: list[dict] = []
    plan: list[tuple[int, int, str]] = []  # (base index, code, kind)
    for asn4 in (True, False):
        for kind in ('v4', 'mp', 'v4mp'):
            for code in CODES:
                if code in (17, 18) and asn4 and kind != 'v4':
                    continue
                if code == 3 and kind == 'mp':
                    continue
                if code == 14 and kind == 'v4':
                    continue
                if code == 15 and kind == 'v4':
                    continue
                bases.append(rig.minimal_base(asn4, kind, code))
                for k in rig.KINDS:
                    plan.append((len(bases) - 1, code, k))
    nrand = 1200 if ctx.tier == 'quick' else 40000
    for _ in range(nrand):
        asn4 = rng.random() < 0.5
        kind = rng.choice(['v4', 'v4', 'mp', 'v4mp'])
        b = rig.gen_base(rng, asn4, kind)
        bases.append(b)
        for _ in range(3 if ctx.tier == 'quick' else 4):
            plan.append((len(bases) - 1, rng.choice(b['codes']), rng.choice(rig.KINDS)))
        plan.append((len(bases) - 1, 0, 'none'))
    bodies = rig.encode_bases(bases)
    cases: list[dict] = []
    for bi, code, kind in plan:
        b = bases[bi]
        wd, block, nlri = rig.split_body(bodies[bi])
        if kind == 'none':
            cases.append({'asn4': b['asn4'], 'nlri': b['kind'], 'code': 0, 'kind': 'none', 'body': bodies[bi], 'origin': 'base'})
            continue
        ts = rig.base_tlvs(block)
        idx = [i for i, t in enumerate(ts) if t['code'] == code]
        if not idx:
            continue
        blk = rig.corrupt(kind, ts, idx[0], rng, b['asn4'])
        if blk is None or len(blk) > 60000:
            ctx.count('corruption-not-applicable')
            continue
        cases.append({'asn4': b['asn4'], 'nlri': b['kind'], 'code': code, 'kind': kind, 'body': rig.join_body(wd, blk, nlri), 'origin': 'minimal' if bi < len(bases) - nrand else 'random'})
    # a malformed stream: random single-byte edits of the attribute block, and blocks of random bytes
    nfuzz = 1000 if ctx.tier == 'quick' else 40000
    for _ in range(nfuzz):
        bi = rng.randrange(len(bases))
        wd, block, nlri = rig.split_body(bodies[bi])
        if rng.random() < 0.8 and block:
            bb = bytearray(block)
            for _ in range(rng.choice([1, 1, 2])):
                bb[rng.randrange(len(bb))] = rng.randrange(256)
            blk = bytes(bb)
        else:
            blk = bytes(rng.randrange(256) for _ in range(rng.randrange(0, 24)))
        cases.append({'asn4': bases[bi]['asn4'], 'nlri': bases[bi]['kind'], 'code': -3, 'kind': 'fuzz', 'body': rig.join_body(wd, blk, nlri), 'origin': 'fuzz'})
    for n in (10, 400, 1200):
        cases.append({'asn4': True, 'nlri': 'v4', 'code': 100, 'kind': f'many-{n}', 'body': f7_body(n), 'origin': 'many'})

    def one_corrupted(ts: list[dict], i: int, kind: str, asn4: bool) -> bytes | None:
        """The bytes attribute i becomes under this corruption, when the corruption leaves the others alone."""
        blk = rig.corrupt(kind, ts, i, rng, asn4)
        pre, post = rig.ser(ts[:i]), rig.ser(ts[i + 1 :])
        if blk is None or len(blk) < len(pre) + len(post) or not blk.startswith(pre) or (post and not blk.endswith(post)):
            return None
        return blk[len(pre) : len(blk) - len(post)]

    # TWO attributes of one UPDATE are malformed: what the first one asks for does not make the second one go away
    # (RFC 7606 3: the strongest of the approaches applies)
    npair = 700 if ctx.tier == 'quick' else 20000
    for _ in range(npair):
        bi = rng.randrange(len(bases))
        b = bases[bi]
        wd, block, nlri = rig.split_body(bodies[bi])
        ts = rig.base_tlvs(block)
        if len(ts) < 2:
            continue
        i1, i2 = sorted(rng.sample(range(len(ts)), 2))
        k1, k2 = rng.choice(rig.KINDS), rng.choice(rig.KINDS)
        x1, x2 = one_corrupted(ts, i1, k1, b['asn4']), one_corrupted(ts, i2, k2, b['asn4'])
        if x1 is None or x2 is None:
            ctx.count('corruption-not-applicable')
            continue
        blk = rig.ser(ts[:i1]) + x1 + rig.ser(ts[i1 + 1 : i2]) + x2 + rig.ser(ts[i2 + 1 :])
        if len(blk) <= 60000:
            cases.append({'asn4': b['asn4'], 'nlri': b['kind'], 'code': ts[i1]['code'], 'kind': f'{k1}+{k2}', 'body': rig.join_body(wd, blk, nlri), 'origin': 'pair'})
    # a NEXT_HOP attribute in an UPDATE whose routes are all in MP_REACH_NLRI (RFC 4760 3: SHOULD NOT be there, and is
    # ignored when well-formed): well-formed or malformed, alone or in front of / behind another malformed attribute
    nh_forms = [bytes([0x40, 3, 4, 192, 0, 2, 1]), bytes([0x40, 3, 16]) + bytes([0x20, 1, 0x0D, 0xB8] + [0] * 11 + [1]), bytes([0x40, 3, 0]), bytes([0x40, 3, 3, 192, 0, 2]),
                bytes([0x40, 3, 5, 192, 0, 2, 1, 9]), bytes([0x80, 3, 4, 192, 0, 2, 1]), bytes([0x50, 3, 0, 4, 192, 0, 2, 1]), bytes([0x40, 3, 200, 192, 0]), bytes([0x40, 3])]
    mp_bases = [i for i, b in enumerate(bases) if b['kind'] == 'mp']
    nnh = 500 if ctx.tier == 'quick' else 12000
    for j in range(nnh):
        bi = rng.choice(mp_bases)
        b = bases[bi]
        wd, block, nlri = rig.split_body(bodies[bi])
        ts = rig.base_tlvs(block)
        form = nh_forms[j % len(nh_forms)]
        at = rng.randrange(len(ts) + 1)
        parts = [t['raw'] for t in ts]
        kind = f'nh-form-{j % len(nh_forms)}'
        if ts and rng.random() < 0.6:
            i = rng.randrange(len(ts))
            k = rng.choice(rig.KINDS)
            x = one_corrupted(ts, i, k, b['asn4'])
            if x is not None:
                parts[i] = x
                kind += '+' + k
        parts.insert(at, form)
        blk = b''.join(parts)
        cases.append({'asn4': b['asn4'], 'nlri': 'mp', 'code': 3, 'kind': kind, 'body': rig.join_body(wd, blk, nlri), 'origin': 'mp-with-next-hop'})
    # the same corruptions BEHIND many attributes that count for nothing (the same unknown optional non-transitive
    # attribute of no length, repeated: RFC 7606 3.g discards all but the first): how far into the block an attribute
    # sits does not change what it is.  255 / 256 / 257 / 300 / 700 of them in front, and the malformed one in front.
    filler = bytes([0x80, 0xC8, 0x00])
    shift = [c for c in cases if c['origin'] in ('minimal', 'random') and c['kind'] != 'none']
    rng.shuffle(shift)
    for c in shift[: (120 if ctx.tier == 'quick' else 4000)]:
        wd, blk, nlri = rig.split_body(c['body'])
        for n in (rng.choice([255, 256, 257]), rng.choice([300, 700])):
            for front in (True, False):
                nb = (filler * n + blk) if front else (blk + filler * n)
                body = rig.join_body(wd, nb, nlri)
                if len(body) + 19 <= 4096:
                    cases.append(dict(c, body=body, kind=c['kind'], origin='behind-many' if front else 'before-many'))
    return cases


def load_corpus() -> list[dict]:
    d = common.VERIF / 'corpus' / 'C08'
    cases = []
    if d.exists():
        for f in sorted(d.glob('*.json')):
            c = json.loads(f.read_text())
            cases.append({'asn4': bool(c['asn4']), 'nlri': c.get('nlri', 'v4'), 'code': c.get('code', 0), 'kind': c.get('kind', 'corpus'), 'body': bytes.fromhex(c['body']), 'origin': 'corpus'})
    return cases


# ---------------------------------------------------------------------------------------------
# shrinking to the canonical form


_MINI: dict = {}


def minimal_cases(S: dict[bool, rig.Session]) -> list[tuple[dict, list[dict]]]:
    """Every corruption of every minimal base, with the oracle's breaches (computed once per run, deterministic)."""
    if 'cases' in _MINI:
        return _MINI['cases']
    bases, plan = [], []
    for nlri in ('v4', 'mp', 'v4mp'):
        for asn4 in (True, False):
            for code in CODES:
                if (code == 3 and nlri == 'mp') or (code == 14 and nlri == 'v4') or (code == 15 and nlri == 'v4'):
                    continue
                bases.append(rig.minimal_base(asn4, nlri, code))
                plan.append(code)
    bodies = rig.encode_bases(bases)
    res = []
    for b, body0, code in zip(bases, bodies, plan):
        wd, block, nl = rig.split_body(body0)
        ts = rig.base_tlvs(block)
        i = [j for j, t in enumerate(ts) if t['code'] == code][0]
        for kind in rig.KINDS:
            blk = rig.corrupt(kind, ts, i, random.Random(0), b['asn4'])
            if blk is None:
                continue
            body = rig.join_body(wd, blk, nl)
            s = S[b['asn4']]
            br = oracle(s.unpack(body), s.read(body), body, b['asn4'])
            if br:
                res.append(({'asn4': b['asn4'], 'body': body.hex(), 'kind': kind, 'base': b['kind'], 'code': code}, br))
    _MINI['cases'] = res
    return res


def canonical(S: dict[bool, rig.Session], case: dict, breach: dict) -> tuple[dict, dict]:
    """(canon, replay). The canonical form (kind `update-class`) is read off the breach itself (see breach_key):
    class, attribute code (`unknown` for a code no RFC syntax is known for), why the RFC calls the occurrence
    malformed (value | flags | overrun | cut-header | lost), NLRI kind — so it does not depend on which
    generator produced the case. The replay is the smallest base on which the same breach occurs: fixed
    values, IPv4 NLRI and a 4-byte-AS session if possible."""
    k = breach_key(breach)
    if k[0] == 'exception':
        canon = {'class': 'exception', 'exception': k[1]}
    elif k[0] == 'treat-as-withdraw-marker-ignored':
        canon = {'class': k[0], 'nlri': breach['nlri']}
    else:
        canon = {'class': k[0], 'code': breach['code'], 'corruption': breach['group'], 'nlri': breach['nlri']}
    replay = {'asn4': case['asn4'], 'body': case['body'].hex(), 'kind': case['kind'], 'code': case['code']}
    for rp, brs in minimal_cases(S):
        hit = [b for b in brs if breach_key(b) == k]
        if hit:
            if 'nlri' in canon:
                canon['nlri'] = hit[0]['nlri']
            replay = rp
            break
    return canon, replay


# ---------------------------------------------------------------------------------------------


def run(ctx: Ctx) -> None:
    ctx.rule = (
        'UPDATE bodies from the Lean reference encoder (minimal bases per attribute code x {IPv4 NLRI, MP_REACH ipv6, IPv4 NLRI + MP_UNREACH} x {4-byte, 2-byte AS}, plus random bases '
        'with random subsets / orders / values of 19 attribute codes and legal extended-length flags), one attribute corrupted by each of 23 corruptions (length +1/-1/0/+4/huge, '
        'optional/transitive/both/partial/extended/unused flag bits, invalid value, block truncated in the header or in the value, declared length overrunning the block by 1/4/200 or with no '
        'value byte, declared length swallowing the next attribute, duplicate adjacent / at the end / malformed duplicate), plus random byte edits, random blocks and 10/400/1200 zero-length '
        'unknown attributes; non-trivial = the RFC reading of the corrupted block contains a malformed first occurrence (or a cut header) and the real code returned an UPDATE or a NOTIFICATION; '
        'distinct = distinct body'
    )
    S = {True: rig.Session(True), False: rig.Session(False)}
    try:
        fix = probe_fix(S)
        ctx.extra['fix_bits'] = {'order': 'seg0', 'present_in_repo': fix}
        ctx.notes.append(f'open repair C08b (empty AS_PATH segment refused) present in /repo = {fix}')
        if ctx.driver_ok:
            # the class table: generated row (classOf) against the hand-written RFC class, through the compiled model
            spec = [1, 2, 3, 4, 5, 6, 7, 8, 9, 10, 14, 15, 16, 17, 18, 25, 32]
            out = common.run_driver('drv_attr7606', [f'attr7606 rfcclass {c}' for c in spec] + [f'attr7606 tabclass {c}' for c in spec])
            mism = {c: {'rfc': out[i], 'code': out[len(spec) + i]} for i, c in enumerate(spec) if out[i] != out[len(spec) + i]}
            ctx.extra['class_table_mismatches'] = mism
            if mism:
                ctx.notes.append('class of the registered attribute differs from RFC 7606 (safe directions only, see table_classes_rfc_partial): ' + ', '.join(f'{c}: RFC {v["rfc"]}, code {v["code"]}' for c, v in mism.items()))
        cases = load_corpus() + make_cases(ctx)
        results = []
        for case in cases:
            if ctx.time_left() < (25 if ctx.tier == 'quick' else 120):
                ctx.notes.append(f'budget reached after {ctx.evaluations} cases of {len(cases)}')
                break
            s = S[case['asn4']]
            body = case['body']
            u = s.unpack(body)
            r = s.read(body)
            ctx.evaluations += 1
            ctx.count('corruption:' + rig.GROUPS.get(case['kind'], case['kind'].split('-')[0]))
            ctx.count('code:%s' % (case['code'] if case['code'] > 0 else case['origin']))
            ctx.count('nlri:' + case['nlri'])
            ctx.count('asn4:%d' % case['asn4'])
            ctx.count('impl:' + (u['out'] if u['out'] != 'ok' else ('ok-announce' if u['announce'] else 'ok-eor' if u.get('eor') else 'ok-no-announce') + ('-taw' if u.get('taw') else '') + ('-disc' if u.get('disc') else '')))
            ctx.count('read:' + r['out'])
            results.append((case, u, r))
        # model, one batch
        model: list[str] = []
        if ctx.driver_ok:
            model = common.run_driver('drv_attr7606', [rig.model_lines(fix, S[c['asn4']], c['body']) for c, _, _ in results])
        seen_fail: set[str] = set()
        for i, (case, u, r) in enumerate(results):
            body = case['body']
            try:
                _, block, _ = rig.split_body(body)
                occ, cut = rig.rfc_walk(block)
            except Exception:  # noqa: BLE001
                occ, cut = [], False
            firsts, seen = [], set()
            for o in occ:
                if o['code'] not in seen:
                    seen.add(o['code'])
                    firsts.append(o)
            malformed = cut or any(occ_malformed(o, case['asn4']) for o in firsts)
            if malformed and (u['out'] == 'ok' or u['out'].startswith('notify')):
                ctx.nontrivial(body.hex())
            if malformed:
                ctx.count('rfc-malformed')
            ctx.sample({'asn4': case['asn4'], 'code': case['code'], 'corruption': case['kind'], 'body': body.hex()[:160], 'unpack': u['out'], 'announce': u.get('announce'), 'taw': u.get('taw'), 'read_message': r['out']}, cap=4)
            # correspondence
            if model:
                has17 = any(o['code'] == 17 for o in occ)
                m = model[i]
                if len(occ) > 900:
                    ctx.count('beyond-recursion-depth (oracle only)')
                elif m == 'unmodelled':
                    ctx.count('model:unmodelled')
                elif u['out'] == 'raise error' and has17 and any(o['code'] == 2 for o in occ):
                    # struct.error out of merge_attributes (F20: AS4_PATH with an AS number above 65535 re-packed
                    # with 2-byte AS numbers): the content of the merge is outside this model; the oracle reports it
                    ctx.count('merge raises struct.error (F20, oracle only)')
                else:
                    cm, ci = rig.canon_model(m, has17), rig.canon_impl(u, has17)
                    if cm != ci:
                        ctx.disagreements.append(Disagreement('Message.unpack', {'asn4': case['asn4'], 'body': body.hex(), 'corruption': case['kind'], 'code': case['code']}, cm, ci))
                    else:
                        want = rig.expected_read(m)
                        if r['out'] != want:
                            ctx.disagreements.append(Disagreement('read_message', {'asn4': case['asn4'], 'body': body.hex(), 'corruption': case['kind'], 'code': case['code']}, want, r['out']))
                        elif r['out'] == 'update':
                            # Adj-RIB-In holds exactly the announced routes, each with the reported attribute collection
                            f = dict(w.split('=', 1) for w in cm[3:].split(' '))
                            got = sorted(x for x, _ in r['ribin'])
                            gone = set(f['wd'].split('+')) if f['wd'] != '-' else set()  # the handler applies the withdraws after the announces
                            wantr = sorted(set(f['ann'].split('+')) - gone) if f['ann'] != '-' else []
                            if got != wantr:
                                ctx.disagreements.append(Disagreement('Adj-RIB-In', {'asn4': case['asn4'], 'body': body.hex()}, wantr, got))
            # oracle
            for b in oracle(u, r, body, case['asn4']):
                ctx.count('oracle-fail:' + b['group'])
                key0 = json.dumps(breach_key(b))
                if key0 in seen_fail:
                    continue
                seen_fail.add(key0)
                canon, replay = canonical(S, case, b)
                key = json.dumps(canon, sort_keys=True)
                if key in seen_fail:
                    continue
                seen_fail.add(key)
                ctx.failures.append(Failure('update-class', canon, replay, f'{b["where"]}: {b["what"]}'))
        # history pass: the same body is first decoded by the OTHER session (2-byte / 4-byte AS numbers), then by its
        # own, with everything the process keeps between messages left in place.  What is malformed for a session stays
        # malformed whatever another session made of the same bytes a moment ago.
        rig.Session.keep_caches = True
        try:
            hist = [c for c, _, _ in results]
            ctx.rng.shuffle(hist)
            for case in hist[: (250 if ctx.tier == 'quick' else 6000)]:
                if ctx.time_left() < (15 if ctx.tier == 'quick' else 60):
                    break
                body = case['body']
                S[not case['asn4']].unpack(body)
                u = S[case['asn4']].unpack(body)
                S[not case['asn4']].read(body)
                r = S[case['asn4']].read(body)
                ctx.evaluations += 1
                ctx.count('history:other-session-first')
                for b in oracle(u, r, body, case['asn4']):
                    ctx.count('oracle-fail-history:' + b['group'])
                    key0 = json.dumps(breach_key(b))
                    if key0 in seen_fail:
                        continue
                    seen_fail.add(key0)
                    k = breach_key(b)
                    canon = {'class': k[0], 'code': b.get('code'), 'corruption': b.get('group'), 'nlri': b.get('nlri'), 'history': 'other-session-first'}
                    key = json.dumps(canon, sort_keys=True)
                    if key in seen_fail:
                        continue
                    seen_fail.add(key)
                    ctx.failures.append(Failure('update-class', canon, {'asn4': case['asn4'], 'body': body.hex(), 'kind': case['kind'], 'code': case['code'], 'history': 'other-session-first'}, f'{b["where"]} (after the other session decoded the same bytes): {b["what"]}'))
            # second history: a well-formed UPDATE without MP attributes (it fills the last-block cache), then the SAME
            # body twice in a row on that session — a peer with a broken encoder sends the same malformed attributes
            # for one batch of prefixes after the other.  The second copy is judged exactly like a first one.
            goods = {a: [c['body'] for c, _, _ in results if c['kind'] == 'none' and c.get('nlri') == 'v4' and c['asn4'] == a] for a in (False, True)}
            twice = [c for c in hist if c['kind'] != 'none'] + [c for c in hist if c['kind'] == 'none']
            for case in twice[: (250 if ctx.tier == 'quick' else 6000)]:
                if ctx.time_left() < (12 if ctx.tier == 'quick' else 60) or not goods[case['asn4']]:
                    break
                body = case['body']
                good = ctx.rng.choice(goods[case['asn4']])
                s = S[case['asn4']]
                s.unpack(good)
                s.unpack(body)
                u = s.unpack(body)
                s.read(good)
                s.read(body)
                r = s.read(body)
                ctx.evaluations += 1
                ctx.count('history:well-formed-then-twice')
                for b in oracle(u, r, body, case['asn4']):
                    ctx.count('oracle-fail-history:' + b['group'])
                    key0 = json.dumps(breach_key(b))
                    if key0 in seen_fail:
                        continue
                    seen_fail.add(key0)
                    k = breach_key(b)
                    canon = {'class': k[0], 'code': b.get('code'), 'corruption': b.get('group'), 'nlri': b.get('nlri'), 'history': 'well-formed-then-twice'}
                    key = json.dumps(canon, sort_keys=True)
                    if key in seen_fail:
                        continue
                    seen_fail.add(key)
                    ctx.failures.append(Failure('update-class', canon, {'asn4': case['asn4'], 'body': body.hex(), 'good': good.hex(), 'kind': case['kind'], 'code': case['code'], 'history': 'well-formed-then-twice'}, f'{b["where"]} (second of two identical UPDATEs after a well-formed one): {b["what"]}'))
        finally:
            rig.Session.keep_caches = False
    finally:
        for s in S.values():
            s.close()


def replay(path: str) -> int:
    data = json.loads(open(path).read())
    rp = data['replay']
    s = rig.Session(bool(rp['asn4']))
    body = bytes.fromhex(rp['body'])
    if rp.get('history') == 'other-session-first':
        rig.Session.keep_caches = True
        other = rig.Session(not bool(rp['asn4']))
        other.unpack(body)
        u = s.unpack(body)
        other.read(body)
        r = s.read(body)
        other.close()
    elif rp.get('history') == 'well-formed-then-twice':
        rig.Session.keep_caches = True
        good = bytes.fromhex(rp['good'])
        s.unpack(good)
        s.unpack(body)
        u = s.unpack(body)
        s.read(good)
        s.read(body)
        r = s.read(body)
    else:
        u = s.unpack(body)
        r = s.read(body)
    _, block, _ = rig.split_body(body)
    occ, cut = rig.rfc_walk(block)
    print('body        :', body.hex())
    for o in occ:
        mal = occ_malformed(o, bool(rp['asn4']))
        print(f'  attribute code {o["code"]:3d} flags 0x{o["flag"]:02x} declared {o["dlen"]} present {len(o["val"])} {"MALFORMED (" + mal + ")" if mal else "ok"}')
    if cut:
        print('  block ends inside an attribute header')
    print('unpack      :', {k: v for k, v in u.items() if k != 'json'})
    print('json event  :', json.dumps(u.get('json')))
    print('read_message:', r['out'], 'Adj-RIB-In:', r['ribin'])
    br = oracle(u, r, body, bool(rp['asn4']))
    for b in br:
        print('BREACH      :', b['where'] + ': ' + b['what'])
    s.close()
    return 1 if br else 0
