"""C20 — Healthcheck rise/fall hysteresis.

Correspondence: the REAL `healthcheck.main()` → `parse()` → `loop(options)` on a real argv, with a
scripted check / disable file / exit event (harness/healthrig.py), against the compiled Lean model
M-Health (`drv_health`), iteration by iteration and line by line.

Oracle (independent of the model): every line the real helper wrote is handed to the REAL daemon
side (`API.process` = dispatch_v6 + peer selector + the static route parser); the daemon must accept
it, select exactly the configured neighbors and understand exactly the route the options ask for in
some state; on the resulting stream of announcements the hysteresis rules and the exit withdrawal
are checked against the scripted results.
"""

from __future__ import annotations

import collections
import copy
import ipaddress
import json
from typing import Any

from harness import common
from harness.common import Ctx, Disagreement, Failure
from harness import healthrig as R

THEOREM_MODULES = ['ExaModel.Props.C20']
DRIVERS = ['drv_health']
TABLES = ['health', 'pyhealth']
PROP = 'C20'
ASSUMPTIONS = [
    'option VALUES are ones the daemon can express: metrics (+ k*increase), local preference and path id within 0..2^32-1, communities / as-path well formed with 2-byte AS numbers (4-byte AS numbers in as-path are finding F23 of C18), next hop of the family of the advertised ips',
    'every --neighbor names a peer the daemon has (a selector matching no peer falls back to all peers in the daemon: finding F21 of C14)',
    '--interval 0 is the documented one-shot mode (ends with END, routes are left): "withdraws on exit" is claimed for interval != 0',
    'exit = KeyboardInterrupt inside time.sleep or SIGTERM (handler) at any point; a KeyboardInterrupt delivered while the check command runs is not caught by the helper at all (noted, not part of the script alphabet)',
    'ASCII option strings; --deaggregate-networks, --config file reading, ip address setup, privileges and logging are not modelled',
    '"syntactically valid API command" is decided by running the real daemon-side API.process on every written line, not by a Lean theorem',
]
TRUSTED_EXTRA = ['harness/healthrig.py substitutes check/sleep/exists/signal/stdout/stdin in the healthcheck module namespace; the daemon side is the real API.process over a mock reactor']

V4_IPS = ['192.0.2.1/32', '192.0.2.2/32', '198.51.100.0/24', '203.0.113.7/32', '192.0.2.128/25']
V6_IPS = ['2001:db8::1/128', '2001:db8:1::/64', '2001:db8:2::2/128']
V4_NBR = ['10.0.0.1', '10.0.0.2', '10.0.0.30']
V6_NBR = ['2001:db8:ffff::2']
EXTRA_PEERS = ['10.77.0.1', '2001:db8:ffff::77']
COMMUNITIES = ['65000:1', '65000:1 65000:2', 'no-export', '64512:100 65000:2', '65000:1  65000:2']
DIS_COMMUNITIES = ['65000:666', '65000:666 no-export']
EXT_COMMUNITIES = ['target:65000:1', 'target:65000:1 target:65001:2']
LARGE_COMMUNITIES = ['65000:1:2', '65000:1:2 65000:3:4']
AS_PATHS = ['65000', '65000 65001', '64512 64513 64514']
U32 = 4294967295

DEFAULTS: dict[str, Any] = {
    'rise': 3, 'fall': 3, 'disable': False, 'debounce': False, 'wod': False, 'interval0': False, 'no_ack': False, 'tty': False,
    'ip_dynamic': False, 'ip_setup': False, 'ips': ['192.0.2.1/32'], 'next_hop': None, 'up': 100, 'down': 1000, 'disabled': 500,
    'increase': 1, 'lp': -1, 'community': None, 'disabled_community': None, 'ext': None, 'large': None, 'as_path': None,
    'up_as_path': None, 'down_as_path': None, 'disabled_as_path': None, 'path_id': None, 'neighbors': None, 'start_ip': 0,
}  # fmt: skip


def argv_of(o: dict) -> list[str]:
    a = ['--fast-interval', str(R.FAST), '--interval', '0' if o['interval0'] else str(R.SLOW), '--command', 'chk', '--execute', 'X']
    a += ['--rise', str(o['rise']), '--fall', str(o['fall'])]
    if o['disable']:
        a += ['--disable', R.DISABLE_PATH]
    for flag, key in (('--debounce', 'debounce'), ('--withdraw-on-down', 'wod'), ('--no-ack', 'no_ack'), ('--dynamic-ip-setup', 'ip_dynamic')):
        if o[key]:
            a.append(flag)
    if not o['ip_setup']:
        a.append('--no-ip-setup')
    for ip in o['ips']:
        a += ['--ip', ip]
    if o['next_hop'] is not None:
        a += ['--next-hop', o['next_hop']]
    a += ['--up-metric', str(o['up']), '--down-metric', str(o['down']), '--disabled-metric', str(o['disabled']), '--increase', str(o['increase'])]
    if o['lp'] != -1:
        a += ['--local-preference', str(o['lp'])]
    for flag, key in (
        ('--community', 'community'), ('--disabled-community', 'disabled_community'), ('--extended-community', 'ext'),
        ('--large-community', 'large'), ('--as-path', 'as_path'), ('--up-as-path', 'up_as_path'), ('--down-as-path', 'down_as_path'),
        ('--disabled-as-path', 'disabled_as_path'),
    ):  # fmt: skip
        if o[key] is not None:
            a.append(f'{flag}={o[key]}')
    if o['path_id'] is not None:
        a += ['--path-id', str(o['path_id'])]
    for n in o['neighbors'] or []:
        a += ['--neighbor', n]
    if o['start_ip']:
        a.append(f'--start-ip={o["start_ip"]}')
    return a


# ---------------------------------------------------------------------------------------------
# generators


def gen_opts(rng: Any) -> dict:
    o = copy.deepcopy(DEFAULTS)
    o['rise'] = rng.choice([1, 1, 2, 2, 2, 3, 3, 4, 5, 0, -1])
    o['fall'] = rng.choice([1, 1, 2, 2, 2, 3, 3, 4, 5, 0, -2])
    o['disable'] = rng.random() < 0.6
    o['debounce'] = rng.random() < 0.4
    o['wod'] = rng.random() < 0.4
    o['interval0'] = rng.random() < 0.08
    o['no_ack'] = rng.random() < 0.25
    o['tty'] = rng.random() < 0.15
    o['ip_dynamic'] = rng.random() < 0.2
    o['ip_setup'] = rng.random() < 0.2
    fam = rng.choice(['4', '4', '6', 'mixed'])
    pool = V4_IPS if fam == '4' else V6_IPS if fam == '6' else V4_IPS + V6_IPS
    n = rng.choice([1, 1, 2, 2, 3, 4])
    o['ips'] = rng.sample(pool, min(n, len(pool)))
    if rng.random() < 0.05:
        o['ips'].append(o['ips'][0])  # the same ip twice
    if fam == '4' and rng.random() < 0.5:
        o['next_hop'] = rng.choice(['10.9.9.9', '192.0.2.254'])
    elif fam == '6' and rng.random() < 0.5:
        o['next_hop'] = '2001:db8:ffff::1'
    nips = len(o['ips'])
    o['increase'] = rng.choice([1, 1, 0, 10, 1000])
    top = U32 - o['increase'] * (nips - 1)
    o['up'] = rng.choice([100, 100, 0, 1, top, 50])
    o['down'] = rng.choice([1000, 1000, top, 0, 100, 50])  # may coincide with up: indistinguishable states
    o['disabled'] = rng.choice([500, 500, 1000, 0, top])
    o['lp'] = rng.choice([-1, -1, -1, 0, 100, U32])
    if rng.random() < 0.5:
        o['community'] = rng.choice(COMMUNITIES + [''])
    if rng.random() < 0.3:
        o['disabled_community'] = rng.choice(DIS_COMMUNITIES + [''])
    if rng.random() < 0.25:
        o['ext'] = rng.choice(EXT_COMMUNITIES)
    if rng.random() < 0.25:
        o['large'] = rng.choice(LARGE_COMMUNITIES)
    if rng.random() < 0.35:
        o['as_path'] = rng.choice(AS_PATHS)
    for k in ('up_as_path', 'down_as_path', 'disabled_as_path'):
        if rng.random() < 0.2:
            o[k] = rng.choice(AS_PATHS + [''])
    if rng.random() < 0.3:
        o['path_id'] = rng.choice([1, 7, U32, 0])
    x = rng.random()
    nbrs = V4_NBR + V6_NBR
    if x < 0.35:
        o['neighbors'] = None
    elif x < 0.45:
        o['neighbors'] = ['*']
    elif x < 0.80:
        o['neighbors'] = [rng.choice(nbrs)]
    elif x < 0.93:
        o['neighbors'] = rng.sample(nbrs, rng.choice([2, 2, 3]))
    else:
        o['neighbors'] = [rng.choice(nbrs), '*']
    if rng.random() < 0.2:
        o['start_ip'] = rng.choice([1, 2, -1, 5, nips])
    return o


def gen_inputs(rng: Any, o: dict, maxlen: int) -> list[list[int]]:
    """Streaks of equal results with lengths around rise / fall, disable-file episodes in between."""
    out: list[list[int]] = []
    target = rng.randrange(1, maxlen)
    r, f = max(o['rise'], 1), max(o['fall'], 1)
    while len(out) < target:
        x = rng.random()
        if x < 0.15 and o['disable']:
            out += [[1, rng.randrange(2)] for _ in range(rng.choice([1, 1, 2, 3]))]
        elif x < 0.575:
            out += [[0, 1]] * rng.choice([1, 1, r - 1, r, r, r + 1, 2 * r])
        else:
            out += [[0, 0]] * rng.choice([1, 1, f - 1, f, f, f + 1, 2 * f])
        if not o['disable'] and rng.random() < 0.05:
            out.append([1, rng.randrange(2)])  # the file bit must be ignored without --disable
    return out[:maxlen]


def gen_exit(rng: Any, inputs: list) -> list:
    x = rng.random()
    if x < 0.40:
        return ['interrupt']
    if x < 0.65:
        return ['term-sleep']
    if x < 0.80:
        return ['term-check']
    return ['term-line', rng.randrange(1, 12)]


def gen_case(rng: Any, maxlen: int) -> dict:
    o = gen_opts(rng)
    inputs = gen_inputs(rng, o, maxlen)
    return {'opts': o, 'inputs': inputs, 'exit': gen_exit(rng, inputs)}


def boundary_cases() -> list[dict]:
    """Enumerated, not sampled: rise/fall in {-1,0,1,2,3} x the three switch shapes x both modes."""
    out = []
    for rise in (-1, 0, 1, 2, 3):
        for fall in (0, 1, 2, 3):
            for wod in (False, True):
                for deb in (False, True):
                    o = copy.deepcopy(DEFAULTS)
                    o.update(rise=rise, fall=fall, wod=wod, debounce=deb, disable=True, ips=['192.0.2.1/32', '2001:db8::1/128'])
                    r, f = max(rise, 1), max(fall, 1)
                    inputs = [[0, 1]] * (r - 1) + [[0, 0]] + [[0, 1]] * r + [[0, 0]] * (f - 1) + [[0, 1]] + [[0, 0]] * f + [[1, 0], [1, 1], [0, 0]] + [[0, 1]] * (r + 1)
                    out.append({'opts': o, 'inputs': inputs, 'exit': ['interrupt']})
    return out


# ---------------------------------------------------------------------------------------------
# model side


def model_script(case: dict, cfg: str) -> list[str]:
    lines = [cfg]
    lines += [f'health tick {int(i[0])} {int(i[1])}' for i in case['inputs']]
    lines.append('health exit')
    lines.append('health session ' + (','.join(f'{int(i[0])}{int(i[1])}' for i in case['inputs']) or '-'))
    return lines


def model_result(case: dict, out: list[str]) -> dict:
    n = len(case['inputs'])
    if out[0] != 'ok':
        return {'error': f'cfg answered {out[0]}'}
    ticks = []
    for o in out[1 : 1 + n]:
        kv = R.parse_kv(o)
        kv['lines'] = R.decode_lines(kv['lines'])
        ticks.append(kv)
    ex = R.parse_kv(out[1 + n])
    ex['lines'] = R.decode_lines(ex['lines'])
    se = R.parse_kv(out[2 + n])
    se['lines'] = R.decode_lines(se['lines'])
    return {'ticks': ticks, 'exit': ex, 'session': se, 'error': None}


def compare(case: dict, impl: dict, model: dict) -> str | None:
    """None when the real helper and the model agree on this case, else what differs."""
    if model.get('error'):
        return 'model: ' + model['error']
    if impl['how'] == 'abort':
        return f'implementation left the script: {impl["error"]}'
    if impl['protocol_errors']:
        return 'implementation protocol: ' + '; '.join(impl['protocol_errors'])
    if impl['logged']:
        return 'implementation logged an error: ' + impl['logged'][0][:200]
    groups = impl['groups']
    iters = int(model['session']['iters'])
    ex = case['exit']
    term_line = ex[0] == 'term-line'
    all_model = [ln for t in model['ticks'][:iters] for ln in t['lines']]
    cut = term_line and ex[1] <= len(all_model)
    if not cut:
        if len(groups) != iters:
            return f'iterations: impl {len(groups)} model {iters}'
    o = case['opts']
    written = 0
    for j, g in enumerate(groups):
        m = model['ticks'][j]
        f, k = case['inputs'][j]
        disabled = bool(o['disable'] and f)
        last_partial = cut and j == len(groups) - 1
        if (g['file'] is None) == bool(o['disable']):
            return f'iteration {j}: disable file looked at = {g["file"] is not None}, --disable = {o["disable"]}'
        if (g['ok'] is None) != disabled:
            return f'iteration {j}: check called = {g["ok"] is not None} while disabled = {disabled}'
        trig = [] if m['trig'] == '-' else [['X', m['trig']]]
        if g['exec'] != trig:
            return f'iteration {j}: trigger impl {g["exec"]} model {trig}'
        if last_partial:
            want = m['lines'][: ex[1] - written]
            if g['lines'] != want:
                return f'iteration {j} (cut by SIGTERM after line {ex[1]}): impl {g["lines"]} model {want}'
            continue
        if g['lines'] != m['lines']:
            return f'iteration {j}: lines impl {g["lines"]} model {m["lines"]}'
        written += len(g['lines'])
        if g['acks'] != int(m['acks']):
            return f'iteration {j}: acknowledgements read impl {g["acks"]} model {m["acks"]}'
        if (g['setup'], g['remove']) != (int(m['setup']), int(m['remove'])):
            return f'iteration {j}: ip setup/remove impl {(g["setup"], g["remove"])} model {(m["setup"], m["remove"])}'
        sleep = g['sleep'] if g['sleep'] is not None else 'end'
        if sleep != m['sleep']:
            return f'iteration {j}: sleep impl {sleep} model {m["sleep"]}'
        if m['unhandled'] != '0':
            return f'iteration {j}: the model took the ValueError branch'
    ended = o['interval0'] and iters >= 1 and model['ticks'][iters - 1]['sleep'] == 'end' and not cut
    if ended:
        if impl['fired'] or impl['how'] != 'returned':
            return f'--interval 0: impl fired={impl["fired"]} how={impl["how"]}, model ends with END'
        if impl['lines'] != model['session']['lines']:
            return f'session lines: impl {impl["lines"]} model {model["session"]["lines"]}'
        return None
    if not impl['fired']:
        return f'implementation ended without the exit event: how={impl["how"]} code={impl["code"]}'
    want_how = ('returned', None) if ex[0] == 'interrupt' else ('exit', 0)
    if (impl['how'], impl['code']) != want_how:
        return f'end of program: impl {(impl["how"], impl["code"])} expected {want_how}'
    e = impl['exit']
    if e['lines'] != model['exit']['lines']:
        return f'exit lines: impl {e["lines"]} model {model["exit"]["lines"]}'
    if e['remove'] != int(model['exit']['remove']) or e['acks'] != int(model['exit']['acks']):
        return f'exit remove/acks: impl {(e["remove"], e["acks"])} model {(model["exit"]["remove"], model["exit"]["acks"])}'
    want = (all_model[: ex[1]] + model['exit']['lines']) if cut else model['session']['lines']
    if impl['lines'] != want:
        return f'session lines: impl {impl["lines"]} model {want}'
    return None


# ---------------------------------------------------------------------------------------------
# the property oracle on the implementation's output


def expected(opt: Any, target: str, all_peers: list[str]) -> list[dict]:
    """What the options ask the daemon to hold / drop in a state, per ip — written from the
    helper's documentation (--help texts), not from the model."""
    ann = (target == 'UP') if (opt.withdraw_on_down or target == 'EXIT') else True
    metric = {'UP': opt.up_metric, 'DOWN': opt.down_metric, 'DISABLED': opt.disabled_metric}.get(target, 0)
    nbrs = [str(n) for n in (opt.neighbors or [])]
    peers = sorted(all_peers) if (not nbrs or '*' in nbrs) else sorted(set(nbrs))
    ips = list(opt.loop_ips if opt.loop_ips is not None else opt.ips)
    as_path = getattr(opt, f'{target.lower()}_as_path', None)
    if as_path is None:
        as_path = opt.as_path
    community = opt.community
    if target in ('DOWN', 'DISABLED') and opt.disabled_community:
        community = opt.disabled_community
    out = []
    for k, ip in enumerate(ips):
        d: dict = {
            'action': 'announce' if ann else 'withdraw',
            'peers': peers,
            'prefix': str(ip),
            'nexthop': str(opt.next_hop) if opt.next_hop else 'self',
            'pathid': opt.path_id if opt.path_id else None,
            'med': None, 'lp': None, 'community': None, 'extended': None, 'large': None, 'aspath': None, 'other': [],
        }  # fmt: skip
        if ann:
            d['med'] = metric + k * opt.increase
            d['lp'] = opt.local_preference if opt.local_preference >= 0 else None
            d['community'] = sorted(community.split()) if community else None
            d['extended'] = sorted(opt.extended_community.split()) if opt.extended_community else None
            d['large'] = sorted(opt.large_community.split()) if opt.large_community else None
            d['aspath'] = [int(x) for x in as_path.split()] if as_path else None
        out.append(d)
    return out


def selector_shape(line: str) -> str:
    """The selector of a written line with addresses abstracted (`peer A, peer A`)."""
    toks = line.split(' ')
    out = []
    for t in toks:
        if t in ('announce', 'withdraw'):
            break
        comma = t.endswith(',')
        core = t[:-1] if comma else t
        if core not in ('peer', '*', '[', ']', ','):
            core = 'A'
        out.append(core + (',' if comma else ''))
    return ' '.join(out)


class Oracle:
    def __init__(self) -> None:
        self.daemons: dict[tuple, R.Daemon] = {}

    def daemon(self, opt: Any) -> R.Daemon:
        nbrs = sorted({str(n) for n in (opt.neighbors or []) if str(n) != '*'})
        key = tuple(nbrs)
        if key not in self.daemons:
            if len(self.daemons) > 64:
                self.daemons.clear()
            self.daemons[key] = R.Daemon(nbrs + [p for p in EXTRA_PEERS if p not in nbrs])
        return self.daemons[key]

    def judge(self, case: dict, impl: dict, opt: Any) -> list[dict]:
        """Failures of the property on one execution of the real helper: list of {kind, what, …}."""
        fails: list[dict] = []
        if impl['how'] == 'argparse':
            if impl['lines']:
                fails.append({'kind': 'health-exit', 'what': 'lines written although the command line was refused'})
            return fails
        o = case['opts']
        d = self.daemon(opt)
        sigs = {t: expected(opt, t, d.addresses) for t in ('UP', 'DOWN', 'DISABLED', 'EXIT')}
        rise, fall = max(opt.rise, 1), max(opt.fall, 1)
        results = []  # 'D' disabled, 'G' success, 'B' failure per executed iteration
        announced: list[str] | None = None
        bad_line_reported = False

        def understood(lines: list[str]) -> list[dict] | None:
            """What the daemon made of a group of lines (None if it refused any)."""
            nonlocal bad_line_reported
            obs = []
            ok = True
            for ln in lines:
                r = d.submit(ln)
                if not r['accepted'] or len(r['applied']) != 1:
                    ok = False
                    if not bad_line_reported:
                        bad_line_reported = True
                        fails.append({'kind': 'health-line', 'what': f'the daemon refuses the line {ln!r}: {r["reason"]}', 'line': ln, 'reason': r['reason']})
                else:
                    obs.append(r['applied'][0])
            return obs if ok else None

        for j, g in enumerate(impl['groups']):
            f, k = case['inputs'][j]
            res = 'D' if (o['disable'] and f) else ('G' if k else 'B')
            results.append(res)
            if not g['lines']:
                continue
            obs = understood(g['lines'])
            complete = g['sleep'] is not None or (o['interval0'] and not impl['fired'])
            if obs is not None and complete:
                targets = [t for t in ('UP', 'DOWN', 'DISABLED') if sigs[t] == obs]
                if not targets and not bad_line_reported:
                    bad_line_reported = True
                    field = diff_fields(obs, sigs)
                    fails.append({'kind': 'health-line', 'what': f'iteration {j}: the lines {g["lines"]} are understood by the daemon as {obs}, which is what the options ask for in no state ({field})', 'line': g['lines'][0], 'reason': 'fields:' + field})
            else:
                targets = []
            if complete and g['lines'] != announced:
                # the announcement changes at this iteration: which cause allows it?
                up_ok = len(results) >= rise and all(x == 'G' for x in results[-rise:])
                down_ok = len(results) >= fall and all(x == 'B' for x in results[-fall:])
                dis_ok = res == 'D'
                if targets:
                    allowed = ('UP' in targets and up_ok) or ('DOWN' in targets and down_ok) or ('DISABLED' in targets and dis_ok)
                else:  # lines the daemon could not classify: the state-agnostic form of the rule
                    allowed = up_ok or down_ok or dis_ok
                if not allowed:
                    fails.append({'kind': 'health-hysteresis', 'what': f'iteration {j}: announcement changes to {targets or "?"} ({g["lines"][0]!r} …) after results {"".join(results[-max(rise, fall) - 1:])} with rise={opt.rise} fall={opt.fall}'})
                if opt.rise > 1 and opt.fall > 1 and res != 'D' and len(results) >= 2 and results[-2] != res:
                    fails.append({'kind': 'health-hysteresis', 'what': f'iteration {j}: announcement changed on a single contrary result ({results[-2]} then {res})'})
            if complete:
                announced = g['lines']
        if impl['fired'] and not o['interval0']:
            e = impl['exit']
            for ip in opt.ips:
                if not any(f' withdraw route {ip} ' in ln + ' ' for ln in e['lines']):
                    fails.append({'kind': 'health-exit', 'what': f'exit: no withdraw written for {ip}: {e["lines"]}'})
                    break
            obs = understood(e['lines'])
            if obs is not None and obs != sigs['EXIT'] and len(e['lines']) == len(opt.ips):
                fails.append({'kind': 'health-exit', 'what': f'exit: the daemon understands {obs}, expected {sigs["EXIT"]}'})
        return fails


def diff_fields(obs: list[dict], sigs: dict) -> str:
    best = None
    for t in ('UP', 'DOWN', 'DISABLED'):
        exp = sigs[t]
        if len(exp) != len(obs):
            cand = ['count']
        else:
            cand = sorted({k for a, b in zip(obs, exp) for k in b if a.get(k) != b[k]})
        if best is None or len(cand) < len(best):
            best = cand
    return ','.join(best or [])


# ---------------------------------------------------------------------------------------------
# shrinking


def ddmin(items: list, bad: Any) -> list:
    cur = list(items)
    n = 2
    while len(cur) >= 2:
        chunk = max(1, len(cur) // n)
        reduced = False
        for i in range(0, len(cur), chunk):
            cand = cur[:i] + cur[i + chunk :]
            if bad(cand):
                cur, n, reduced = cand, max(n - 1, 2), True
                break
        if not reduced:
            if chunk == 1:
                break
            n = min(n * 2, len(cur))
    return cur


def shrink_case(case: dict, bad: Any) -> dict:
    """Smaller case on which predicate `bad(case)` still holds: fewer iterations, default options."""
    cur = copy.deepcopy(case)

    def with_(**kw: Any) -> dict:
        c = copy.deepcopy(cur)
        for k, v in kw.items():
            if k in ('inputs', 'exit'):
                c[k] = v
            else:
                c['opts'][k] = v
        return c

    if cur['exit'] != ['interrupt'] and bad(with_(exit=['interrupt'])):
        cur['exit'] = ['interrupt']
    # the two smallest scripts that write something: one success / one failure with rise = fall = 1
    for first in ([0, 1], [0, 0]):
        cand = with_(rise=1, fall=1, disable=False, inputs=[first])
        if bad(cand):
            cur = cand
            break
    cur['inputs'] = ddmin(cur['inputs'], lambda ins: bool(ins) and bad(with_(inputs=ins)))
    for k, v in DEFAULTS.items():
        if k in ('ips', 'neighbors') or cur['opts'][k] == v:
            continue
        if bad(with_(**{k: v})):
            cur['opts'][k] = v
    for k in ('ips', 'neighbors'):
        lst = cur['opts'][k]
        if lst and len(lst) > 1:
            small = ddmin(lst, lambda xs: bool(xs) and bad(with_(**{k: xs})))
            cur['opts'][k] = small
        if k == 'neighbors' and cur['opts'][k] and bad(with_(neighbors=None)):
            cur['opts'][k] = None
    cur['inputs'] = ddmin(cur['inputs'], lambda ins: bool(ins) and bad(with_(inputs=ins)))
    return cur


# ---------------------------------------------------------------------------------------------
# running cases


def run_case_impl(case: dict) -> tuple[dict, Any]:
    return R.run_impl(argv_of(case['opts']), case['inputs'], case['exit'], case['opts']['tty'])


def run_case_model(case: dict, opt: Any) -> dict:
    script = model_script(case, R.cfg_line(opt, case['opts']['tty']))
    return model_result(case, common.run_driver('drv_health', script))


def disagrees(case: dict) -> str | None:
    impl, opt = run_case_impl(case)
    if impl['how'] == 'argparse':
        return None
    return compare(case, impl, run_case_model(case, opt))


def canon_failure(case: dict, fail: dict, oracle: Oracle) -> tuple[Any, dict]:
    """(canonical form, shrunk case) of an oracle failure."""

    def still(c: dict) -> bool:
        impl, opt = run_case_impl(c)
        return any(f['kind'] == fail['kind'] and f.get('reason', '').split(':')[0] == fail.get('reason', '').split(':')[0] for f in oracle.judge(c, impl, opt))

    small = shrink_case(case, still)
    impl, opt = run_case_impl(small)
    again = [f for f in oracle.judge(small, impl, opt) if f['kind'] == fail['kind']]
    f2 = again[0] if again else fail
    if fail['kind'] == 'health-line':
        nondefault = sorted(k for k, v in small['opts'].items() if v != DEFAULTS[k] and k not in ('ips', 'rise', 'fall'))
        canon = {'selector': selector_shape(f2['line']), 'reason': f2['reason'], 'options': nondefault}
    else:
        canon = {'rise': small['opts']['rise'], 'fall': small['opts']['fall'], 'results': ''.join('D' if (small['opts']['disable'] and i[0]) else 'G' if i[1] else 'B' for i in small['inputs']),
                 'options': sorted(k for k, v in small['opts'].items() if v != DEFAULTS[k] and k not in ('ips', 'rise', 'fall')), 'exit': small['exit'][0]}  # fmt: skip
    small['what'] = f2['what']
    return canon, small


def load_corpus() -> list[dict]:
    d = common.VERIF / 'corpus' / PROP
    cases = []
    for f in sorted(d.glob('*.json')) if d.exists() else []:
        c = json.loads(f.read_text())
        o = copy.deepcopy(DEFAULTS)
        o.update(c.get('opts', {}))
        cases.append({'opts': o, 'inputs': c['inputs'], 'exit': c.get('exit', ['interrupt'])})
    return cases


def refused_cases() -> list[dict]:
    """The malformed stream on the option side: values argparse must refuse (nothing may be written)."""
    out = []
    for k, v in (('community', '65000:1\npeer * announce route 10.0.0.0/8 next-hop self'), ('as_path', '65000\r65001'), ('ext', 'target:1:2\x00'), ('large', '1:2:3\x7f')):
        o = copy.deepcopy(DEFAULTS)
        o[k] = v
        out.append({'opts': o, 'inputs': [[0, 1]] * 3, 'exit': ['interrupt']})
    return out


def run(ctx: Ctx) -> None:
    rng = ctx.rng
    quick = ctx.tier == 'quick'
    ncases = 2500 if quick else 40000
    maxlen = 40 if quick else 120
    ctx.rule = (
        'a case = (argv of the helper, scripted check results and disable-file states per iteration, exit event); '
        'non-trivial when the real helper changed its announcement at least once after the first one (a switch up/down/disabled happened) '
        'and was ended by an exit event; distinct = distinct (model configuration line, inputs, exit)'
    )
    cases = [(c, 'corpus') for c in load_corpus()] + [(c, 'boundary') for c in boundary_cases()] + [(c, 'refused') for c in refused_cases()]
    for _ in range(ncases):
        cases.append((gen_case(rng, maxlen), 'random'))
    oracle = Oracle()
    seen_fail: set = set()
    shrinks = [0]
    batch: list[tuple[dict, dict, Any, str]] = []

    def flush() -> None:
        if not batch or not ctx.driver_ok:
            batch.clear()
            return
        script: list[str] = []
        spans = []
        for case, impl, opt, _ in batch:
            s = model_script(case, R.cfg_line(opt, case['opts']['tty']))
            spans.append((len(script), len(s)))
            script += s
        out = common.run_driver('drv_health', script)
        for (case, impl, opt, origin), (a, n) in zip(batch, spans):
            model = model_result(case, out[a : a + n])
            diff = compare(case, impl, model)
            if diff:
                ctx.count('disagreement')
                if len(ctx.disagreements) < 3:
                    small = shrink_case(case, lambda c: disagrees(c) is not None)
                    ctx.disagreements.append(Disagreement('health', small, None, disagrees(small) or diff))
                else:
                    ctx.disagreements.append(Disagreement('health', case, None, diff))
        batch.clear()

    for case, origin in cases:
        if ctx.time_left() < 5:
            ctx.notes.append(f'budget reached after {ctx.evaluations} cases')
            break
        impl, opt = run_case_impl(case)
        ctx.evaluations += 1
        o = case['opts']
        ctx.count('origin:' + origin)
        ctx.count('exit:' + case['exit'][0])
        ctx.count(f'rise:{o["rise"]}')
        ctx.count(f'fall:{o["fall"]}')
        ctx.count('len:%d-%d' % (len(case['inputs']) // 10 * 10, len(case['inputs']) // 10 * 10 + 9))
        ctx.count('neighbors:' + ('none' if not o['neighbors'] else 'star' if '*' in o['neighbors'] else str(len(o['neighbors']))))
        for k in ('debounce', 'wod', 'disable', 'interval0', 'no_ack', 'tty'):
            if o[k]:
                ctx.count('opt:' + k)
        ctx.count(f'ips:{len(o["ips"])}')
        if impl['how'] == 'argparse':
            ctx.count('argparse-refused')
        else:
            kinds = []
            for g in impl['groups']:
                if g['lines'] and (not kinds or kinds[-1] != g['lines']):
                    kinds.append(g['lines'])
            ctx.count('switches:' + str(min(max(len(kinds) - 1, 0), 5)) + ('+' if len(kinds) > 6 else ''))
            if len(kinds) >= 2 and impl['fired']:
                ctx.nontrivial([R.cfg_line(opt, o['tty']), case['inputs'], case['exit']])
            if len(kinds) >= 2:
                ctx.sample({'argv': argv_of(o), 'results': ''.join('D' if (o['disable'] and i[0]) else 'G' if i[1] else 'B' for i in case['inputs']), 'exit': case['exit'],
                            'written': [g['lines'][0] if g['lines'] else '' for g in impl['groups']][:12], 'exit_lines': (impl['exit'] or {}).get('lines')}, cap=3)  # fmt: skip
            batch.append((case, impl, opt, origin))
            if len(batch) >= 100:
                flush()
        for fail in oracle.judge(case, impl, opt):
            ctx.count('oracle-fail:' + fail['kind'])
            if len(seen_fail) >= 12 or shrinks[0] >= 20:
                continue
            shrinks[0] += 1
            canon, small = canon_failure(case, fail, oracle)
            key = json.dumps([fail['kind'], canon], sort_keys=True)
            if key in seen_fail:
                continue
            seen_fail.add(key)
            ctx.failures.append(Failure(fail['kind'], canon, {'opts': small['opts'], 'inputs': small['inputs'], 'exit': small['exit'], 'argv': argv_of(small['opts'])}, small.get('what', fail['what'])))
    flush()


def replay(path: str) -> int:
    data = json.loads(open(path).read())
    rp = data['replay']
    o = copy.deepcopy(DEFAULTS)
    o.update(rp['opts'])
    case = {'opts': o, 'inputs': rp['inputs'], 'exit': rp.get('exit', ['interrupt'])}
    impl, opt = run_case_impl(case)
    print('argv   :', ' '.join(argv_of(o)))
    print('results:', case['inputs'], 'exit', case['exit'])
    for j, g in enumerate(impl['groups']):
        print(f'  iteration {j}: file={g["file"]} check={g["ok"]} trigger={g["exec"]} sleep={g["sleep"]}')
        for ln in g['lines']:
            print('      ', ln)
    if impl['exit']:
        print('  exit:')
        for ln in impl['exit']['lines']:
            print('      ', ln)
    fails = Oracle().judge(case, impl, opt)
    for f in fails:
        print('FAILS  :', f['kind'], '-', f['what'])
    print('holds  :', not fails)
    return 1 if fails else 0
