"""C03 — no peer input can crash or wedge the speaker.

Every message type x session shape x three streams (reference-encoded valid messages incl. extreme shapes,
single-point corruptions, random bytes / TLV soup) through the REAL `Message.unpack` with every lazy part
forced, and through the REAL `Protocol.read_message` (+ the peer loop's UPDATE / ROUTE-REFRESH handlers).
UPDATE bodies are also decoded by the Lean RFC reference decoder (`drv_wire decode`).

Oracle (independent of any model of ExaBGP):
  * the implementation raised something that is not a `Notify`            (`raised`, `recursion`, `timeout`)
  * it refused with a NOTIFICATION whose (code, subcode) is not in the defined table
  * it refused a message that is valid per the RFCs (reference accepts it / valid by construction)
  * it needed more than `BUDGET_C * size + BUDGET_D` function calls, or a size family is super-linear
"""

from __future__ import annotations

import json
import time
import traceback
from typing import Any, Iterator

from harness import common
from harness import totalrig as T
from harness.common import Ctx, Disagreement, Failure
from harness.tables.notifycodes import defined_codes

THEOREM_MODULES = ['ExaModel.Props.C03']
DRIVERS = ['drv_wire']
TABLES = ['notifycodes']
ASSUMPTIONS = [
    'the reference decoder M-Wire (Lean, written from the RFC layouts) is the reading of "valid per the RFCs" for UPDATE bodies of the IP families; for the other message types validity is by construction of the generator (RFC 4271 4.2/4.4/4.5, RFC 5492, RFC 9072, RFC 2918/7313)',
    'work is measured as Python+C function calls (sys.setprofile); byte copies made by slicing are not counted',
    'a received message reaches the decoders only through Protocol.read_message (framing and the per-type length rule are C06)',
]
TRUSTED_EXTRA = ['harness/totalrig.py forces the lazy parts a real session forces (API encoders, Negotiated.received/validate, RIB handlers)']

# step budget of the oracle (calls <= C*size + D), calibrated on the unchanged tree with a 3x margin:
# the most expensive valid shape (one-byte NLRIs through four API encoders) costs ~130 calls per byte
BUDGET_C = 400
BUDGET_D = 20000

KNOWN_REF = [1, 2, 3, 4, 5, 6, 7, 8, 9, 10, 14, 15, 16, 17, 18, 32]


# ---------------------------------------------------------------------------------------------
# byte builders (harness side; RFC 4271 4.3 layouts)


def u16(n: int) -> bytes:
    return (n & 0xFFFF).to_bytes(2, 'big')


def u32(n: int) -> bytes:
    return (n & 0xFFFFFFFF).to_bytes(4, 'big')


def attr(flags: int, code: int, value: bytes, ext: bool | None = None) -> bytes:
    if ext is None:
        ext = len(value) > 255
    if ext:
        return bytes([flags | 0x10, code]) + u16(len(value)) + value
    return bytes([flags & 0xEF, code, len(value)]) + value


def update(attrs: bytes = b'', nlri: bytes = b'', wd: bytes = b'') -> bytes:
    return u16(len(wd)) + wd + u16(len(attrs)) + attrs + nlri


def v4nlri(i: int, plen: int = 24, pid: int | None = None) -> bytes:
    addr = bytes([10 + ((i >> 16) & 0x7F), (i >> 8) & 255, i & 255, 0])
    return (u32(pid) if pid is not None else b'') + bytes([plen]) + addr[: (plen + 7) // 8]


def base_attrs(sh: T.Shape, aspath: bytes | None = None) -> bytes:
    w = 4 if sh.asn4 else 2
    ap = aspath if aspath is not None else bytes([2, 1]) + (65001).to_bytes(w, 'big')
    return attr(0x40, 1, b'\x00') + attr(0x40, 2, ap) + attr(0x40, 3, bytes([10, 0, 0, 1]))


def pid_for(sh: T.Shape, afi: int, safi: int, rng: Any) -> int | None:
    return rng.randrange(1 << 32) if f'{afi}.{safi}' in sh.params.split()[1].split('+') else None


# ---------------------------------------------------------------------------------------------
# cases


class Case:
    __slots__ = ('ty', 'body', 'stream', 'label', 'valid', 'n')

    def __init__(self, ty: int, body: bytes, stream: str, label: str, valid: bool | None = None, n: int = 0) -> None:
        self.ty, self.body, self.stream, self.label, self.valid, self.n = ty, bytes(body), stream, label, valid, n


def unregistered_codes() -> list[int]:
    from exabgp.bgp.message.update.attribute import Attribute

    reg = {int(k[0]) if isinstance(k, tuple) else int(k) for k in Attribute.registered_attributes}
    return [c for c in range(1, 255) if c not in reg and c not in KNOWN_REF]


def registered_codes() -> list[int]:
    from exabgp.bgp.message.update.attribute import Attribute

    return sorted({int(k[0]) if isinstance(k, tuple) else int(k) for k in Attribute.registered_attributes})


# ---- stream A: valid UPDATEs, extreme shapes (built directly; the reference confirms validity) -------------


def extreme_updates(sh: T.Shape, tier: str) -> Iterator[Case]:
    room = sh.msg_size - 19 - 4
    unk = unregistered_codes()
    w = 4 if sh.asn4 else 2
    pid = 7 if '1.1' in sh.params.split()[1].split('+') else None
    one = v4nlri(1, 24, pid)
    # n zero-length unknown optional attributes. Distinct codes: valid per RFC 4271. Beyond the number of
    # codes the list repeats codes: RFC 4271 6.3 calls that malformed, RFC 7606 3.g says "discard all but the
    # first and continue" — either way a decoder must answer, not blow the stack (F7).
    sizes = [0, 1, 10, 100, len(unk), 500, 900, 1000, 1200, room // 3]
    if tier == 'thorough':
        sizes += [2000, 5000, 20000]
    for n in sorted(set(x for x in sizes if 3 * x <= room)):
        body = update(b''.join(attr(0x80, unk[i % len(unk)], b'') for i in range(n)))
        yield Case(2, body, 'valid-extreme', 'unknown-optional-attrs', True if n <= len(unk) else None, n)
    for n in [len(unk), 1200]:
        if 6 * n <= room:
            body = update(b''.join(attr(0xC0, unk[i % len(unk)], bytes([i & 255, 1, 2])) for i in range(n)))
            yield Case(2, body, 'valid-extreme', 'unknown-transitive-attrs', True if n <= len(unk) else None, n)
    # AS_PATH: one segment of 255 ASNs; many segments; several 255-AS segments
    for label, segs in [('aspath-255', [(2, 255)]), ('aspath-many-1', [(2, 1)] * min(1000, (room - 40) // (2 + w))), ('aspath-4x255', [(2, 255), (1, 255), (2, 255), (1, 255)])]:
        val = b''.join(bytes([t, c]) + b''.join((64512 + (i % 1000)).to_bytes(w, 'big') for i in range(c)) for t, c in segs)
        if len(val) + 30 <= room:
            yield Case(2, update(attr(0x40, 1, b'\x00') + attr(0x40, 2, val) + attr(0x40, 3, bytes([10, 0, 0, 1])), one), 'valid-extreme', label, True, len(segs))
    if tier == 'thorough' and sh.msg_size > 4096:
        k = (room - 40) // (2 + w)
        val = b''.join(bytes([2, 1]) + (64512 + (i % 1000)).to_bytes(w, 'big') for i in range(k))
        yield Case(2, update(attr(0x40, 1, b'\x00') + attr(0x50, 2, val) + attr(0x40, 3, bytes([10, 0, 0, 1])), one), 'valid-extreme', 'aspath-many-1', True, k)
    # AS_PATH + AS4_PATH with real 4-byte ASNs (F20 on a 2-byte session; ignored on a 4-byte session)
    as2 = bytes([2, 3]) + b''.join(x.to_bytes(w, 'big') for x in [65002, 23456, 3])
    as4 = bytes([2, 2]) + u32(70000) + u32(3)
    yield Case(2, update(attr(0x40, 1, b'\x00') + attr(0x40, 2, as2) + attr(0x40, 3, bytes([10, 0, 0, 1])) + attr(0xC0, 17, as4), one), 'valid-extreme', 'as4path-real-asn4', True, 2)
    as4s = bytes([2, 2]) + u32(65010) + u32(3)
    yield Case(2, update(attr(0x40, 1, b'\x00') + attr(0x40, 2, as2) + attr(0x40, 3, bytes([10, 0, 0, 1])) + attr(0xC0, 17, as4s), one), 'valid-extreme', 'as4path-small-asns', True, 2)
    yield Case(2, update(attr(0x40, 1, b'\x00') + attr(0x40, 2, as2) + attr(0x40, 3, bytes([10, 0, 0, 1])) + attr(0xC0, 17, as4) + attr(0xC0, 7 if False else 18, u32(70000) + bytes([10, 0, 0, 9])) + attr(0xC0, 7, (23456).to_bytes(w, 'big') + bytes([10, 0, 0, 9])), one), 'valid-extreme', 'as4path+as4aggregator', True, 2)
    # maximal NLRI / withdrawn counts
    ba = base_attrs(sh)
    per = len(v4nlri(0, 24, pid))
    for frac in (1, 4, 16):
        n = (room - len(ba)) // per // frac
        if n > 0 and (frac == 1 or tier == 'thorough' or sh.msg_size == 4096):
            if frac == 1 and sh.msg_size > 4096 and tier != 'thorough':
                continue
            yield Case(2, update(ba, b''.join(v4nlri(i, 24, pid) for i in range(n))), 'valid-extreme', 'max-nlri', True, n)
            yield Case(2, update(b'', b'', b''.join(v4nlri(i, 24, pid) for i in range(n))), 'valid-extreme', 'max-withdrawn', True, n)
    n0 = min(room - len(ba), 4000 if tier == 'quick' else 70000) // (1 + (4 if pid is not None else 0))
    yield Case(2, update(ba, b''.join(v4nlri(0, 0, pid) for _ in range(n0))), 'valid-extreme', 'max-nlri-slash0', True, n0)
    # big community lists
    for code, rec, flags, label in [(8, 4, 0xC0, 'communities'), (16, 8, 0xC0, 'ext-communities'), (32, 12, 0xC0, 'large-communities'), (10, 4, 0x80, 'cluster-list')]:
        n = min((room - len(ba) - 8 - per) // rec, 900 if tier == 'quick' else 70000)
        val = b''.join((i + 1).to_bytes(4, 'big') if rec == 4 else (bytes([0, 2]) + u16(64512) + u32(i)) if rec == 8 else u32(64512) + u32(i) + u32(1) for i in range(n))
        yield Case(2, update(ba + attr(flags, code, val), one), 'valid-extreme', 'many-' + label, True, n)
    # extended communities whose 8 bytes are anything at all are valid; some values are awkward to render
    for label, rec in [('extcomm-traffic-rate-nan', bytes.fromhex('800600007fc00000')), ('extcomm-traffic-rate-inf', bytes.fromhex('800600007f800000')), ('extcomm-traffic-rate-packets-neg-inf', bytes.fromhex('800c0000ff800000')), ('extcomm-all-ones', b'\xff' * 8), ('extcomm-zero', bytes(8))]:
        yield Case(2, update(ba + attr(0xC0, 16, rec), one), 'valid-extreme', label, True, 1)
    # MP_REACH / MP_UNREACH for IPv6 unicast with many routes
    if (2, 1) in sh.fams:
        p6 = 9 if '2.1' in sh.params.split()[1].split('+') else None
        per6 = 9 + (4 if p6 is not None else 0)
        n = min((room - 60) // per6, 400 if tier == 'quick' else 70000)
        nl = b''.join((u32(p6) if p6 is not None else b'') + bytes([64, 0x20, 1, 0x0D, 0xB8]) + u32(i) for i in range(n))
        nh = bytes([0x20, 1, 0x0D, 0xB8] + [0] * 11 + [1])
        mp = u16(2) + bytes([1, 16]) + nh + b'\x00' + nl
        yield Case(2, update(attr(0x40, 1, b'\x00') + attr(0x40, 2, bytes([2, 1]) + (65001).to_bytes(w, 'big')) + attr(0x80, 14, mp)), 'valid-extreme', 'mp-reach-v6-many', True, n)
        yield Case(2, update(attr(0x80, 15, u16(2) + bytes([1]) + nl)), 'valid-extreme', 'mp-unreach-v6-many', True, n)
        yield Case(2, update(attr(0x80, 15, u16(2) + bytes([1]))), 'valid-extreme', 'eor-v6', True, 0)
    yield Case(2, bytes(4), 'valid-extreme', 'eor-v4', True, 0)


def nexthop_matrix(sh: T.Shape) -> Iterator[Case]:
    """MP_REACH_NLRI of every negotiated family x every next-hop length a speaker may put there (RFC 4760 4/16/32,
    RFC 4364/4659 12/24/48 with the zero route distinguisher, RFC 5549/8950 16/32 and 24/48 for the IPv4 families,
    and the lengths in between) x an NLRI field that is empty / one labelled VPN prefix / one plain prefix:
    decoded or refused, whatever the validator and the lazy extraction behind it make of the length."""
    w = 4 if sh.asn4 else 2
    head = attr(0x40, 1, b'\x00') + attr(0x40, 2, bytes([2, 1]) + (65001).to_bytes(w, 'big'))
    v6 = bytes([0x20, 1, 0x0D, 0xB8] + [0] * 11 + [1])
    ll = bytes([0xFE, 0x80] + [0] * 13 + [1])
    nhs = {0: b'', 4: bytes([10, 0, 0, 1]), 8: bytes(4) + bytes([10, 0, 0, 1]), 12: bytes(8) + bytes([10, 0, 0, 1]), 16: v6, 20: bytes(4) + v6, 24: bytes(8) + v6, 32: v6 + ll, 36: bytes(4) + v6 + ll, 48: bytes(8) + v6 + bytes(8) + ll}
    nlris = {'empty': b'', 'vpn': bytes([112, 0, 1, 1]) + bytes([0, 0, 0xFD, 0xE8, 0, 0, 0, 1]) + bytes([10, 0, 0]), 'plain': bytes([24, 10, 0, 0]), 'labelled': bytes([48, 0, 1, 1, 10, 0, 0])}
    for afi, safi in sorted(sh.fams):
        for ln, nh in nhs.items():
            for nm, nl in nlris.items():
                mp = u16(afi) + bytes([safi, ln]) + nh + b'\x00' + nl
                yield Case(2, update(head + attr(0x80, 14, mp)), 'mp-nexthop', f'{afi}.{safi}/nh{ln}/{nm}', None)


# ---- stream A: valid UPDATEs, structured random (reference-ENCODED: `wire encode`) -------------------------


def _pfx(rng: Any, afi: int, clean: bool = True) -> tuple[int, str]:
    mx = 32 if afi == 1 else 128
    plen = rng.choice([0, 1, 7, 8, 9, 16, 24, 25, mx - 1, mx, rng.randrange(mx + 1)])
    nb = (plen + 7) // 8
    b = bytearray(rng.getrandbits(8) for _ in range(nb))
    if clean and nb and plen % 8:
        b[-1] &= (0xFF << (8 - plen % 8)) & 0xFF
    return plen, (b.hex() or '-')


def _sem_nlri(rng: Any, sh: T.Shape, afi: int, safi: int, wd: bool) -> str:
    ap = f'{afi}.{safi}' in sh.params.split()[1].split('+')
    pid = str(rng.choice([0, 1, 7, 0xFFFFFFFF, rng.randrange(1 << 32)])) if ap else '-'
    labels = '-'
    rd = '-'
    used = 0
    if safi in (4, 128):
        if wd and rng.random() < 0.5:
            labels = '-'  # the 0x800000 withdraw form
            used = 24
        else:
            # one label: RFC 8277 2.1 allows a stack only when the Multiple Labels capability was negotiated
            k = 1
            ls = [rng.choice([0, 3, 16, 100, 1048575, rng.randrange(1 << 20)]) for _ in range(k)]
            if wd and k > 1 and ls[0] == 524288:
                ls[0] = 100
            labels = ','.join(str(x) for x in ls)
            used = 24 * k
    if safi == 128:
        rd = (bytes([0, rng.choice([0, 1, 2])]) + bytes(rng.getrandbits(8) for _ in range(6))).hex()
        used += 64
    mx = 32 if afi == 1 else 128
    while True:
        plen, pfx = _pfx(rng, afi)
        if used + plen < 256 and plen <= mx:
            break
    return f'{pid}:{labels}:{rd}:{plen}:{pfx}'


def gen_sem(rng: Any, sh: T.Shape, unk: list[int]) -> tuple[str, str, str, str]:
    """(withdrawn, attributes, nlri, label) of a well-formed UPDATE for this session, as drv_wire SEM."""
    a4 = sh.asn4
    amax = (1 << 32) - 1 if a4 else 65535
    n_nlri = rng.choice([0, 0, 1, 1, 2, 5, 30])
    n_wd = rng.choice([0, 0, 0, 1, 3, 20])
    mp_fams = [f for f in [(2, 1), (1, 2), (2, 2), (1, 4), (2, 4), (1, 128), (2, 128)] if f in sh.fams]
    reach = rng.choice(mp_fams) if mp_fams and rng.random() < 0.45 else None
    unreach = rng.choice(mp_fams) if mp_fams and rng.random() < 0.3 else None

    def fl(opt: bool, tr: bool, size_hint: int = 0) -> str:
        part = opt and tr and rng.random() < 0.2
        ext = size_hint > 255 or rng.random() < 0.15
        return ''.join('1' if b else '0' for b in (opt, tr, part, ext))

    def asn() -> int:
        return rng.choice([1, 64512, 65535, 23456, amax, rng.randrange(1, amax + 1)])

    def segs(w4max: int) -> str:
        k = rng.choice([0, 1, 1, 2, 3, 6])
        out = []
        for _ in range(k):
            t = rng.choice([2, 2, 2, 1, 3, 4])
            c = rng.choice([1, 1, 2, 5, 20, 255])
            out.append(f'{t}:' + ','.join(str(rng.choice([1, 64512, 23456, w4max, rng.randrange(1, w4max + 1)])) for _ in range(c)))
        return '|'.join(out) or '-'

    attrs: list[str] = []
    need = n_nlri > 0 or reach is not None
    if need or rng.random() < 0.3:
        attrs.append(f'{fl(False, True)}~1~{rng.choice([0, 1, 2])}')
        sp = segs(amax)
        attrs.append(f'{fl(False, True, 1100 if sp.count(",") > 60 else 0)}~2~{sp}')
    if n_nlri > 0 or rng.random() < 0.2:
        attrs.append(f'{fl(False, True)}~3~{bytes([rng.choice([10, 192, 1]), rng.getrandbits(8), rng.getrandbits(8), rng.randrange(1, 255)]).hex()}')
    if rng.random() < 0.4:
        attrs.append(f'{fl(True, False)}~4~{rng.choice([0, 1, 100, (1 << 32) - 1])}')
    if rng.random() < 0.4:
        attrs.append(f'{fl(False, True)}~5~{rng.choice([0, 100, (1 << 32) - 1])}')
    if rng.random() < 0.15:
        attrs.append(f'{fl(False, True)}~6~-')
    if rng.random() < 0.2:
        attrs.append(f'{fl(True, True)}~7~{asn()}~0a000009')
    if rng.random() < 0.4:
        k = rng.choice([0, 1, 3, 30, 70])
        attrs.append(f'{fl(True, True, 4 * k)}~8~' + (','.join(str(rng.choice([0xFFFFFF01, 0xFFFFFF02, 65000 << 16 | 1, rng.randrange(1 << 32)])) for _ in range(k)) or '-'))
    if rng.random() < 0.15:
        attrs.append(f'{fl(True, False)}~9~0a0000fe')
    if rng.random() < 0.15:
        k = rng.choice([1, 2, 10])
        attrs.append(f'{fl(True, False)}~10~' + ','.join(str(rng.randrange(1 << 32)) for _ in range(k)))
    if rng.random() < 0.3:
        k = rng.choice([1, 2, 10, 40])
        recs = []
        for _ in range(k):
            kind = rng.choice([b'\x00\x02', b'\x00\x03', b'\x01\x02', b'\x02\x02', b'\x40\x04', b'\x80\x06', b'\x80\x07', b'\x80\x08', b'\x80\x09', bytes([rng.getrandbits(8), rng.getrandbits(8)])])
            recs.append((kind + bytes(rng.getrandbits(8) for _ in range(6))).hex())
        attrs.append(f'{fl(True, True, 8 * k)}~16~' + ','.join(recs))
    if not a4 and rng.random() < 0.35:
        attrs.append(f'{fl(True, True)}~17~{segs((1 << 32) - 1)}')
    if not a4 and rng.random() < 0.15:
        attrs.append(f'{fl(True, True)}~18~{rng.choice([70000, 65010, (1 << 32) - 1])}~0a000009')
    if rng.random() < 0.25:
        k = rng.choice([1, 2, 20])
        attrs.append(f'{fl(True, True, 12 * k)}~32~' + ','.join(f'{rng.randrange(1 << 32)}.{rng.randrange(1 << 32)}.{rng.randrange(1 << 32)}' for _ in range(k)))
    for c in rng.sample(unk, rng.choice([0, 0, 1, 3, 12])):
        tr = rng.random() < 0.5
        ln = rng.choice([0, 0, 1, 4, 40, 300])
        attrs.append(f'{fl(True, tr, ln)}~{c}~' + (bytes(rng.getrandbits(8) for _ in range(ln)).hex() or '-'))
    if reach is not None:
        afi, safi = reach
        base = b'\x00' * 8 if safi == 128 else b''
        if afi == 1:
            nh = base + bytes([10, 0, 0, rng.randrange(1, 255)])
        else:
            g = bytes([0x20, 1, 0x0D, 0xB8]) + bytes(rng.getrandbits(8) for _ in range(12))
            nh = base + g
            if rng.random() < 0.3:
                nh += base + bytes([0xFE, 0x80]) + bytes(6) + bytes(rng.getrandbits(8) for _ in range(8))
        k = rng.choice([1, 1, 2, 10])
        attrs.append(f'{fl(True, False, 40 * k)}~14~{afi}.{safi}~{nh.hex()}~' + '+'.join(_sem_nlri(rng, sh, afi, safi, False) for _ in range(k)))
    if unreach is not None:
        afi, safi = unreach
        k = rng.choice([0, 1, 2, 10])
        attrs.append(f'{fl(True, False, 40 * k)}~15~{afi}.{safi}~' + ('+'.join(_sem_nlri(rng, sh, afi, safi, True) for _ in range(k)) or '-'))
    rng.shuffle(attrs)
    w = '+'.join(_sem_nlri(rng, sh, 1, 1, True) for _ in range(n_wd)) or '-'
    n = '+'.join(_sem_nlri(rng, sh, 1, 1, False) for _ in range(n_nlri)) or '-'
    label = 'sem:' + ('n' if n_nlri else '') + ('w' if n_wd else '') + (f'+r{reach[0]}.{reach[1]}' if reach else '') + (f'+u{unreach[0]}.{unreach[1]}' if unreach else '')
    return w, ';'.join(attrs) or '-', n, label


def encoded_updates(rng: Any, sh: T.Shape, count: int) -> list[Case]:
    unk = unregistered_codes()
    sems = [gen_sem(rng, sh, unk) for _ in range(count)]
    hexes = common.run_driver('drv_wire', [f'wire encode {sh.params} {w} {a} {n}' for w, a, n, _ in sems])
    out = []
    for (w, a, n, label), hx in zip(sems, hexes):
        if hx == 'bad-op':
            raise common.Infra(f'drv_wire could not parse the generated SEM: {w} {a} {n}'[:400])
        body = bytes.fromhex(hx) if hx != '-' else b''
        if len(body) + 19 <= sh.msg_size:
            out.append(Case(2, body, 'valid-encoded', label, None))  # validity: the reference decides (dup codes, sizes)
    return out


# ---- other message types: valid by construction -----------------------------------------------------------


def cap(code: int, val: bytes) -> bytes:
    return bytes([code, len(val)]) + val


def open_body(asn: int, hold: int, rid: bytes, caps: list[bytes], layout: str) -> bytes | None:
    fixed = bytes([4]) + u16(asn) + u16(hold) + rid
    if layout == 'none':
        return fixed + b'\x00'
    if layout == 'one-param':
        blob = b''.join(caps)
        if len(blob) > 255:
            return None
        params = bytes([2, len(blob)]) + blob
    elif layout == 'param-per-cap':
        if any(len(c) > 255 for c in caps):
            return None
        params = b''.join(bytes([2, len(c)]) + c for c in caps)
    elif layout == 'rfc9072':
        blob = b''.join(caps)
        params = bytes([2]) + u16(len(blob)) + blob
        return fixed + bytes([255, 255]) + u16(len(params)) + params
    elif layout == 'rfc9072-per-cap':
        params = b''.join(bytes([2]) + u16(len(c)) + c for c in caps)
        return fixed + bytes([255, 255]) + u16(len(params)) + params
    else:
        raise ValueError(layout)
    if len(params) > 255:
        return None
    return fixed + bytes([len(params)]) + params


def valid_caps(rng: Any, many_unknown: int = 0) -> list[bytes]:
    from exabgp.bgp.message.open.capability import Capability

    known = {int(c) for c in Capability.registered_capability}
    caps = []
    for afi, safi in rng.sample([(1, 1), (2, 1), (1, 2), (1, 4), (1, 128), (2, 128), (1, 133), (2, 133), (25, 65), (25, 70), (1, 132), (16388, 71), (16388, 72), (1, 73), (1, 5), (2, 5), (1, 85), (2, 85), (99, 99)], rng.choice([1, 2, 4, 19])):
        caps.append(cap(1, u16(afi) + bytes([0, safi])))
    if rng.random() < 0.7:
        caps.append(cap(2, b''))
    if rng.random() < 0.3:
        caps.append(cap(128, b''))  # cisco route refresh
    if rng.random() < 0.5:
        caps.append(cap(70, b''))
    if rng.random() < 0.8:
        caps.append(cap(65, u32(rng.choice([65001, 70000, (1 << 32) - 1]))))
    if rng.random() < 0.5:
        caps.append(cap(6, b''))
    if rng.random() < 0.5:
        k = rng.choice([0, 1, 3, 10])
        caps.append(cap(64, u16((rng.choice([0, 8]) << 12) | rng.choice([0, 120, 4095])) + b''.join(u16(rng.choice([1, 2])) + bytes([rng.choice([1, 2, 128]), rng.choice([0, 0x80])]) for _ in range(k))))
    if rng.random() < 0.5:
        k = rng.choice([1, 2, 8])
        caps.append(cap(69, b''.join(u16(rng.choice([1, 2])) + bytes([rng.choice([1, 2, 4, 128]), rng.choice([1, 2, 3])]) for _ in range(k))))
    if rng.random() < 0.4:
        k = rng.choice([1, 4])
        caps.append(cap(5, b''.join(u16(1) + u16(rng.choice([1, 2, 4, 128])) + u16(2) for _ in range(k))))
    if rng.random() < 0.5:
        host = rng.choice([b'router1', b'', b'r' * 60, 'café'.encode(), b'a b\tc'])
        dom = rng.choice([b'example.net', b'', b'd' * 60])
        caps.append(cap(73, bytes([len(host)]) + host + bytes([len(dom)]) + dom))
    if rng.random() < 0.4:
        sw = rng.choice([b'ExaBGP/6.0', b'', b'v' * 64, 'versïon'.encode()])
        caps.append(cap(75, bytes([len(sw)]) + sw))
    if rng.random() < 0.2:
        caps.append(cap(77, b''))  # link-local next hop
    if rng.random() < 0.2:
        caps.append(cap(9, bytes([rng.choice([0, 1, 2, 3, 4])])))  # BGP role (RFC 9234): not registered here = unknown
    unknown_codes = [c for c in range(3, 255) if c not in known and c not in (9,)]
    for _ in range(many_unknown or rng.choice([0, 0, 1, 3])):
        c = rng.choice(unknown_codes)
        ln = rng.choice([0, 0, 1, 4, 20]) if many_unknown else rng.choice([0, 1, 4, 60, 255])
        caps.append(cap(c, bytes(rng.getrandbits(8) for _ in range(ln))))
    rng.shuffle(caps)
    return caps


def valid_opens(rng: Any, sh: T.Shape, count: int) -> list[Case]:
    out = []
    # real OPENs of the real code (every capability ExaBGP itself sends)
    from harness import sessions

    raw = bytes(sessions.open_of(sh.neighbor).pack_message(sh.neg))
    out.append(Case(1, raw[19:], 'valid', 'open:real', True))
    out.append(Case(1, bytes([4]) + u16(65001) + u16(180) + bytes([2, 2, 2, 2, 0]), 'valid', 'open:no-params', True))
    layouts = ['one-param', 'param-per-cap', 'rfc9072', 'rfc9072-per-cap', 'none']
    for i in range(count):
        big = rng.random() < 0.25
        caps = valid_caps(rng, many_unknown=rng.choice([40, 100, 300]) if big else 0)
        layout = rng.choice(layouts[2:4]) if big else rng.choice(layouts)
        asn = rng.choice([65001, 23456, 1, 65535])
        body = open_body(asn, rng.choice([0, 3, 90, 180, 65535]), bytes([rng.randrange(1, 255), rng.getrandbits(8), rng.getrandbits(8), rng.randrange(1, 255)]), caps, layout)
        if body is None:
            body = open_body(asn, 180, bytes([2, 2, 2, 2]), caps, 'rfc9072')
        if len(body) + 19 <= 4096:  # an OPEN is never longer than 4096 (RFC 8654 3)
            out.append(Case(1, body, 'valid', f'open:{layout}' + (':big' if big else ''), True, len(caps)))
    return out


def valid_others(rng: Any, sh: T.Shape, count: int) -> list[Case]:
    out = [Case(4, b'', 'valid', 'keepalive', True)]
    for _ in range(count):
        c = rng.choice([1, 2, 3, 4, 5, 6, 7, 0, 9, 255])
        s = rng.choice([0, 1, 2, 3, 4, 5, 6, 7, 8, 9, 10, 11, 255])
        kind = rng.choice(['none', 'ascii', 'bin', 'long'])
        data = {'none': b'', 'ascii': b'some text', 'bin': bytes(rng.getrandbits(8) for _ in range(rng.randrange(1, 30))), 'long': bytes(rng.getrandbits(8) for _ in range(rng.choice([200, 1000, sh.msg_size - 21])))}[kind]
        if (c, s) in ((6, 2), (6, 4)) or rng.random() < 0.3:
            c, s = rng.choice([(6, 2), (6, 4)])
            txt = rng.choice([b'', b'maintenance', 'arrêt'.encode(), b'\xff\xfe\x80', b'x' * 128, b'y' * 255, b'line\nfeed\r'])
            ln = rng.choice([len(txt), len(txt), 0, 200, 255]) & 255
            data = bytes([ln]) + txt + rng.choice([b'', b'trailer'])
            if rng.random() < 0.1:
                data = b''
        out.append(Case(3, bytes([c, s]) + data, 'valid', f'notification:{"shutdown" if (c, s) in ((6, 2), (6, 4)) else kind}', True))
    fams = sorted(sh.fams) + [(1, 1), (2, 1), (3, 1), (65535, 255), (0, 0), (25, 70)]
    for _ in range(max(4, count // 2)):
        afi, safi = rng.choice(fams)
        out.append(Case(5, u16(afi) + bytes([rng.choice([0, 0, 1, 2]), safi]), 'valid', 'refresh', True))
    # RFC 2918: the reserved octet is "ignored by the receiver"; RFC 7313 5: a subtype other than 0, 1, 2 => the
    # message MUST be ignored. Either way the message is not malformed and the session survives it.
    for res in (3, 7, 255):
        out.append(Case(5, u16(1) + bytes([res, 1]), 'valid', 'refresh:reserved-subtype', True, res))
    # OPERATIONAL (draft-ietf-idr-operational-message, type 6): TLV = type(2) length(2) value
    from exabgp.bgp.message.operational import Operational

    types = sorted(int(k) for k in Operational.registered_operational)
    for _ in range(count):
        t = rng.choice(types + [0, 99, 0xFFFF])
        payload = u16(rng.choice([1, 2])) + bytes([rng.choice([1, 2, 128])]) + bytes([1, 1, 1, 1]) + u32(rng.randrange(1 << 32)) + u32(rng.randrange(1 << 32)) + rng.choice([b'', b'advisory text', 'café'.encode(), b'\xff\xfe'])
        out.append(Case(6, u16(t) + u16(len(payload)) + payload, 'valid', 'operational', True, t))
    return out


def enumerated_non_update(rng: Any, sh: T.Shape, tier: str) -> list[Case]:
    """The lazy parts of the NON-UPDATE messages depend on a few header fields and on the shape of the data that
    follows: enumerate the fields, cross them with data shapes (instead of sampling both)."""
    out: list[Case] = []
    room = sh.msg_size - 19
    quick = tier == 'quick'
    # NOTIFICATION: every code 0-7 x subcode 0-12 (defined or not), + a few far ones
    pairs = [(c, s) for c in range(8) for s in range(13)] + [(255, 255), (6, 255), (9, 1), (128, 0)]
    for c, s in pairs:
        me = bytes([c, s])
        shapes: list[tuple[str, bytes]] = [
            ('empty', b''),
            ('1-byte-zero', b'\x00'),
            ('1-byte-code', bytes([c])),
            ('1-byte-ff', b'\xff'),
            ('self-1', me),
            ('self-2', me * 2),
            ('self-half', me * 2 + bytes([c])),
            ('self-300', me * 300),
            ('self-max', (me * ((room - 2) // 2 + 1))[: room - 2]),
            ('other-notification', bytes([3, 1]) + b'text'),
            ('shutdown-ok', bytes([11]) + b'maintenance'),
            ('shutdown-short', bytes([200]) + b'abc'),
            ('shutdown-long', bytes([255]) + b'y' * 255),
            ('shutdown-bad-utf8', bytes([3, 0xFF, 0xFE, 0x80])),
            ('shutdown-zero-len', bytes([0]) + b'trailer'),
            ('ascii', b'plain text'),
            ('control-chars', bytes(range(32)) + b'\x7f"\\'),
            ('utf8', 'arrêt ✓'.encode()),
            ('random', bytes(rng.getrandbits(8) for _ in range(rng.choice([2, 3, 7, 40])))),
        ]
        if quick:
            # the size-heavy shapes on the pairs that have a renderer of their own + a rotating sample of the others
            special = (c, s) in ((6, 2), (6, 4)) or (c == 6 and s >= 8) or rng.random() < 0.08
            shapes = [x for x in shapes if x[0] not in ('self-max', 'shutdown-long') or special]
        for label, data in shapes:
            if 2 + len(data) <= room:
                out.append(Case(3, me + data, 'enumerated', f'notification:{label}', True, c * 256 + s))
    out.append(Case(3, b'', 'enumerated', 'notification:no-code', True))
    out.append(Case(3, b'\x06', 'enumerated', 'notification:no-subcode', True))
    # ROUTE-REFRESH: every subtype the handler distinguishes x families (negotiated, not, reserved values)
    for afi, safi in sorted(sh.fams)[:6] + [(0, 0), (3, 1), (65535, 255), (1, 0), (25, 70), (16388, 71)]:
        for res in (0, 1, 2):
            out.append(Case(5, u16(afi) + bytes([res, safi]), 'enumerated', 'refresh', True, res))
    # OPERATIONAL: every registered type + unknown ones x payload shapes around the sizes the decoder checks
    from exabgp.bgp.message.operational import Operational

    types = sorted(int(k) for k in Operational.registered_operational) + [0, 99, 0xFFFF]
    fam = u16(1) + bytes([1])
    rid = bytes([1, 1, 1, 1])
    for t in types:
        for label, payload in [
            ('empty', b''),
            ('afi-only', u16(1)),
            ('family', fam),
            ('family+text', fam + b'advisory text'),
            ('family+utf8', fam + 'café'.encode()),
            ('family+bad-utf8', fam + b'\xff\xfe'),
            ('family+long', fam + b'z' * 2100),
            ('family+rid', fam + rid),
            ('query', fam + rid + u32(7)),
            ('query-zero', fam + bytes(8)),
            ('counter', fam + rid + u32(7) + u32(9)),
            ('counter-max', fam + rid + b'\xff' * 8),
            ('counter+extra', fam + rid + u32(7) + u32(9) + b'extra'),
            ('unknown-family', u16(65535) + bytes([255]) + rid + u32(1) + u32(2)),
            ('random', bytes(rng.getrandbits(8) for _ in range(rng.choice([1, 5, 9, 16, 30])))),
        ]:
            if 4 + len(payload) <= room:
                out.append(Case(6, u16(t) + u16(len(payload)) + payload, 'enumerated', f'operational:{label}', None, t))  # (the draft's per-type minimum sizes decide validity: not claimed)
    # OPEN: every capability code 0-255 once with an empty, a 1-byte and a plausible value (str/json of each is forced)
    plausible = {1: u16(1) + bytes([0, 1]), 2: b'', 5: u16(1) + u16(1) + u16(2), 6: b'', 64: u16(120) + u16(1) + bytes([1, 0x80]), 65: u32(65001), 69: u16(1) + bytes([1, 3]),
                 70: b'', 73: bytes([2]) + b'r1' + bytes([3]) + b'net', 75: bytes([3]) + b'6.0', 76: u16(1) + bytes([1]) + u16(5), 77: b'', 128: b'', 131: bytes([1, 2]), 68: bytes([1, 2]), 185: b''}
    for code in range(256):
        for label, val in [('empty', b''), ('1-byte', b'\x01'), ('plausible', plausible.get(code, bytes([code & 255]) * 4)), ('long', bytes([code & 255]) * 60)]:
            if quick and label in ('1-byte', 'long') and code not in plausible and code % 8:
                continue
            caps = [cap(1, u16(1) + bytes([0, 1])), cap(65, u32(65001)), cap(code, val)]
            body = open_body(65001, 180, bytes([2, 2, 2, 2]), caps, 'one-param')
            if body is not None:
                # an ill-formed value of a KNOWN capability may be refused (2/0): validity is not claimed for those
                out.append(Case(1, body, 'enumerated', f'open:cap-{label}', True if (label == 'plausible' or code not in plausible) and code not in (1, 65) else None, code))
    return out


def unknown_types(rng: Any) -> list[Case]:
    return [Case(t, bytes(rng.getrandbits(8) for _ in range(rng.choice([0, 1, 4, 40]))), 'unknown-type', 'unknown-type', None, t) for t in [0, 7, 8, 9, 100, 251, 252, 253, 254, 255]]


# ---- stream B: single-point corruptions ---------------------------------------------------------------------


def update_fields(body: bytes) -> list[tuple[int, int, str]]:
    """(offset, size, kind) of the structural fields of a (valid) UPDATE body. Harness-side lenient walk."""
    f: list[tuple[int, int, str]] = []
    if len(body) < 4:
        return f
    f.append((0, 2, 'wlen'))
    wl = int.from_bytes(body[0:2], 'big')
    if 2 + wl + 2 > len(body):
        return f
    if wl:
        f.append((2, 1, 'wd-len'))
    ao = 2 + wl
    f.append((ao, 2, 'alen'))
    al = int.from_bytes(body[ao : ao + 2], 'big')
    i = ao + 2
    end = min(i + al, len(body))
    k = 0
    while i + 3 <= end and k < 400:
        fl, code = body[i], body[i + 1]
        f.append((i, 1, 'flags'))
        f.append((i + 1, 1, 'code'))
        if fl & 0x10:
            ln = int.from_bytes(body[i + 2 : i + 4], 'big')
            f.append((i + 2, 2, 'attr-len'))
            v = i + 4
        else:
            ln = body[i + 2]
            f.append((i + 2, 1, 'attr-len'))
            v = i + 3
        if code in (2, 17) and ln >= 2:
            f.append((v, 1, 'seg-type'))
            f.append((v + 1, 1, 'seg-count'))
        if code == 14 and ln >= 5:
            f.append((v, 2, 'mp-afi'))
            f.append((v + 2, 1, 'mp-safi'))
            f.append((v + 3, 1, 'mp-nhlen'))
            nl = body[v + 3]
            if v + 4 + nl < len(body):
                f.append((v + 4 + nl, 1, 'mp-reserved'))
                if v + 5 + nl < v + ln:
                    f.append((v + 5 + nl, 1, 'mp-nlri-len'))
        if code == 15 and ln >= 3:
            f.append((v, 2, 'mp-afi'))
            f.append((v + 2, 1, 'mp-safi'))
            if ln > 3:
                f.append((v + 3, 1, 'mp-nlri-len'))
        if ln:
            f.append((v, 1, 'value'))
        i = v + ln
        k += 1
    if end < len(body):
        f.append((end, 1, 'nlri-len'))
    return f


def corrupt_update(rng: Any, body: bytes, per: int) -> list[tuple[bytes, str]]:
    fields = update_fields(body)
    muts: list[tuple[bytes, str]] = []
    if not fields:
        return muts
    picks = fields if per <= 0 else [rng.choice(fields) for _ in range(per)]
    for off, size, kind in picks:
        cur = int.from_bytes(body[off : off + size], 'big')
        mx = (1 << (8 * size)) - 1
        if kind in ('wlen', 'alen', 'attr-len', 'wd-len', 'nlri-len', 'mp-nlri-len', 'mp-nhlen', 'seg-count'):
            vals = [('+1', cur + 1), ('-1', cur - 1), ('0', 0), ('max', mx)]
        elif kind == 'flags':
            vals = [(f'bit{b}', cur ^ (1 << b)) for b in range(8)]
        elif kind == 'code':
            vals = [('swap', rng.choice(KNOWN_REF + [0, 19, 22, 23, 25, 26, 29, 40, 128, 255])), ('+1', cur + 1)]
        elif kind in ('mp-afi', 'mp-safi', 'seg-type', 'mp-reserved'):
            vals = [('+1', cur + 1), ('0', 0), ('max', mx), ('rnd', rng.randrange(mx + 1))]
        else:
            vals = [('rnd', rng.randrange(mx + 1)), ('max', mx)]
        chosen = vals if per <= 0 else [rng.choice(vals)]
        for nm, v in chosen:
            if 0 <= v <= mx and v != cur:
                muts.append((body[:off] + v.to_bytes(size, 'big') + body[off + size :], f'{kind}:{nm}'))
        # truncation classes relative to this field: before it, inside it, just after it
        cuts = [(off, 'trunc-before'), (off + size, 'trunc-after')] + ([(off + 1, 'trunc-inside')] if size == 2 else [])
        for cut, nm in cuts if per <= 0 else [rng.choice(cuts)]:
            if 0 <= cut < len(body):
                muts.append((body[:cut], f'{kind}:{nm}'))
    muts.append((body + bytes(rng.getrandbits(8) for _ in range(rng.choice([1, 2, 5]))), 'overrun:append'))
    if len(body) > 1:
        muts.append((body[:-1], 'trunc:last'))
        muts.append((body[: len(body) // 2], 'trunc:half'))
    return muts


def corrupt_generic(rng: Any, body: bytes, per: int) -> list[tuple[bytes, str]]:
    muts: list[tuple[bytes, str]] = []
    n = len(body)
    if n == 0:
        return [(b'\x00', 'overrun:append')]
    positions = list(range(n)) if (per <= 0 and n <= 80) else sorted({rng.randrange(n) for _ in range(max(per, 4))} | {0, n - 1})
    for p in positions:
        muts.append((body[:p], 'trunc'))
        for nm, v in (('+1', (body[p] + 1) & 255), ('-1', (body[p] - 1) & 255), ('0', 0), ('max', 255)):
            if v != body[p] and (per <= 0 or rng.random() < 0.5):
                muts.append((body[:p] + bytes([v]) + body[p + 1 :], 'byte:' + nm))
    muts.append((body + bytes(rng.getrandbits(8) for _ in range(rng.choice([1, 3]))), 'overrun:append'))
    return muts


# ---- stream C: random bytes and TLV soup -------------------------------------------------------------------


def split_attrs(body: bytes) -> tuple[bytes, list[tuple[int, int, bytes]], bytes] | None:
    """(withdrawn field, [(flags, code, value)], NLRI field) of a well-framed UPDATE body, else None."""
    if len(body) < 4:
        return None
    wl = int.from_bytes(body[0:2], 'big')
    if 4 + wl > len(body):
        return None
    al = int.from_bytes(body[2 + wl : 4 + wl], 'big')
    i, end = 4 + wl, 4 + wl + al
    if end > len(body):
        return None
    out = []
    while i < end:
        if i + 3 > end:
            return None
        fl, code = body[i], body[i + 1]
        if fl & 0x10:
            if i + 4 > end:
                return None
            ln, v = int.from_bytes(body[i + 2 : i + 4], 'big'), i + 4
        else:
            ln, v = body[i + 2], i + 3
        if v + ln > end:
            return None
        out.append((fl, code, body[v : v + ln]))
        i = v + ln
    return body[2 : 2 + wl], out, body[end:]


_QA: list[bytes] = []


def qa_bodies() -> list[bytes]:
    """The UPDATE bodies of /repo's own functional test material (qa/encoding *.ci, qa/decoding): real messages of
    every family and of the attributes with nested TLVs (prefix-SID, SRv6, tunnel encapsulation, BGP-LS, PMSI, AIGP)."""
    if not _QA:
        from harness import roundtriprig as R

        seen = set()
        for _fn, kind, payload in R.ci_lines():
            if kind == 'raw':
                raw = bytes.fromhex(payload.replace(':', ''))
                if len(raw) >= 19 and raw[18] == 2 and raw[19:] not in seen:
                    seen.add(raw[19:])
                    _QA.append(raw[19:])
        for _fn, first, body in R.decoding_samples():
            if first.split()[0] == 'update':
                b = body[19:] if body[:16] == b'\xff' * 16 else body
                if b not in seen:
                    seen.add(b)
                    _QA.append(b)
    return _QA


PLAIN_CODES = {1, 2, 3, 4, 5, 6, 7, 8, 9, 10, 14, 15, 16, 17, 18}


def inner_corruptions(rng: Any, sh: T.Shape, budget: int) -> list[Case]:
    """Single-point corruptions INSIDE the value of every attribute of the QA messages, the frame around it kept
    consistent (attribute length, total attribute length): every byte -1 / +1 / 0 / 255 and the value cut after
    every byte.  That is where the length octets of nested TLVs, sub-TLVs and sub-sub-TLVs live; the walk above
    (`update_fields`) does not know them.  budget = 0: all of them; else all those of the attributes with nested
    structure and a sample of the rest."""
    first: list[Case] = []
    rest: list[Case] = []
    for body in qa_bodies():
        parts = split_attrs(body)
        if parts is None:
            continue
        wd, attrs, nlri = parts
        for ai, (fl, code, val) in enumerate(attrs):
            muts: list[tuple[bytes, str]] = []
            for k in range(len(val)):
                for d, nm in ((1, '+1'), (-1, '-1'), (None, '=0'), (255, '=255')):
                    nb = (val[k] + d) & 255 if d in (1, -1) else (0 if d is None else 255)
                    if nb != val[k]:
                        muts.append((val[:k] + bytes([nb]) + val[k + 1 :], f'byte{nm}'))
                muts.append((val[:k], 'cut'))
            for nv, nm in muts:
                block = b''.join(attr(f & 0xEF, c, nv if j == ai else v) for j, (f, c, v) in enumerate(attrs))
                b = u16(len(wd)) + wd + u16(len(block)) + block + nlri
                if len(b) + 19 <= sh.msg_size:
                    (rest if code in PLAIN_CODES else first).append(Case(2, b, 'inner-corrupt', f'attr{code}:{nm}', None))
    if budget and len(rest) > budget:
        rest = rng.sample(rest, budget)
    return first + rest


def soup_update(rng: Any, sh: T.Shape) -> bytes:
    reg = registered_codes()
    room = sh.msg_size - 19 - 4
    attrs = b''
    for _ in range(rng.choice([0, 1, 2, 3, 5, 8, 20])):
        code = rng.choice(reg + reg + KNOWN_REF + [rng.randrange(256)])
        fixed = {1: 1, 3: 4, 4: 4, 5: 4, 6: 0, 7: 8 if sh.asn4 else 6, 9: 4, 18: 8}.get(code)
        ln = fixed if fixed is not None and rng.random() < 0.6 else rng.choice([0, 1, 2, 3, 4, 5, 7, 8, 9, 12, 16, 21, 40, 100, 300])
        val = bytearray(rng.getrandbits(8) for _ in range(ln))
        if code in (14, 15) and ln >= 3 and rng.random() < 0.8:
            fam = rng.choice(sorted(sh.fams))
            val[0:3] = u16(fam[0]) + bytes([fam[1]])
            if code == 14 and ln >= 5:
                val[3] = rng.choice([4, 16, 32, 12, 24, 0, ln - 5 if ln - 5 < 256 else 0])
        if code in (2, 17) and ln >= 2 and rng.random() < 0.7:
            val[0] = rng.choice([1, 2, 3, 4])
            val[1] = rng.choice([0, 1, (ln - 2) // (4 if (sh.asn4 or code == 17) else 2), 255])
        flags = rng.choice([0x40, 0x80, 0xC0, 0xE0, 0x00, rng.getrandbits(8)])
        declared = ln if rng.random() < 0.9 else rng.choice([ln + 1, max(0, ln - 1), 255, 0])
        if flags & 0x10 or declared > 255:
            attrs += bytes([flags | 0x10, code]) + u16(declared) + bytes(val)
        else:
            attrs += bytes([flags & 0xEF, code, declared]) + bytes(val)
    nl = b''
    for _ in range(rng.choice([0, 0, 1, 2, 6])):
        pl = rng.choice([0, 8, 16, 24, 32, 33, 200, rng.randrange(256)])
        nl += bytes([pl]) + bytes(rng.getrandbits(8) for _ in range(rng.choice([(pl + 7) // 8, (pl + 7) // 8, rng.randrange(5)])))
    wd = b''
    for _ in range(rng.choice([0, 0, 0, 1, 3])):
        pl = rng.choice([0, 8, 24, 32, 40])
        wd += bytes([pl]) + bytes(rng.getrandbits(8) for _ in range((pl + 7) // 8))
    wl = len(wd) if rng.random() < 0.9 else rng.choice([len(wd) + 1, 65535, 0])
    al = len(attrs) if rng.random() < 0.9 else rng.choice([len(attrs) + 1, max(0, len(attrs) - 1), 65535, 0])
    return (u16(wl) + wd + u16(al) + attrs + nl)[:room + 4]


def soup_mp(rng: Any, sh: T.Shape) -> bytes:
    """A syntactically framed MP_REACH / MP_UNREACH of a negotiated family with random NLRI bytes."""
    afi, safi = rng.choice(sorted(sh.fams))
    w = 4 if sh.asn4 else 2
    nlri = bytes(rng.getrandbits(8) for _ in range(rng.choice([0, 1, 2, 3, 5, 8, 12, 16, 24, 40, 80, 200])))
    if rng.random() < 0.5 and nlri:
        # a plausible length octet / route type in front
        nlri = bytes([rng.choice([len(nlri) - 1, (len(nlri) - 1) * 8, 1, 2, 3, 4, 5]) & 255]) + nlri[1:]
    if rng.random() < 0.6:
        nh = rng.choice([bytes([10, 0, 0, 1]), bytes(16), bytes(8) + bytes([10, 0, 0, 1]), bytes(24), bytes(32), b''])
        mp = u16(afi) + bytes([safi, len(nh)]) + nh + b'\x00' + nlri
        attrs = attr(0x40, 1, b'\x00') + attr(0x40, 2, bytes([2, 1]) + (65001).to_bytes(w, 'big')) + attr(0x80 | (0x10 if len(mp) > 255 else 0), 14, mp)
    else:
        mp = u16(afi) + bytes([safi]) + nlri
        attrs = attr(0x80, 15, mp)
    return update(attrs)


def soup_open(rng: Any) -> bytes:
    caps = b''
    for _ in range(rng.choice([0, 1, 2, 5, 12])):
        code = rng.choice([1, 2, 5, 6, 64, 65, 69, 70, 71, 73, 75, 77, 128, rng.randrange(256)])
        ln = rng.choice([0, 1, 2, 3, 4, 5, 6, 8, 20])
        declared = ln if rng.random() < 0.85 else rng.choice([ln + 1, 255, 0])
        caps += bytes([code, declared]) + bytes(rng.getrandbits(8) for _ in range(ln))
    ptype = rng.choice([2, 2, 2, 1, 0, 255, rng.randrange(256)])
    params = bytes([ptype, len(caps) & 255 if rng.random() < 0.9 else rng.getrandbits(8)]) + caps
    optlen = len(params) & 255 if rng.random() < 0.85 else rng.choice([0, 255, len(params) + 1 & 255])
    return bytes([rng.choice([4, 4, 4, 3, 5, 0])]) + u16(rng.choice([65001, 0, 23456])) + u16(rng.choice([0, 1, 2, 3, 180])) + bytes([rng.getrandbits(8) for _ in range(4)]) + bytes([optlen]) + params


def random_cases(rng: Any, sh: T.Shape, count: int) -> list[Case]:
    out = []
    for _ in range(count):
        ty = rng.choice([1, 2, 2, 2, 2, 3, 5, 6])
        kind = rng.choice(['noise', 'soup', 'soup', 'mp-soup']) if ty == 2 else rng.choice(['noise', 'soup']) if ty == 1 else 'noise'
        if kind == 'noise':
            ln = rng.choice([0, 1, 2, 3, 4, 5, 8, 10, 11, 19, 23, 40, 64, 200, 1000, sh.msg_size - 19])
            body = bytes(rng.getrandbits(8) for _ in range(ln)) if ln < 2000 or rng.random() < 0.2 else bytes(rng.getrandbits(8) for _ in range(64)) * (ln // 64)
            if ty == 2 and ln >= 4 and rng.random() < 0.5:
                # noise inside a consistent frame, so that the walks are reached
                body = update(body[4 : 4 + (ln - 4) // 2], body[4 + (ln - 4) // 2 :])
        elif kind == 'soup':
            body = soup_update(rng, sh) if ty == 2 else soup_open(rng)
        else:
            body = soup_mp(rng, sh)
        if len(body) + 19 <= sh.msg_size:
            out.append(Case(ty, body, 'random', f'{kind}', None))
    return out


# ---------------------------------------------------------------------------------------------
# judging


def mp_families(body: bytes) -> list[tuple[int, int]]:
    """(afi, safi) of every MP_REACH / MP_UNREACH attribute of an UPDATE body (harness-side walk)."""
    out = []
    for off, size, kind in update_fields(body):
        if kind == 'mp-afi' and off + 3 <= len(body):
            out.append((int.from_bytes(body[off : off + 2], 'big'), body[off + 2]))
    return out


REF_FAMILIES = {(a, sf) for a in (1, 2) for sf in (1, 2, 4, 128)}


def slug(text: str) -> str:
    import re

    return re.sub(r'[0-9a-fx]*\d[0-9a-fx]*', '#', text.lower())[:70].strip()


def mp_reserved_nonzero(body: bytes) -> bool:
    return any(k == 'mp-reserved' and body[o] != 0 for o, _, k in update_fields(body))


def vpn_nexthop_rd_nonzero(body: bytes) -> bool:
    """An MP_REACH_NLRI of a VPN family (SAFI 128 / 129) whose next hop is in VPN form (12 / 24 / 48 octets) with a
    route distinguisher that is not zero: RFC 4364 4.3.2 / RFC 4659 3.2.1 define the next hop with an RD of 0 only."""
    for o, _, k in update_fields(body):
        if k == 'mp-nhlen' and o - 1 >= 0 and body[o - 1] in (128, 129):
            ln, nh = body[o], body[o + 1 : o + 1 + body[o]]
            if ln in (12, 24) and any(nh[:8]):
                return True
            if ln == 48 and (any(nh[:8]) or any(nh[24:32])):
                return True
    return False


class Judge:
    def __init__(self, ctx: Ctx) -> None:
        self.ctx = ctx
        self.defined = set(defined_codes())
        self.seen_fail: set[str] = set()
        self.pending: dict[str, list] = {}  # shape name -> [(case, o1, o2)] waiting for the reference
        self.lenient = 0
        self.registered = set(registered_codes())
        self.ref: common.Driver | None = None

    def ref_ok(self, sh: T.Shape, body: bytes) -> bool:
        # one short-lived driver process per question (drv_wire answers a batch at exit)
        return common.run_driver('drv_wire', [f'wire decode {sh.params} {body.hex() or "-"}'])[0].startswith('ok')

    def close(self) -> None:
        if self.ref is not None:
            self.ref.close()

    # -- failure recording (one per canonical form) --
    def fail(self, sh: T.Shape, case: Case, klass: str, what: str, out: T.Outcome | None, level: str, extra: dict | None = None) -> None:
        canon: dict[str, Any] = {'type': case.ty if case.ty in (1, 2, 3, 4, 5, 6) else 'unknown', 'class': klass, 'level': level}
        if out is not None and out.cls in ('raised', 'recursion'):
            canon['exception'] = out.detail
            canon['site'] = out.note.split(' | ')[0]
        if out is not None and out.cls == 'timeout':
            canon['stage'] = out.stage
        if out is not None and out.cls == 'notify':
            canon['notify'] = out.detail
            canon['reason'] = slug(out.note)
        if extra:
            canon.update(extra)
        key = json.dumps(canon, sort_keys=True)
        if key in self.seen_fail:
            return
        self.seen_fail.add(key)
        body, bits = self.shrink(sh, case, out, level, klass)
        # (the session-shape bits this particular body depends on are replay information: which bits they are depends on
        #  the shape the case was first met on, so they are kept out of the canonical form that findings are matched on)
        self.ctx.failures.append(
            Failure(
                'update-class',
                canon,
                {'type': case.ty, 'body': body.hex(), 'shape': sh.name, 'shape_bits_that_matter': bits, 'stream': case.stream, 'label': case.label, 'level': level},
                f'{what}: message type {case.ty}, {case.stream}/{case.label}, {len(case.body)} bytes (shrunk to {len(body)}) on session {sh.name}: {out.canon() if out else ""} {out.note[:160] if out else ""}',
            )
        )

    def shrink(self, sh: T.Shape, case: Case, out: T.Outcome | None, level: str, klass: str) -> tuple[bytes, dict]:
        """Smaller body with the same outcome signature; the session-shape bits the outcome depends on."""
        if out is None:
            return case.body, sh.bits()
        use_rm = level.startswith('read_message') or level.startswith('handler')
        fast = level.endswith('fast-path')
        need_ref = klass == 'valid-refused' and case.ty == 2 and self.ctx.driver_ok

        tries = [0]

        def same(shape: T.Shape, body: bytes) -> bool:
            tries[0] += 1
            if tries[0] > (60 if self.ctx.tier == 'quick' else 400) or self.ctx.time_left() < 5:
                return False
            o = T.read_message(shape, case.ty, body, fast=fast) if use_rm else T.unpack_forced(shape, case.ty, body)
            if not (o.cls == out.cls and o.detail == out.detail and (o.cls != 'notify' or slug(o.note) == slug(out.note))):
                return False
            return self.ref_ok(shape, body) if need_ref else True

        body = case.body
        if out.cls == 'recursion' and case.ty == 2:
            # smallest count of 3-byte attributes that still overflows (bisect)
            unit = bytes([0x80, 99, 0])
            lo, hi = 1, max(2, (len(body) - 4) // 3)
            mk = lambda k: update(unit * k)  # noqa: E731
            if same(sh, mk(hi)):
                while lo < hi:
                    mid = (lo + hi) // 2
                    if same(sh, mk(mid)):
                        hi = mid
                    else:
                        lo = mid + 1
                body = mk(hi)
        elif len(body) <= 6000 and case.ty == 2 and len(body) >= 4:
            # drop whole attributes / trailing NLRI while the signature stays
            changed = True
            rounds = 0
            while changed and rounds < 4:
                changed = False
                rounds += 1
                wl = int.from_bytes(body[0:2], 'big')
                if 4 + wl > len(body):
                    break
                al = int.from_bytes(body[2 + wl : 4 + wl], 'big')
                a0 = 4 + wl
                spans = []
                i = a0
                while i + 3 <= min(a0 + al, len(body)):
                    ln = int.from_bytes(body[i + 2 : i + 4], 'big') + 4 if body[i] & 0x10 else body[i + 2] + 3
                    spans.append((i, i + ln))
                    i += ln
                if i != a0 + al:
                    break
                cands = []
                if wl:
                    cands.append(u16(0) + body[2 + wl :])
                if len(body) > a0 + al:
                    cands.append(body[: a0 + al])
                for b0, b1 in reversed(spans):
                    cands.append(body[0:2] + body[2 : 2 + wl] + u16(al - (b1 - b0)) + body[a0:b0] + body[b1:])
                for cand in cands:
                    if len(cand) < len(body) and same(sh, cand):
                        body = cand
                        changed = True
                        break
        elif (len(body) <= 6000 or out.cls in ('recursion', 'timeout')) and not need_ref:
            step = max(1, len(body) // 2)
            while step >= 1:
                if len(body) - step >= 0 and same(sh, body[: len(body) - step]):
                    body = body[: len(body) - step]
                else:
                    step //= 2
        bits = {}
        mine = sh.bits()
        for k, v in mine.items():
            # does the outcome change when this bit alone changes?
            other = T.build_shape(T.flip(sh, k))
            if len(body) + 19 <= other.msg_size and not same(other, body):
                bits[k] = v
        return body, bits

    # -- per case --
    def run_case(self, sh: T.Shape, case: Case, measure: bool = False) -> tuple[T.Outcome, T.Outcome]:
        ctx = self.ctx
        o1 = T.unpack_forced(sh, case.ty, case.body, measure=measure)
        o2 = T.read_message(sh, case.ty, case.body)
        ctx.evaluations += 1
        ctx.count(f'stream:{case.stream}')
        ctx.count(f'type:{case.ty if case.ty in (1, 2, 3, 4, 5, 6) else "other"}')
        ctx.count(f'shape:{sh.name}')
        ctx.count('size:' + ('0' if not case.body else '1-19' if len(case.body) < 20 else '20-255' if len(case.body) < 256 else '256-4077' if len(case.body) <= 4077 else '4078-65516'))
        ctx.count(f'outcome-unpack:{o1.key()}')
        ctx.count(f'outcome-read_message:{o2.key()}')
        bad = ('raised', 'recursion', 'timeout')
        words = {'raised': 'raised something that is not a NOTIFICATION', 'recursion': 'unbounded recursion (RecursionError)', 'timeout': f'did not finish within the CPU backstop ({T.TIMEOUT_S}s + 0.5s/4096 bytes, confirmed at 3x)'}
        # 1. anything that is not a Notify: out of Message.unpack / the forced lazy parts ...
        if o1.cls in bad:
            lvl = 'unpack' if o1.stage == 'unpack' else o1.stage
            extra = {'read_message': o2.canon()} if o2.cls == 'notify' else {}
            self.fail(sh, case, o1.cls, words[o1.cls] + (f' — the catch-all of read_message turns it into NOTIFICATION {o2.detail}' if o2.cls == 'notify' else ''), o1, lvl, extra)
        # ... or out of Protocol.read_message / the handlers of the peer loop (no NOTIFICATION is sent at all)
        if o2.cls in bad and not (o1.cls == o2.cls and o1.detail == o2.detail and o1.note.split(' | ')[0] == o2.note.split(' | ')[0]):
            self.fail(sh, case, o2.cls, words[o2.cls] + ' — escapes Protocol.read_message / the peer loop handlers: the session is reset with no NOTIFICATION', o2, o2.stage)
        for o, level in ((o1, 'unpack'), (o2, 'read_message')):
            if o.cls == 'notify' and tuple(int(x) for x in o.detail.split()) not in self.defined:
                self.fail(sh, case, 'undefined-code', 'NOTIFICATION outside the defined table', o, level)
        # 2. valid by construction, refused
        if case.valid is True and case.ty != 2 and o1.cls not in bad:
            o = o1 if o1.cls == 'notify' else o2 if o2.cls == 'notify' else None
            if o is not None:
                self.fail(sh, case, 'valid-refused', 'valid message refused', o, 'unpack' if o is o1 else 'read_message', {'label': case.label})
        if case.ty == 2:
            self.pending.setdefault(sh.name, []).append((case, o1, o2))
        if o1.cls == 'decoded' and o2.cls == 'decoded' and len(case.body) > 4:
            ctx.nontrivial([case.ty, case.body.hex()[:4000], sh.name])
        elif o1.cls == 'notify' and case.stream in ('corrupt', 'random'):
            ctx.nontrivial([case.ty, case.body.hex()[:4000], sh.name])
        return o1, o2

    # -- reference comparison for the UPDATE bodies of one shape --
    def flush(self, sh: T.Shape) -> None:
        ctx = self.ctx
        items = self.pending.pop(sh.name, [])
        if not items or not ctx.driver_ok:
            return
        ref = common.run_driver('drv_wire', [f'wire decode {sh.params} {c.body.hex() or "-"}' for c, _, _ in items])
        for (case, o1, o2), r in zip(items, ref):
            rk = 'ok' if r.startswith('ok') else r
            ctx.count(f'reference:{"ok" if rk == "ok" else "err"}')
            if rk == 'bad-op':
                raise common.Infra('drv_wire bad-op on decode')
            if case.valid is True and rk != 'ok':
                # the generator claims validity and the RFC reference disagrees: a fault of this harness, not of /repo
                ctx.disagreements.append(Disagreement('generator-vs-reference', {'label': case.label, 'n': case.n, 'shape': sh.name, 'body': case.body.hex()[:200]}, r, 'generator says valid'))
                continue
            impl_ok = o1.cls == 'decoded' and o2.cls == 'decoded'
            if rk == 'ok':
                # where the reference is not the judge of validity (it carries these as opaque bytes) or the
                # RFCs leave the receiver free to be stricter, ExaBGP refusing is not a violation:
                fams = mp_families(case.body)
                codes = attr_codes(case.body)
                why = None
                if any(f not in sh.fams for f in fams):
                    why = 'family-not-negotiated'  # RFC 4760 8: may be ignored / session may be terminated
                elif any(f not in REF_FAMILIES for f in fams):
                    why = 'family-opaque-to-reference'
                elif any(c in self.registered and c not in KNOWN_REF for c in codes):
                    why = 'attribute-opaque-to-reference'
                elif mp_reserved_nonzero(case.body):
                    why = 'mp-reach-reserved-nonzero'  # RFC 4760 3: MUST be 0 when sent (receiver SHOULD ignore)
                elif vpn_nexthop_rd_nonzero(case.body):
                    why = 'vpn-nexthop-rd-nonzero'  # not a valid message: the reference does not look inside a next hop
                if why:
                    ctx.count('canon:ref-ok/' + why)
                    continue
                o = o1 if o1.cls == 'notify' else o2 if o2.cls == 'notify' else None
                if o is not None and o1.cls not in ('raised', 'recursion', 'timeout'):  # (a raw exception is already reported, with what read_message makes of it)
                    self.fail(sh, case, 'valid-refused', 'valid UPDATE refused (the RFC reference decoder accepts it)', o, 'unpack' if o is o1 else 'read_message')
                if impl_ok:
                    ctx.count('agree:ok/decoded')
            else:
                if impl_ok:
                    # looser than the reference: RFC 7606 (treat-as-withdraw / attribute discard) allows it; C08 decides whether routes survive
                    ctx.count('canon:ref-err/impl-decoded(rfc7606)')
                    self.lenient += 1
                elif o1.cls == 'notify':
                    ctx.count('agree:err/notify' + ('' if o1.detail == rk[4:] else '(other code)'))


def attr_codes(body: bytes) -> list[int]:
    return sorted({body[o] for o, s, k in update_fields(body) if k == 'code'})


# ---------------------------------------------------------------------------------------------
# work measurement


def measure_work(ctx: Ctx, judge: Judge, shapes: list[T.Shape]) -> None:
    """Function calls against message size: a budget for every message, a linear fit for every size family."""
    fams: dict[str, Any] = {}
    unk = unregistered_codes()

    def f_unk(sh: T.Shape, n: int) -> bytes:
        return update(b''.join(attr(0x80, unk[i % len(unk)], b'') for i in range(n)))

    def f_nlri(sh: T.Shape, n: int) -> bytes:
        return update(base_attrs(sh), b''.join(v4nlri(i, 24, 5 if '1.1' in sh.params.split()[1].split('+') else None) for i in range(n)))

    def f_wd(sh: T.Shape, n: int) -> bytes:
        return update(b'', b'', b''.join(v4nlri(i, 24, 5 if '1.1' in sh.params.split()[1].split('+') else None) for i in range(n)))

    def f_comm(sh: T.Shape, n: int) -> bytes:
        return update(base_attrs(sh) + attr(0xC0, 8, b''.join(u32(i + 1) for i in range(n))), v4nlri(1))

    def f_large(sh: T.Shape, n: int) -> bytes:
        return update(base_attrs(sh) + attr(0xC0, 32, b''.join(u32(64512) + u32(i) + u32(1) for i in range(n))), v4nlri(1))

    def f_seg(sh: T.Shape, n: int) -> bytes:
        w = 4 if sh.asn4 else 2
        return update(base_attrs(sh, b''.join(bytes([2, 1]) + (64512 + i % 1000).to_bytes(w, 'big') for i in range(n))), v4nlri(1))

    def f_mp6(sh: T.Shape, n: int) -> bytes:
        w = 4 if sh.asn4 else 2
        p6 = 9 if '2.1' in sh.params.split()[1].split('+') else None
        nl = b''.join((u32(p6) if p6 is not None else b'') + bytes([64, 0x20, 1, 0x0D, 0xB8]) + u32(i) for i in range(n))
        mp = u16(2) + bytes([1, 16]) + bytes([0x20, 1, 0x0D, 0xB8] + [0] * 11 + [1]) + b'\x00' + nl
        return update(attr(0x40, 1, b'\x00') + attr(0x40, 2, bytes([2, 1]) + (65001).to_bytes(w, 'big')) + attr(0x80, 14, mp))

    def f_caps(sh: T.Shape, n: int) -> bytes:
        caps = [cap(200 + (i % 40), bytes([i & 255])) for i in range(n)]
        return open_body(65001, 180, bytes([2, 2, 2, 2]), caps, 'rfc9072')

    fams = {'unknown-attrs': (2, f_unk, 3), 'nlri': (2, f_nlri, 4), 'withdrawn': (2, f_wd, 4), 'communities': (2, f_comm, 4), 'large-communities': (2, f_large, 12), 'aspath-segments': (2, f_seg, 6), 'mp-reach-v6': (2, f_mp6, 9), 'open-unknown-caps': (1, f_caps, 3)}
    quick = ctx.tier == 'quick'
    results = []
    for sh in shapes:
        room = sh.msg_size - 19 - 80
        for name, (ty, fn, unit) in fams.items():
            if ty == 1:
                room_f = min(room, 4096 - 19 - 20)
            else:
                room_f = room
            top = room_f // unit
            if quick:
                top = min(top, 3000 // unit * (1 if name != 'unknown-attrs' else 1))
            ns = sorted({max(1, top // 16), max(2, top // 4), top})
            if name == 'unknown-attrs':
                ns = sorted({x for x in (50, 200, min(top, 800))})  # beyond ~950 the stack overflows (reported separately)
            pts = []
            for n in ns:
                if ctx.time_left() < 15:
                    break
                body = fn(sh, n)
                if body is None or len(body) + 19 > sh.msg_size:
                    continue
                o = T.unpack_forced(sh, ty, body, measure=True)
                ctx.evaluations += 1
                ctx.count('stream:work')
                if o.cls != 'decoded':
                    continue
                pts.append((len(body), o.calls))
                if o.calls > BUDGET_C * len(body) + BUDGET_D:
                    judge.fail(sh, Case(ty, body, 'work', name, True, n), 'budget', f'step budget exceeded: {o.calls} calls for {len(body)} bytes (budget {BUDGET_C}*size+{BUDGET_D})', None, 'unpack+force', {'family': name})
            if len(pts) >= 3:
                (s0, c0), (s1, c1), (s2, c2) = pts[0], pts[-2], pts[-1]
                slope = (c1 - c0) / max(1, s1 - s0)
                predicted = c1 + slope * (s2 - s1)
                ratio = c2 / max(1.0, predicted)
                results.append({'shape': sh.name, 'family': name, 'points': pts, 'calls_per_byte': round(c2 / s2, 1), 'extrapolation_ratio': round(ratio, 3)})
                if ratio > 1.25 and c2 - predicted > 2000:
                    judge.fail(sh, Case(ty, fn(sh, ns[-1]), 'work', name, True, ns[-1]), 'superlinear', f'super-linear work: sizes/calls {pts}; the largest needs {ratio:.2f}x the linear extrapolation of the smaller two', None, 'unpack+force', {'family': name})
    ctx.extra['work_fit'] = results[:40]
    if results:
        ctx.extra['work_max_calls_per_byte'] = max(r['calls_per_byte'] for r in results)
        ctx.extra['work_max_extrapolation_ratio'] = max(r['extrapolation_ratio'] for r in results)
        ctx.notes.append(f'work (TEST, not a proof): {len(results)} size families fitted; max calls/byte {ctx.extra["work_max_calls_per_byte"]}, max ratio to linear extrapolation {ctx.extra["work_max_extrapolation_ratio"]} (alarm above 1.25); budget {BUDGET_C}*size+{BUDGET_D}')


# ---------------------------------------------------------------------------------------------
# the run


def load_corpus() -> list[dict]:
    d = common.VERIF / 'corpus' / 'C03'
    return [json.loads(f.read_text()) | {'_file': f.name} for f in sorted(d.glob('*.json'))] if d.exists() else []


def run(ctx: Ctx) -> None:
    rng = ctx.rng
    quick = ctx.tier == 'quick'
    ctx.rule = (
        'every message type (OPEN, UPDATE, NOTIFICATION, KEEPALIVE, ROUTE-REFRESH, OPERATIONAL, unknown) x 10 session shapes (asn4 x ADD-PATH x {ipv4+ipv6 unicast, all 23 families} x 4096/65535, two of them with the extended next hop capability of RFC 8950 in both OPENs): '
        'valid messages (reference-encoded random UPDATEs; extreme shapes: 0..max unknown attributes, 255-AS segments, maximal NLRI/withdrawn counts, AS_PATH+AS4_PATH; OPENs with every capability, unknown ones, RFC 9072 lengths), '
        'MP_REACH_NLRI of every negotiated family x next-hop lengths 0..48 x NLRI shapes, single-point corruptions of those (every length field +1/-1/0/max, truncation before/inside/after every field class, overrun, each flag bit, type codes swapped) and random bytes / TLV soup; '
        'each through Message.unpack with all lazy parts forced and through Protocol.read_message + handlers. non-trivial = decoded by both entry points (body > 4 bytes) or refused with a NOTIFICATION on a corrupt/random body; distinct = distinct (type, body, shape)'
    )
    shapes = [T.build_shape(s) for s in T.SHAPE_SPECS]
    judge = Judge(ctx)
    t0 = time.time()

    # 0. corpus first
    for c in load_corpus():
        sh = T.build_shape(next(s for s in T.ALL_SPECS if s[0] == c['shape']))
        case = Case(c['type'], bytes.fromhex(c['body']), 'corpus', c.get('label', c['_file']), c.get('valid'))
        if c.get('fast'):
            o = T.read_message(sh, case.ty, case.body, fast=True)
            ctx.evaluations += 1
            ctx.count(f'fast-path:{o.key()}')
            if o.cls in ('raised', 'recursion', 'timeout'):
                judge.fail(sh, Case(case.ty, case.body, 'fast-path', case.label, True), o.cls, 'raised something that is not a NOTIFICATION — in the peer loop, on the undecoded fast path of read_message (adj-rib-in false, no API): the session is reset with no NOTIFICATION', o, o.stage + ':fast-path')
            continue
        o1, o2 = judge.run_case(sh, case)
        want = c.get('expect')
        if want and (o1.canon() != want or o2.canon() != want):
            # a pinned benign case no longer behaves as recorded: for 'decoded' pins that is a refusal of a valid message
            if want == 'decoded' and (o1.cls == 'notify' or o2.cls == 'notify'):
                o = o1 if o1.cls == 'notify' else o2
                judge.fail(sh, case, 'valid-refused', 'valid message refused (pinned corpus case)', o, 'unpack' if o is o1 else 'read_message', {'label': case.label})
            else:
                ctx.notes.append(f'corpus {c["_file"]}: unpack {o1.canon()} / read_message {o2.canon()} (recorded: {want})')
    for sh in shapes:
        judge.flush(sh)
    for name in list(judge.pending):
        judge.flush(T.build_shape(next(s for s in T.ALL_SPECS if s[0] == name)))

    # 0b. the enumerated non-UPDATE stream (NOTIFICATION code x subcode x data shape, every capability code, REFRESH,
    #     OPERATIONAL): deterministic, never cut by the clock; their lazy parts do not depend on the session shape
    for case in enumerated_non_update(rng, shapes[0], ctx.tier):
        judge.run_case(shapes[0], case)
        ctx.count('enumerated:' + case.label.split(':')[0])

    n_enc = 30 if quick else 1500
    n_other = 6 if quick else 150
    n_rand = 80 if quick else 3000
    per_mut = 3 if quick else 0  # 0 = every field, every value
    budget_streams = min(ctx.time_left() - (30 if quick else 240), 40 if quick else 600)
    for si, sh in enumerate(shapes):
        start = time.time()
        span = max(1.0, (t0 + budget_streams - start) / (len(shapes) - si))  # what is left, shared evenly
        # the next-hop matrix of MP_REACH_NLRI: enumerated, never cut by the clock
        for case in nexthop_matrix(sh):
            judge.run_case(sh, case)
            ctx.count('mp-nexthop:nh' + case.label.split('/')[1][2:])
        judge.flush(sh)
        if sh.name == 'a4-all-64k':
            # corruptions inside the attribute values of /repo's own QA messages (nested TLVs): deterministic part first
            for case in inner_corruptions(rng, sh, 1500 if quick else 0):
                judge.run_case(sh, case)
                ctx.count('inner-corrupt:' + case.label.split(':')[0])
            judge.flush(sh)
        valid: list[Case] = []
        valid += list(extreme_updates(sh, ctx.tier))
        if ctx.driver_ok:
            valid += encoded_updates(rng, sh, n_enc)
        valid += valid_opens(rng, sh, n_other)
        valid += valid_others(rng, sh, n_other)
        valid += unknown_types(rng)
        if si > 0 and not quick:
            valid += enumerated_non_update(rng, sh, ctx.tier)
        if quick and si > 0:
            # the giants (64 KB of routes through four encoders) run on the first 65535 shape only in the quick tier
            valid = [c for c in valid if len(c.body) <= 6000]
        valid.sort(key=lambda c: len(c.body) // 512)  # cheap ones first: if the machine is slow the giants are what is cut
        done = 0
        for case in valid:
            if time.time() > start + 0.5 * span and done >= 40:
                ctx.count('valid-stream-cut-by-time')
                break
            o1, o2 = judge.run_case(sh, case)
            done += 1
            ctx.sample({'shape': sh.name, 'type': case.ty, 'stream': case.stream, 'label': case.label, 'size': len(case.body), 'unpack+force': o1.canon(), 'read_message': o2.canon()}, cap=6)
        judge.flush(sh)
        # corruptions of the valid ones (not of the giants: their corruptions are covered by the small ones)
        pool = [c for c in valid[: max(done, 1)] if 0 < len(c.body) <= 1500]
        rng.shuffle(pool)
        for case in pool:
            if time.time() > start + 0.8 * span:
                break
            muts = corrupt_update(rng, case.body, per_mut) if case.ty == 2 else corrupt_generic(rng, case.body, per_mut)
            if not quick and len(muts) > 400:
                muts = rng.sample(muts, 400)
            for body, label in muts:
                if len(body) + 19 <= sh.msg_size:
                    judge.run_case(sh, Case(case.ty, body, 'corrupt', label, None))
                    ctx.count('corruption:' + label)
        judge.flush(sh)
        for case in random_cases(rng, sh, n_rand):
            if time.time() > start + span:
                break
            judge.run_case(sh, case)
            ctx.count('random:' + case.label)
        judge.flush(sh)
    # session states: the same messages through read_open / read_keepalive (what OPENSENT / OPENCONFIRM call)
    sh = shapes[0]
    # ... and everything that decodes and carries peer-chosen content (every NOTIFICATION code x subcode x data shape,
    # OPERATIONAL advisories, capabilities with text): in these states the message is refused (5/1, 5/2) and the
    # refusal is built around the decoded message — it must still be a NOTIFICATION, not a Python error
    state_cases = [(c.ty, c.body) for c in enumerated_non_update(rng, sh, ctx.tier)]
    state_cases += [(c.ty, c.body) for c in valid_opens(rng, sh, 6 if quick else 60)] + [(c.ty, c.body) for c in valid_others(rng, sh, 6 if quick else 60)]
    seen_state: set = set()
    for via in ('read_open', 'read_keepalive'):
        for ty, body in [(1, bytes([4]) + u16(65001) + u16(180) + bytes([2, 2, 2, 2, 0])), (2, bytes(4)), (2, update(base_attrs(sh), v4nlri(1))), (3, bytes([6, 2])), (4, b''), (5, u16(1) + bytes([0, 1])), (6, bytes(4)), (9, b''), (1, bytes(3)), (2, b'\x00')] + state_cases:
            if (via, ty, bytes(body)) in seen_state:
                continue
            seen_state.add((via, ty, bytes(body)))
            o = T.read_message(sh, ty, body, via=via)
            ctx.evaluations += 1
            ctx.count(f'state:{via}:{o.key()}')
            if o.cls in ('raised', 'recursion', 'timeout'):
                judge.fail(sh, Case(ty, body, 'state', via), o.cls, 'raised something that is not a NOTIFICATION', o, via)
            elif o.cls == 'notify' and tuple(int(x) for x in o.detail.split()) not in judge.defined:
                judge.fail(sh, Case(ty, body, 'state', via), 'undefined-code', 'NOTIFICATION outside the defined table', o, via)
    # what follows the read of the peer's OPEN in Peer._establish: the negotiation and its validation, on a neighbor like
    # the shape's and on one with multi-session configured — a valid OPEN, or any OPEN the decoder lets through, is
    # negotiated and accepted or refused with a NOTIFICATION
    open_cases = [c for c in state_cases if c[0] == 1] + [(1, c.body) for c in valid_opens(rng, sh, 40 if quick else 600)]
    ms = cap(68, b'')
    for caps in ([ms], [ms, cap(65, u32(65001))], [cap(1, u16(1) + bytes([0, 1])), ms], [cap(131, b''), cap(65, u32(65001))], [ms, cap(131, b'')], [cap(68, bytes([1])), cap(1, u16(1) + bytes([0, 1]))], [cap(68, bytes([2])), cap(2, b'')]):
        for layout in ('one-param', 'param-per-cap'):
            b = open_body(65001, 180, bytes([2, 2, 2, 2]), caps, layout)
            if b is not None:
                open_cases.append((1, b))
    seen_open: set = set()
    for shape_ in (shapes[0], shapes[4]):
        for _, body in open_cases:
            for msess in (False, True):
                if (shape_.name, msess, bytes(body)) in seen_open:
                    continue
                seen_open.add((shape_.name, msess, bytes(body)))
                o = T.accept_open(shape_, body, msess)
                ctx.evaluations += 1
                ctx.count(f'open-acceptance:{"multi-session" if msess else "plain"}:{o.key()}')
                if o.cls in ('raised', 'recursion', 'timeout'):
                    judge.fail(shape_, Case(1, body, 'open-acceptance', 'multi-session' if msess else 'plain'), o.cls, 'the peer\'s OPEN was read, and its negotiation raised something that is not a NOTIFICATION (Peer._run resets the session without one)', o, o.stage + (':multi-session' if msess else ''))
                elif o.cls == 'notify' and tuple(int(x) for x in o.detail.split()) not in judge.defined:
                    judge.fail(shape_, Case(1, body, 'open-acceptance', 'multi-session' if msess else 'plain'), 'undefined-code', 'NOTIFICATION outside the defined table', o, o.stage)
    # sequences of valid messages of one ESTABLISHED session on one Adj-RIB-In and one set of handlers: announcements,
    # withdrawals of what was announced (and of what was not), ROUTE-REFRESH requests and BoRR / EoRR markers (RFC 7313)
    # for the same and for other families, End-of-RIB, KEEPALIVE, in every order a peer may send them
    sh6 = shapes[0]
    w4 = 4 if sh6.asn4 else 2
    attrs4 = attr(0x40, 1, b'\x00') + attr(0x40, 2, bytes([2, 1]) + (65001).to_bytes(w4, 'big')) + attr(0x40, 3, bytes([10, 0, 0, 1]))
    nh6 = bytes([0x20, 1, 0x0D, 0xB8] + [0] * 11 + [1])
    p6 = lambda i: bytes([48, 0x20, 1, 0x0D, 0xB8, 0, i])  # noqa: E731
    alpha = {
        'ann4a': (2, update(attrs4, v4nlri(1))), 'ann4b': (2, update(attrs4, v4nlri(2) + v4nlri(3))), 'wd4a': (2, update(b'', b'', v4nlri(1))), 'wd4b': (2, update(b'', b'', v4nlri(2))), 'wd4x': (2, update(b'', b'', v4nlri(9))),
        'ann6': (2, update(attr(0x40, 1, b'\x00') + attr(0x40, 2, bytes([2, 1]) + (65001).to_bytes(w4, 'big')) + attr(0x80, 14, u16(2) + bytes([1, 16]) + nh6 + b'\x00' + p6(1) + p6(2)))),
        'wd6': (2, update(attr(0x80, 15, u16(2) + bytes([1]) + p6(1)))), 'eor4': (2, bytes(4)), 'eor6': (2, update(attr(0x80, 15, u16(2) + bytes([1])))), 'ka': (4, b''),
        'rr4': (5, u16(1) + bytes([0, 1])), 'borr4': (5, u16(1) + bytes([1, 1])), 'eorr4': (5, u16(1) + bytes([2, 1])), 'rr6': (5, u16(2) + bytes([0, 1])), 'borr6': (5, u16(2) + bytes([1, 1])), 'eorr6': (5, u16(2) + bytes([2, 1])),
    }
    seqs = [['ann4a', 'borr4', 'wd4a', 'eorr4'], ['ann4a', 'ann4b', 'borr4', 'ann4a', 'eorr4', 'wd4b'], ['ann6', 'borr6', 'wd6', 'eorr6'], ['ann4a', 'borr4', 'eorr6', 'eorr4'], ['borr4', 'borr4', 'eorr4', 'eorr4'], ['eorr4', 'ann4a', 'borr4'],
            ['ann4a', 'ann6', 'borr4', 'borr6', 'wd4a', 'wd6', 'eorr6', 'eorr4'], ['ann4a', 'wd4a', 'wd4a', 'wd4x', 'eor4'], ['ann4b', 'rr4', 'wd4b', 'rr6', 'eor6']]
    names = sorted(alpha)
    for _ in range(150 if quick else 6000):
        seqs.append([rng.choice(names) for _ in range(rng.randrange(2, 9))])
    for seq in seqs:
        outs = T.read_sequence(sh6, [alpha[k] for k in seq])
        ctx.evaluations += 1
        ctx.count('session-sequence:len%d' % len(seq))
        o = outs[-1]
        if o.cls in ('raised', 'recursion', 'timeout'):
            k = len(outs) - 1
            canon = {'type': alpha[seq[k]][0], 'class': o.cls, 'level': o.stage + ':after-history', 'exception': o.detail, 'site': o.note.split(' | ')[0]}
            key = json.dumps(canon, sort_keys=True)
            if key not in judge.seen_fail:
                judge.seen_fail.add(key)
                # the shortest prefix-free history: drop earlier messages while the last one still fails
                hist = list(seq[: k + 1])
                i = 0
                while i < len(hist) - 1:
                    cand = hist[:i] + hist[i + 1 :]
                    oo = T.read_sequence(sh6, [alpha[x] for x in cand])
                    if len(oo) == len(cand) and oo[-1].cls == o.cls and oo[-1].detail == o.detail:
                        hist = cand
                    else:
                        i += 1
                ctx.failures.append(Failure('update-class', canon, {'shape': sh6.name, 'history': [[alpha[x][0], alpha[x][1].hex()] for x in hist], 'names': hist, 'stream': 'session-sequence'},
                                            f'after {"+".join(hist[:-1]) or "nothing"} on one session, the message {hist[-1]} raised something that is not a NOTIFICATION in the peer loop (the session is reset without one): {o.canon()} {o.note[:160]}'))
    # the fast path of read_message (adj-rib-in off, no API consumer, route logging off): UPDATEs are not decoded,
    # the shared `_UPDATE` object goes to the handlers of the peer loop instead
    for ty, body, label in [(2, update(base_attrs(sh), v4nlri(1)), 'update'), (2, bytes(4), 'eor-v4'), (2, update(attr(0x80, 15, u16(2) + bytes([1]))), 'eor-v6'), (2, b'\x00', 'short'), (4, b'', 'keepalive'), (5, u16(1) + bytes([0, 1]), 'refresh')]:
        o = T.read_message(sh, ty, body, fast=True)
        ctx.evaluations += 1
        ctx.count(f'fast-path:{o.key()}')
        if o.cls in ('raised', 'recursion', 'timeout'):
            judge.fail(sh, Case(ty, body, 'fast-path', label, True), o.cls, 'raised something that is not a NOTIFICATION — in the peer loop, on the undecoded fast path of read_message (adj-rib-in false, no API): the session is reset with no NOTIFICATION', o, o.stage + ':fast-path')
    # work
    measure_work(ctx, judge, shapes if not quick else [shapes[1], shapes[6]])
    if judge.lenient:
        ctx.notes.append(f'{judge.lenient} UPDATE bodies the RFC 4271 reference refuses are decoded by ExaBGP (RFC 7606 treat-as-withdraw / attribute discard / first-of-duplicates): allowed by this property, counted as canon:ref-err/impl-decoded')
    judge.close()
    ctx.notes.append(f'{ctx.evaluations} cases in {time.time() - t0:.1f}s = {ctx.evaluations / max(0.1, time.time() - t0):.0f} cases/s (each = unpack+force and read_message)')


def replay(path: str) -> int:
    data = json.loads(open(path).read())
    rp = data.get('replay', data)  # a replay file of a violation, or a corpus file
    if rp.get('fast'):
        rp['level'] = 'handler:fast-path'
    sh = T.build_shape(next(s for s in T.ALL_SPECS if s[0] == rp['shape']))
    body = bytes.fromhex(rp.get('body', ''))
    if rp.get('history'):
        outs = T.read_sequence(sh, [(t, bytes.fromhex(h)) for t, h in rp['history']])
        for (t, h), o in zip(rp['history'], outs):
            print('type', t, h[:60], '->', o.canon(), o.note[:120])
        return 1 if outs and outs[-1].cls in ('raised', 'recursion', 'timeout') else 0
    if rp.get('stream') == 'open-acceptance':
        o = T.accept_open(sh, body, rp.get('label') == 'multi-session')
        print('OPEN', body.hex(), 'on', sh.name, '(multi-session configured)' if rp.get('label') == 'multi-session' else '')
        print('Negotiated.received + validate:', o.canon(), o.note)
        return 1 if o.cls in ('raised', 'recursion', 'timeout') else 0
    o1 = T.unpack_forced(sh, rp['type'], body)
    o2 = T.read_message(sh, rp['type'], body, fast=rp.get('level', '').endswith('fast-path'))
    print('type', rp['type'], 'shape', sh.name, 'body', len(body), 'bytes')
    print('Message.unpack + forced lazy parts:', o1.canon(), o1.note)
    print('Protocol.read_message             :', o2.canon(), o2.note)
    if rp['type'] == 2:
        try:
            print('RFC reference (drv_wire)          :', common.run_driver('drv_wire', [f'wire decode {sh.params} {body.hex() or "-"}'])[0][:300])
        except common.Infra as e:
            print('reference unavailable:', e)
    bad = any(o.cls in ('raised', 'recursion', 'timeout') for o in (o1, o2))
    refused = o1.cls == 'notify' or o2.cls == 'notify'
    return 1 if bad or (refused and ('refused' in data.get('what', '') or data.get('valid') is True)) else 0
