"""C15 — every family and attribute survives a round trip; index / hash / equality contract."""

from __future__ import annotations

import json
import time
import re
from typing import Any

from harness import common
from harness.common import Ctx, Disagreement, Failure

THEOREM_MODULES = ['ExaModel.Props.C15']
DRIVERS = ['drv_index']
TABLES = ['registry']
ASSUMPTIONS = [
    'value-level codecs of the non-IP route types and of the attributes are not modelled in Lean: they are covered by the registry-driven runs only (framing, index/hash/eq of the IP families and the registries are modelled)',
    "Python's hash of a bytes object is a function of the bytes (the model compares the hashed byte strings)",
    'factory arguments are taken in their documented domain (address family of every address argument = the afi argument, masks within the family, MAC length 48, EVPN label stacks of 1 (MAC: 1-2) labels)',
    'a path identifier on a family for which ADD-PATH cannot be negotiated (Capabilities._ADD_PATH) is dropped by pack_nlri by design: such objects are not round-tripped',
]
TRUSTED_EXTRA = ['harness/tables/registry.py (registries and framing constants read from the live classes)', 'harness/roundtriprig.py (sources and law evaluation on the real classes)']

DISA = b'disa'
NOP = b'no-p'


# ---------------------------------------------------------------------------------------------
# small helpers


def hx(b: bytes) -> str:
    return bytes(b).hex() or '-'


def diff_key(a: str, b: str) -> str:
    """Name of the JSON key (or text keyword) in front of the first position where two renderings differ."""
    i = 0
    n = min(len(a), len(b))
    while i < n and a[i] == b[i]:
        i += 1
    head = a[:i]
    m = re.findall(r'"([A-Za-z0-9_\-]+)":', head)
    if m:
        return 'key:' + m[-1]
    m = re.findall(r'([a-z][a-z0-9\-]+) ', head)
    return 'word:' + (m[-1] if m else '')


class Book:
    """Failures deduplicated by canonical form, keeping the shortest bytes seen for each."""

    def __init__(self, ctx: Ctx) -> None:
        self.ctx = ctx
        self.best: dict[str, tuple[tuple[int, int], Failure]] = {}
        self.no_encoder: set[str] = set()  # attribute classes whose pack_attribute is not implemented (reported once)

    STRUCTURAL = {'no-label-stack', 'no-rd', 'label-0-first-of-stack', 'vpn-rd-dropped', 'length>=256'}

    def add(self, kind: str, cls: str, law: str, shape: str, data: bytes, what: str, replay: dict, corpus: bool = False) -> None:
        if shape in self.STRUCTURAL and not law.startswith('framing'):
            what = f'({law}) {what}'
            law = 'does-not-survive-encode-decode'
        if shape == 'vpn-rd-dropped':
            cls = 'BGPLS'
        canon = {'class': cls, 'law': law, 'shape': shape}
        key = json.dumps(canon, sort_keys=True)
        # a corpus case is kept as the representative (stable across seeds); otherwise the shortest bytes
        size = (0 if corpus else 1, len(data) if data else 10**9)
        cur = self.best.get(key)
        if cur is None or size < cur[0]:
            rp = dict(replay)
            rp['bytes'] = hx(data)
            self.best[key] = (size, Failure(kind, canon, rp, f'{cls}: {law} [{shape}] minimal bytes {hx(data)}: {what[:300]}'))

    def flush(self) -> None:
        for key in sorted(self.best):
            self.ctx.failures.append(self.best[key][1])


def shape_of(x: Any, law: str, detail: str, data: bytes) -> str:
    """A coarse, deterministic classification of a failing case (part of the canonical form)."""
    from exabgp.bgp.message.update.nlri.flow import Flow
    from exabgp.bgp.message.update.nlri.label import Label
    from exabgp.bgp.message.update.nlri.qualifier import Labels

    name = type(x).__name__
    if 'bgpls' in type(x).__module__ and int(getattr(x, 'safi', 0)) == 71 and law.startswith('pack(unpack(b))') and len(data) >= 12:
        # the decoder is told the family, the object says bgp-ls whatever it was decoded for
        return 'vpn-rd-dropped'
    if isinstance(x, Label):
        try:
            if x.labels is Labels.NOLABEL:
                return 'no-label-stack'
            if name == 'IPVPN' and not x._has_rd:
                return 'no-rd'
            raw = bytes(x.labels.pack_labels())
            if len(raw) > 3 and raw[:3] == b'\x00\x00\x00':
                return 'label-0-first-of-stack'
        except Exception:  # noqa: BLE001
            pass
    if isinstance(x, Flow) and len(data) >= 256 + 2:
        return 'length>=256'
    if name == 'GenericAttribute' and len(data) >= 4 and data[0] & 0x10 and int.from_bytes(data[2:4], 'big') <= 255:
        return 'explicit-extended-length-flag'
    if name == 'GenericAttribute' and len(data) > 258 and data[0] & 0x10:
        return 'extended-length-flag'
    if name == 'ASPath' and law == 'unpack(pack(x))!=x':
        return 'asn2-packed-vs-asn4-packed'
    if '-differs-after-roundtrip' in law or 'not-deterministic' in law:
        parts = detail.split(' | ')
        if len(parts) == 2:
            return diff_key(parts[0], parts[1])
    if 'raises' in law:
        return detail.split()[-1] if detail else 'raises'
    return 'any'


# ---------------------------------------------------------------------------------------------
# S1: the index model against INET / Label / IPVPN / Route


def build_ip(rec: dict):
    """The real object for an abstract IP-family record, through the class's own `from_cidr`."""
    from exabgp.bgp.message.update.nlri.cidr import CIDR
    from exabgp.bgp.message.update.nlri.inet import INET
    from exabgp.bgp.message.update.nlri.ipvpn import IPVPN
    from exabgp.bgp.message.update.nlri.label import Label
    from exabgp.bgp.message.update.nlri.qualifier import Labels, PathInfo, RouteDistinguisher
    from exabgp.protocol.family import AFI, SAFI

    afi = AFI.from_int(rec['afi'])
    safi = SAFI.from_int(rec['safi'])
    full = bytes.fromhex(rec['pfx']) + bytes((4 if rec['afi'] == 1 else 16) - len(bytes.fromhex(rec['pfx'])))
    cidr = CIDR.create_cidr(full, rec['mask'])
    path = PathInfo.DISABLED if rec['path'] is None else PathInfo(bytes.fromhex(rec['path']))
    if rec['kind'] == 'inet':
        return INET.from_cidr(cidr, afi, safi, path)
    labels = Labels(bytes.fromhex(rec['labels'])) if rec['labels'] else None
    if rec['kind'] == 'label':
        return Label.from_cidr(cidr, afi, safi, path, labels=labels)
    rd = RouteDistinguisher(bytes.fromhex(rec['rd'])) if rec['rd'] is not None else None
    return IPVPN.from_cidr(cidr, afi, safi, path, labels=labels, rd=rd)


def rec_line(op: str, rec: dict) -> str:
    return 'index {} {} {} {} {} {} {} {} {}'.format(
        op, rec['kind'], rec['afi'], rec['safi'], 'none' if rec['path'] is None else rec['path'], rec['labels'] or '-', 'none' if rec['rd'] is None else rec['rd'], rec['mask'], rec['pfx'] or '-'
    )


def gen_rec(rng, kind: str | None = None, afi: int | None = None) -> dict:
    kind = kind or rng.choice(['inet', 'inet', 'label', 'vpn'])
    afi = afi or rng.choice([1, 2])
    bits = 32 if afi == 1 else 128
    mask = rng.choice([0, 1, 7, 8, 9, 24, 31, 32] + ([33, 64, 65, 72, 97, 98, 104, 105, 127, 128] if afi == 2 else []))
    mask = min(mask, bits) if rng.random() < 0.8 else rng.randrange(0, bits + 1)
    n = (mask + 7) // 8
    pfx = bytes(rng.choice([0, 1, 10, 100, 105, 108, 255, rng.randrange(256)]) for _ in range(n))
    path = rng.choice([None, None, '00000000', '00000001', 'ffffffff', '64697362', '6e6f2d70'[:6] + '71', '%08x' % rng.getrandbits(32)])
    safi = {'inet': rng.choice([1, 2]), 'label': 4, 'vpn': 128}[kind]
    labels = ''
    rd = None
    if kind in ('label', 'vpn'):
        k = rng.choice([1, 1, 2, 3])
        labs = [rng.choice([0, 3, 16, 100, 1048575]) for _ in range(k)]
        labels = b''.join(((lab << 4) | (1 if i == k - 1 else 0)).to_bytes(3, 'big') for i, lab in enumerate(labs)).hex()
    if kind == 'vpn':
        rd = rng.choice(['0000fde800000064', '00010a0000010005', '0000000000000000', 'ffffffffffffffff', '%016x' % rng.getrandbits(64)])
    return {'kind': kind, 'afi': afi, 'safi': safi, 'path': path, 'labels': labels, 'rd': rd, 'mask': mask, 'pfx': pfx.hex()}


def mutate_key(rng, rec: dict) -> tuple[dict, str]:
    """A record that differs from `rec` in exactly one of: family, path-id, prefix (mask or bytes), RD."""
    r = dict(rec)
    opts = ['path', 'pfx', 'mask']
    if rec['kind'] == 'inet':
        opts.append('safi')
    opts.append('afi-same-bytes')
    if rec['kind'] == 'vpn' and rec['rd'] is not None:
        opts.append('rd')
    what = rng.choice(opts)
    if what == 'path':
        choices = [None, '00000000', '00000001', '%08x' % rng.getrandbits(32)]
        r['path'] = rng.choice([c for c in choices if c != rec['path']])
    elif what == 'pfx':
        if not rec['pfx']:
            r['mask'] = 8
            r['pfx'] = '0a'
            what = 'mask'
        else:
            b = bytearray(bytes.fromhex(rec['pfx']))
            i = rng.randrange(len(b))
            b[i] ^= 1 << rng.randrange(8)
            r['pfx'] = bytes(b).hex()
    elif what == 'mask':
        bits = 32 if rec['afi'] == 1 else 128
        n = (rec['mask'] + 7) // 8
        cands = [m for m in range(max(0, 8 * n - 7), min(bits, 8 * n) + 1) if m != rec['mask'] and (m + 7) // 8 == n]
        if not cands:
            return mutate_key(rng, rec)
        r['mask'] = rng.choice(cands)
    elif what == 'safi':
        r['safi'] = 3 - rec['safi']
    elif what == 'afi-same-bytes':
        if rec['afi'] == 1:
            r['afi'] = 2
        elif rec['mask'] <= 32:
            r['afi'] = 1
        else:
            return mutate_key(rng, rec)
    elif what == 'rd':
        b = bytearray(bytes.fromhex(rec['rd']))
        b[rng.randrange(8)] ^= 1 << rng.randrange(8)
        r['rd'] = bytes(b).hex()
    return r, what


def collision_pairs(rng) -> list[tuple[str, dict, dict]]:
    """Instances of the shapes that collided under the encoding before commit 202850b (`indexOld` in
    the model; the examples of Props/C15.lean): regression cases, they must be told apart now."""
    out = []
    for kind, safi in (('inet', 1), ('inet', 2), ('label', 4)):
        m = rng.randrange(65, 73)
        p9 = bytes(rng.randrange(256) for _ in range(9))
        a = {'kind': kind, 'afi': 2, 'safi': safi, 'path': None, 'labels': '', 'rd': None, 'mask': m, 'pfx': p9.hex()}
        b = {'kind': kind, 'afi': 2, 'safi': safi, 'path': DISA.hex(), 'labels': '', 'rd': None, 'mask': 98, 'pfx': (b'led' + bytes([m]) + p9).hex()}
        if kind == 'label':
            lab = ((100 << 4) | 1).to_bytes(3, 'big').hex()
            a['labels'] = lab
            b['labels'] = lab
        out.append(('disa', a, b))
    # vpn: 'disabled' + [64+m] + rd + pfx(1)  ==  'disa' + [98 = 64+34] + rd'(8) + pfx'(5)
    m = rng.randrange(1, 9)
    rd = bytes(rng.randrange(256) for _ in range(8))
    p1 = bytes([rng.randrange(256)])
    lab = ((16 << 4) | 1).to_bytes(3, 'big').hex()
    a = {'kind': 'vpn', 'afi': 2, 'safi': 128, 'path': None, 'labels': lab, 'rd': rd.hex(), 'mask': m, 'pfx': p1.hex()}
    b = {'kind': 'vpn', 'afi': 2, 'safi': 128, 'path': DISA.hex(), 'labels': lab, 'rd': (b'led' + bytes([64 + m]) + rd[:4]).hex(), 'mask': 34, 'pfx': (rd[4:] + p1).hex()}
    out.append(('disa', a, b))
    # 'no-pi' (path-id 0.0.0.0) against path-id 'no-p' and mask 105 = ord('i')
    for kind, safi in (('label', 4),):
        m = rng.randrange(97, 105)
        p13 = bytes(rng.randrange(256) for _ in range(13))
        a = {'kind': kind, 'afi': 2, 'safi': safi, 'path': '00000000', 'labels': lab, 'rd': None, 'mask': m, 'pfx': p13.hex()}
        b = {'kind': kind, 'afi': 2, 'safi': safi, 'path': NOP.hex(), 'labels': lab, 'rd': None, 'mask': 105, 'pfx': (bytes([m]) + p13).hex()}
        out.append(('no-pi', a, b))
    # vpn no-pi: 'no-pi' + [64+m] + rd + pfx  ==  'no-p' + [105 = 64+41] + rd'(8) + pfx'(6):  1 + 8 + len(pfx) = 14 → pfx 5 bytes → m in 33..40
    m = rng.randrange(33, 41)
    p5 = bytes(rng.randrange(256) for _ in range(5))
    a = {'kind': 'vpn', 'afi': 2, 'safi': 128, 'path': '00000000', 'labels': lab, 'rd': rd.hex(), 'mask': m, 'pfx': p5.hex()}
    b = {'kind': 'vpn', 'afi': 2, 'safi': 128, 'path': NOP.hex(), 'labels': lab, 'rd': (bytes([64 + m]) + rd[:7]).hex(), 'mask': 41, 'pfx': (rd[7:] + p5).hex()}
    out.append(('no-pi', a, b))
    # RD presence: no RD, mask 72 (9 bytes)  ==  RD (first 8 bytes) + mask 8 (1 byte)
    p9 = bytes(rng.randrange(256) for _ in range(9))
    a = {'kind': 'vpn', 'afi': 2, 'safi': 128, 'path': None, 'labels': lab, 'rd': None, 'mask': 72, 'pfx': p9.hex()}
    b = {'kind': 'vpn', 'afi': 2, 'safi': 128, 'path': None, 'labels': lab, 'rd': p9[:8].hex(), 'mask': 8, 'pfx': p9[8:].hex()}
    out.append(('rd-presence', a, b))
    return out


def key_of(rec: dict) -> tuple:
    return (rec['afi'], rec['safi'], rec['path'], rec['mask'], rec['pfx'], rec['rd'])


def index_stream(ctx: Ctx, book: Book, n: int) -> None:
    from exabgp.bgp.message.update.attribute.collection import AttributeCollection
    from exabgp.rib.route import Route

    rng = ctx.rng
    cases: list[tuple[str, dict, dict]] = []
    for f in sorted((common.VERIF / 'corpus' / 'C15').glob('index-*.json')):
        c = json.loads(f.read_text())
        cases.append(('corpus:' + c['shape'], c['a'], c['b']))
    for _ in range(3 if ctx.tier == 'quick' else 30):
        for shape, a, b in collision_pairs(rng):
            cases.append(('predicted:' + shape, a, b))
    for _ in range(n):
        a = gen_rec(rng)
        x = rng.random()
        if x < 0.5:
            b, what = mutate_key(rng, a)
            cases.append(('differ:' + what, a, b))
        elif x < 0.7 and a['kind'] != 'inet':
            b = dict(a)
            b['labels'] = ((rng.choice([5, 17, 1000]) << 4) | 1).to_bytes(3, 'big').hex()
            cases.append(('same-key-other-labels', a, b))
        elif x < 0.8:
            cases.append(('same', a, dict(a)))
        else:
            cases.append(('independent', a, gen_rec(rng, a['kind'], a['afi'])))
    lines = []
    for _, a, b in cases:
        for r in (a, b):
            lines += [rec_line('idx', r), rec_line('route', r), rec_line('hash', r), rec_line('wf', r), rec_line('old', r)]
    model = common.run_driver('drv_index', lines) if ctx.driver_ok else None
    for i, (tag, a, b) in enumerate(cases):
        if ctx.time_left() < 0:
            ctx.notes.append('budget reached in the index stream')
            break
        ctx.evaluations += 1
        ctx.count('index:' + tag.split(':')[0] + ':' + a['kind'])
        try:
            xa, xb = build_ip(a), build_ip(b)
        except Exception as e:  # noqa: BLE001
            ctx.count('index:unbuildable:' + type(e).__name__)
            continue
        ia, ib = bytes(xa.index()), bytes(xb.index())
        ra, rb = Route(xa, AttributeCollection()).index(), Route(xb, AttributeCollection()).index()
        eq = bool(xa == xb)
        ne = bool(xa != xb)
        heq = hash(xa) == hash(xb)
        if model is not None:
            ma = list(model[10 * i : 10 * i + 5])
            mb = list(model[10 * i + 5 : 10 * i + 10])
            for rec, m, idx, ridx in ((a, ma, ia, ra), (b, mb, ib, rb)):
                if m[3] != '1':
                    ctx.disagreements.append(Disagreement('index-wf', rec, 'model says the record is outside the guard', 'the class built it'))
                if m[0] != hx(idx):
                    ctx.disagreements.append(Disagreement('index', rec, m[0], hx(idx)))
                if m[1] != hx(ridx):
                    ctx.disagreements.append(Disagreement('route-index', rec, m[1], hx(ridx)))
            if (ma[0] == mb[0]) != eq:
                ctx.disagreements.append(Disagreement('nlri-eq', [a, b], ma[0] == mb[0], eq))
            if (ma[2] == mb[2]) != heq:
                ctx.disagreements.append(Disagreement('nlri-hash', [a, b], f'hash keys equal: {ma[2] == mb[2]}', f'hashes equal: {heq}'))
            if tag.startswith(('predicted', 'corpus')) and key_of(a) != key_of(b):
                ctx.count('index:collided-before-202850b:' + str(ma[4] == mb[4]))
        cls = type(xa).__name__
        replay = {'stream': 'index', 'a': a, 'b': b}
        cp = tag.startswith('corpus')
        # the oracle: the property itself, on the implementation
        if eq == ne:
            book.add('index-pair', cls, '==-and-!=-agree', 'any', ia, f'== is {eq} and != is {ne}', replay, corpus=cp)
        if eq != (ia == ib):
            book.add('index-pair', cls, '==-is-not-index-equality', 'any', ia, f'== {eq}, index equal {ia == ib}', replay, corpus=cp)
        if eq and not heq and key_of(a) == key_of(b):
            shape = 'labels-differ' if a['labels'] != b['labels'] else tag.split(':')[-1]
            book.add('index-pair', cls, 'equal-but-different-hash', shape, ia, f'{xa} == {xb} but hash differs', replay, corpus=cp)
        if key_of(a) != key_of(b):
            if ia == ib or ra == rb:
                shape = tag.split(':')[-1] if tag.startswith(('predicted', 'corpus')) else classify_collision(a, b)
                book.add('index-pair', cls, 'distinct-routes-share-index', shape, ia, f'{xa} | {xb} share index {hx(ia)} (== {eq}, same hash {heq}, same Route.index {ra == rb})', replay, corpus=cp)
                ctx.nontrivial(['collision', a, b])
            else:
                ctx.nontrivial(['distinct', tag, a['kind'], a['afi'], a['path'] is None, b['path'] is None, a['mask'], b['mask']])
        else:
            if ia != ib or ra != rb:
                book.add('index-pair', cls, 'same-route-different-index', 'any', ia, f'{xa} | {xb}', replay, corpus=cp)
            ctx.nontrivial(['same', a['kind'], a['afi'], a['mask'], a['path'], a['labels'] != b['labels']])
        ctx.sample({'stream': 'index', 'tag': tag, 'a': str(xa), 'b': str(xb), 'index_a': hx(ia), 'index_b': hx(ib), '==': eq, 'same_hash': heq}, cap=4)


def classify_collision(a: dict, b: dict) -> str:
    paths = {a['path'], b['path']}
    if DISA.hex() in paths:
        return 'disa'
    if NOP.hex() in paths:
        return 'no-pi'
    if (a['rd'] is None) != (b['rd'] is None):
        return 'rd-presence'
    return 'other'


# ---------------------------------------------------------------------------------------------
# S2: the framing model against every registered decoder


def family_cfg() -> list[tuple[int, int, str, str]]:
    from harness.tables.registry import registries

    fams = registries()['families']
    lines = [f'framing kind {a} {s}' for a, s, _ in fams]
    kinds = common.run_driver('drv_index', lines)
    return [(a, s, k, kind) for (a, s, k), kind in zip(fams, kinds)]


def synth_frames(rng, afi: int, safi: int, kind: str, addpath: bool) -> list[bytes]:
    """Canonical frames with arbitrary payload (most are refused at value level by typed decoders;
    the generic / unknown route types keep them)."""
    out = []

    def rb(n: int) -> bytes:
        return bytes(rng.randrange(256) for _ in range(n))

    pre = rb(4) if addpath else b''
    if kind == 'prefixBits':
        bits = 32 if afi == 1 else 128
        for m in (0, 1, 8, 24, bits - 1, bits):
            if safi in (4, 128):
                lab = ((rng.choice([3, 16, 1048575]) << 4) | 1).to_bytes(3, 'big')
                rd = rb(8) if safi == 128 else b''
                total = 24 + 8 * len(rd) + m
                out.append(pre + bytes([total]) + lab + rd + rb((m + 7) // 8))
            else:
                out.append(pre + bytes([m]) + rb((m + 7) // 8))
    elif kind == 'typeLen8':
        for ty in (1, 2, 3, 4, 5, 6, 7, 8, 0, 255):
            for ln in (0, 1, 12, 23, 33, 255):
                out.append(bytes([ty, ln]) + rb(ln))
    elif kind == 'mup':
        for arch, code in ((1, 1), (1, 2), (1, 3), (1, 4), (1, 5), (2, 1), (0, 0), (255, 65535)):
            for ln in (0, 8, 13, 25, 255):
                out.append(bytes([arch]) + code.to_bytes(2, 'big') + bytes([ln]) + rb(ln))
    elif kind == 'type16Len16':
        for code in (1, 2, 3, 4, 5, 6, 7, 0, 65535):
            for ln in (0, 7, 8, 9, 13, 40, 300):
                out.append(code.to_bytes(2, 'big') + ln.to_bytes(2, 'big') + rb(ln))
    elif kind == 'flow':
        for ln in (0, 1, 5, 239, 240, 241, 255, 256, 257, 300, 4094):
            # a valid rule repeated: destination-port =N (type 5) entries
            body = bytearray()
            body += bytes([5])
            while len(body) + 2 <= ln - 2:
                body += bytes([0x01, rng.randrange(256)])
            while len(body) + 2 <= ln:
                body += bytes([0x81, rng.randrange(256)])
                break
            if len(body) != ln:
                body = bytearray(rb(ln))
            if ln < 240:
                out.append(bytes([ln]) + bytes(body))
            else:
                out.append(bytes([0xF0 | (ln >> 8), ln & 0xFF]) + bytes(body))
        out.append(bytes([0xF0, 5]) + bytes([5, 0x81, 80, 0, 0]))  # extended form used for a short rule
    elif kind == 'vpls':
        for ln in (0, 16, 17, 18, 20):
            out.append(ln.to_bytes(2, 'big') + rb(ln))
    elif kind == 'rtc':
        out.append(b'\x00')
        for bits in (1, 31, 32, 33, 48, 64, 95, 96, 97, 255):
            body = rb((bits + 7) // 8)
            out.append(bytes([bits]) + body)
            out.append(bytes([bits]) + (body + bytes(12))[:12])
        out.append(bytes([96]) + rb(4) + bytes([0xC0 | rng.randrange(3)]) + rb(7))
    elif kind == 'srPolicy':
        for bits in (0, 95, 96, 97, 192, 255):
            out.append(bytes([bits]) + rb(bits // 8))
    return out


def framing_stream(ctx: Ctx, book: Book, pool: dict, reps: int) -> None:
    """pool: (afi, safi, addpath) → list of bytes ExaBGP's own encoder produced for one NLRI."""
    from exabgp.bgp.message import Action
    from exabgp.bgp.message.update.nlri.nlri import NLRI
    from exabgp.protocol.family import AFI, SAFI

    from harness import roundtriprig as R

    rng = ctx.rng
    cfgs = family_cfg()
    cases = []  # (afi, safi, cls, kind, addpath, data, origin, first, second)
    for afi, safi, cls, kind in cfgs:
        if kind == 'none':
            ctx.disagreements.append(Disagreement('framing-kind', [afi, safi, cls], 'no framing kind', 'registered'))
            continue
        for addpath in (False, True):
            if addpath and kind != 'prefixBits':
                continue
            own = sorted(set(pool.get((afi, safi, addpath), [])), key=lambda b: (len(b), b))
            pick = own if len(own) <= 40 * reps else own[:10] + rng.sample(own[10:], 40 * reps - 10)
            for b in pick:
                cases.append((afi, safi, cls, kind, addpath, b, 'own', b, b''))
                cases.append((afi, safi, cls, kind, addpath, b + bytes(rng.randrange(256) for _ in range(rng.randrange(1, 6))), 'own+junk', b, None))
                cases.append((afi, safi, cls, kind, addpath, b[: rng.randrange(len(b))] if len(b) > 0 else b'', 'own-truncated', None, None))
            for _ in range(min(len(own) * 2, 30 * reps)):
                b1, b2 = rng.choice(own), rng.choice(own)
                cases.append((afi, safi, cls, kind, addpath, b1 + b2, 'own+own', b1, b2))
            for _ in range(reps):
                for fr in synth_frames(rng, afi, safi, kind, addpath):
                    cases.append((afi, safi, cls, kind, addpath, fr, 'synthetic', None, None))
                    if rng.random() < 0.3:
                        cases.append((afi, safi, cls, kind, addpath, fr + bytes([rng.randrange(256)]) * rng.randrange(1, 4), 'synthetic+junk', None, None))
    lines = [f'framing split {kind} {afi} {safi} {int(ap)} {hx(data)}' for afi, safi, _c, kind, ap, data, *_ in cases]
    model = common.run_driver('drv_index', lines) if ctx.driver_ok else [None] * len(lines)
    pack_lines = []
    pack_idx = []
    for i, m in enumerate(model):
        if m and m.startswith('ok'):
            pack_idx.append(i)
            pack_lines.append(f'framing pack {cases[i][3]} {m.split()[2]}')
    packs = dict(zip(pack_idx, common.run_driver('drv_index', pack_lines))) if pack_lines else {}
    for i, (afi, safi, cls, kind, ap, data, origin, first, second) in enumerate(cases):
        if ctx.time_left() < 0:
            ctx.notes.append('budget reached in the framing stream')
            break
        ctx.evaluations += 1
        ctx.count(f'framing:{kind}:{origin}')
        A, S = AFI.from_int(afi), SAFI.from_int(safi)
        try:
            x, rest = NLRI.unpack_nlri(A, S, data, Action.ANNOUNCE, ap, R.Negotiated.UNSET)
            rest = bytes(rest)
            res = 'ok'
        except Exception as e:  # noqa: BLE001
            x, rest, res = None, b'', R.err_name(e)
        m = model[i]
        fam = f'{afi}/{safi}'
        if m is not None:
            if m == 'none' and res == 'ok':
                ctx.disagreements.append(Disagreement('framing', {'family': fam, 'kind': kind, 'addpath': ap, 'data': hx(data)}, 'none', f'ok consumed {len(data) - len(rest)}'))
            elif m.startswith('ok') and res == 'ok':
                _, mc, ms, mr = m.split()
                if hx(rest) != mr:
                    ctx.disagreements.append(Disagreement('framing', {'family': fam, 'kind': kind, 'addpath': ap, 'data': hx(data)}, f'consumed {mc}', f'consumed {hx(data[: len(data) - len(rest)])}'))
                elif x is not NLRI.INVALID:
                    kept = getattr(x, '_packed', None)
                    # BGP-LS-VPN keeps the RD apart (`route_d`) and gives it back in pack_nlri: compared through pack
                    split_state = kind == 'type16Len16' and safi == 72
                    if kept is not None and hx(bytes(kept)) != ms and not getattr(x, '_packed_stale', False) and not split_state:
                        ctx.disagreements.append(Disagreement('framing-stored', {'family': fam, 'kind': kind, 'data': hx(data)}, ms, hx(bytes(kept))))
                    try:
                        p = hx(bytes(x.pack_nlri(R.Sess.get(ap))))
                    except Exception as e:  # noqa: BLE001
                        p = 'none'
                    if ap and not R.Sess.get(True).addpath.send(A, S):
                        p = 'none'  # pack_nlri drops the path-id for a family without ADD-PATH
                    if packs.get(i) is not None and p != packs[i] and not (p == 'none' or packs[i] == 'none'):
                        ctx.disagreements.append(Disagreement('framing-pack', {'family': fam, 'kind': kind, 'data': hx(data)}, packs[i], p))
                ctx.nontrivial(['framing', fam, kind, ap, origin, len(data), len(rest)])
            elif m.startswith('ok') and res != 'ok' and origin.startswith('own') and origin != 'own-truncated' and kind != 'vpls':
                # the model only claims the framing level; bytes ExaBGP produced itself must also pass the value level
                pass
        # oracle, independent of the model: whatever the decoder ACCEPTED (also a frame the model refuses), encoded
        # again, is taken back by the decoder as that one object and nothing else
        if res == 'ok' and x is not None and x is not NLRI.INVALID:
            try:
                again = bytes(x.pack_nlri(R.Sess.get(ap)))
            except Exception:  # noqa: BLE001
                again = None
            if again and not (ap and not R.Sess.get(True).addpath.send(A, S)):
                what = None
                try:
                    y, rest2 = NLRI.unpack_nlri(A, S, again, Action.ANNOUNCE, ap, R.Negotiated.UNSET)
                    if y is NLRI.INVALID:
                        what = 'its own encoding is decoded as INVALID'
                    elif bytes(rest2):
                        what = f'its own encoding {hx(again)} is decoded as one NLRI followed by {len(bytes(rest2))} more bytes'
                    elif y.index() != x.index():
                        what = f'its own encoding {hx(again)} is decoded as another route'
                except Exception as e:  # noqa: BLE001
                    what = f'its own encoding {hx(again)} is refused ({R.err_name(e)})'
                if what:
                    ctx.count('framing:decoded-object-does-not-round-trip')
                    book.add('roundtrip-law', cls, 'framing:decode(encode(decoded))', origin.split('+')[0], data, f'family {fam}: decoded from {hx(data[: len(data) - len(rest)])[:80]}, {what}', {'stream': 'framing', 'afi': afi, 'safi': safi, 'addpath': ap, 'data': hx(data)})
        # what ExaBGP encoded must be taken back, one NLRI at a time
        if first is not None and origin in ('own', 'own+own'):
            what = None
            if res != 'ok':
                what = f'decoder raised {res}'
            elif x is NLRI.INVALID:
                what = 'decoder returned INVALID'
            else:
                want_rest = data[len(first) :]
                if rest != want_rest:
                    what = f'consumed {len(data) - len(rest)} bytes instead of {len(first)}'
            if what:
                shape = {'own': 'alone', 'own+junk': 'followed-by-bytes', 'own+own': 'followed-by-nlri'}[origin]
                if kind == 'flow' and len(first) >= 258:
                    shape = 'length>=256'
                book.add('roundtrip-law', cls, 'framing:decode-what-was-encoded', shape, data, f'family {fam}: {what} on {hx(data)[:120]}', {'stream': 'framing', 'afi': afi, 'safi': safi, 'addpath': ap, 'data': hx(data), 'first': hx(first)})
        ctx.sample({'stream': 'framing', 'family': fam, 'kind': kind, 'origin': origin, 'data': hx(data)[:80], 'impl': res if res != 'ok' else f'consumed {len(data) - len(rest)}', 'model': (m or '')[:60]}, cap=7)


# ---------------------------------------------------------------------------------------------
# S3–S5: objects of every class from the three sources; the laws


TEXT_ROUTES = [
    'route {p} next-hop {nh}',
    'route {p} next-hop {nh} med {u32} local-preference {u32} origin {origin}',
    'route {p} next-hop {nh} as-path [ {asns} ]',
    'route {p} next-hop {nh} as-path [ {asns} ( {asns} ) ]',
    'route {p} next-hop {nh} community [ {comms} ]',
    'route {p} next-hop {nh} large-community [ {lcomms} ]',
    'route {p} next-hop {nh} extended-community [ {ecomms} ]',
    'route {p} next-hop {nh} aggregator ( {asn}:{ip4} ) atomic-aggregate',
    'route {p} next-hop {nh} originator-id {ip4} cluster-list [ {ip4} {ip4} ]',
    'route {p} next-hop {nh} aigp {u32}',
    'route {p} next-hop {nh} path-information {ip4}',
    'route {p} next-hop {nh} label {label}',
    'route {p} next-hop {nh} label [ {label} {label} ]',
    'route {p} next-hop {nh} rd {rd} label {label}',
    'route {p} next-hop {nh} rd {rd}',
    'route {p} next-hop {nh} rd {rd} label {label} path-information {ip4}',
    'route {p} next-hop {nh} attribute [ {generic} 0x{hexv} ]',
    'route {p} next-hop {nh} bgp-prefix-sid [ {u16}, [ ( {label},{u16} ) ] ]',
    'route 10.1.2.0/24 next-hop {ip4} split /{split}',
    'vpls rd {rd} endpoint {u16} base {base} offset {u16} size {size} next-hop {ip4}',
    'flow route {{ match {{ destination {p4}; source {p4}; }} then {{ discard; }} }}',
    'flow route {{ match {{ destination {p4}; protocol [ =tcp =udp ]; destination-port [ >8080&<8088 =3128 ]; source-port >1024; tcp-flags [ syn rst&!fin ]; fragment [ first-fragment last-fragment ]; dscp [ =10 =20 ]; packet-length [ >200&<300 >400&<500 ]; icmp-type [ unreachable echo-request ]; icmp-code [ host-unreachable network-unreachable ]; }} then {{ rate-limit 9600; }} }}',
    'flow route {{ match {{ destination {p4}; destination-port [ {manyports} ]; }} then {{ redirect {asn16}:{u16}; }} }}',
    'flow route {{ rd {rd}; match {{ source {p4}; port =80; }} then {{ community [ {comms} ]; mark {dscp}; action sample-terminal; }} }}',
    'flow route {{ match {{ destination {p6}/0; source {p6}/0; next-header =tcp; flow-label >100; }} then {{ redirect-to-nexthop; }} }}',
]


def gen_text(rng, tpl: str) -> str:
    v6 = rng.random() < 0.35 and not tpl.startswith(('vpls', 'flow'))
    bits = 128 if v6 else 32

    def ip4() -> str:
        return rng.choice(['10.0.0.1', '0.0.0.0', '255.255.255.255', '192.168.1.254', '1.2.3.4'])

    def prefix() -> str:
        m = rng.choice([0, 1, 8, 9, 24, 31, 32] + ([33, 64, 127, 128] if v6 else []))
        m = min(m, bits)
        if v6:
            base = rng.choice(['2001:db8::', '::', 'ffff:ffff:ffff:ffff:ffff:ffff:ffff:ffff', '6c65:6448:1:2::'])
        else:
            base = rng.choice(['10.0.0.0', '0.0.0.0', '255.255.255.255', '192.168.0.128'])
        import ipaddress

        net = ipaddress.ip_network(f'{base}/{m}', strict=False)
        return str(net)

    def p4() -> str:
        import ipaddress

        return str(ipaddress.ip_network('%d.%d.%d.0/%d' % (rng.randrange(1, 224), rng.randrange(256), rng.randrange(256), rng.choice([0, 8, 24, 25, 32])), strict=False))

    def asns() -> str:
        return ' '.join(str(rng.choice([1, 23456, 65000, 65535, 65536, 4200000000, 4294967295])) for _ in range(rng.choice([1, 1, 2, 5, 20])))

    def comms() -> str:
        return ' '.join(rng.choice(['65000:1', '0:0', '65535:65535', 'no-export', 'no-advertise', 'no-peer', 'blackhole', '1:65535']) for _ in range(rng.choice([1, 2, 4])))

    def lcomms() -> str:
        return ' '.join('%d:%d:%d' % tuple(rng.choice([0, 1, 65536, 4294967295]) for _ in range(3)) for _ in range(rng.choice([1, 2, 3])))

    def ecomms() -> str:
        opts = ['target:65000:1', 'target:1.2.3.4:5', 'target:4200000000:7', 'origin:65000:100', 'origin:10.0.0.1:1', 'target:65000:4294967295', 'l2info:19:0:1500:111', 'redirect:65000:1', 'rate-limit:9600', 'mup:10:10', '0x0002fde800000001', 'bandwidth:65000:1000']
        return ' '.join(rng.choice(opts) for _ in range(rng.choice([1, 2, 3])))

    def rd() -> str:
        return rng.choice(['65000:1', '1.2.3.4:5', '4200000000:1', '0:0', '65535:4294967295'])

    ports = ' '.join('=%d' % rng.randrange(1, 65536) for _ in range(rng.choice([2, 60, 79, 80, 90, 130])))
    vals = {
        'p': prefix(),
        'p4': p4(),
        'p6': rng.choice(['2001:db8::/32', '::/0', '2001:db8:1:2::/64', 'ffff::/16']),
        'nh': '2001:db8::1' if v6 else ip4(),
        'ip4': ip4(),
        'u32': str(rng.choice([0, 1, 100, 65536, 4294967295])),
        'u16': str(rng.choice([0, 1, 255, 256, 65535])),
        'asn16': str(rng.choice([1, 65000, 65535])),
        'asn': str(rng.choice([1, 65000, 65535, 65536, 4294967295])),
        'origin': rng.choice(['igp', 'egp', 'incomplete']),
        'asns': asns(),
        'comms': comms(),
        'lcomms': lcomms(),
        'ecomms': ecomms(),
        'label': str(rng.choice([0, 3, 16, 100, 1048575])),
        'rd': rd(),
        'generic': rng.choice(['0x63 0xe0', '0xfe 0xe0', '0x63 0x80', '0xff 0xe0']),
        'hexv': rng.choice(['00', '0000000100000002000000030000000a0000000b0000000c', 'ff' * 255, 'ab' * 256]),
        'split': str(rng.choice([24, 25, 26])),
        'base': str(rng.choice([0, 1, 10702, 1048567])),
        'size': str(rng.choice([0, 1, 8])),
        'dscp': str(rng.choice([0, 10, 63])),
        'manyports': ports,
    }
    out = tpl
    while True:
        m = re.search(r'\{([a-z0-9]+)\}', out)
        if not m:
            break
        k = m.group(1)
        v = vals[k]
        if k in ('ip4', 'label', 'asns', 'u16'):
            vals_regen = {'ip4': ip4, 'asns': asns}
            if k in vals_regen:
                v = vals_regen[k]()
        out = out[: m.start()] + v + out[m.end() :]
    return out.replace('{{', '{').replace('}}', '}')


class Cover:
    def __init__(self) -> None:
        self.nlri: dict[str, dict[str, int]] = {}
        self.attr: dict[str, dict[str, int]] = {}

    def hit(self, table: dict, cls: str, src: str) -> None:
        table.setdefault(cls, {}).setdefault(src, 0)
        table[cls][src] += 1


def first_fail(fails: list) -> Any:
    return fails[0] if fails else None


def object_streams(ctx: Ctx, book: Book, cover: Cover, pool: dict, by_value: dict, extra_factory: int, n_text: int) -> None:
    from exabgp.bgp.message.update.attribute.attribute import Attribute
    from exabgp.bgp.message.update.nlri.nlri import NLRI

    from harness import roundtriprig as R

    rng = ctx.rng
    routes_by_family: dict = {}

    def do_nlri(x: NLRI, src: str, origin: dict) -> None:
        cp = src.endswith('corpus')
        cls = type(x).__name__
        fam = (int(x.afi), int(x.safi))
        ctx.evaluations += 1
        ctx.count(f'nlri:{src}')
        cover.hit(cover.nlri, f'{cls} {x.afi}/{x.safi}', src)
        fails, facts = R.nlri_laws(x)
        if 'skipped' in facts:
            ctx.count('nlri:skipped:path-id-not-sendable')
            return
        b = facts.get('bytes')
        if b is not None and not fails:
            pool.setdefault((fam[0], fam[1], bool(facts.get('addpath'))), []).append(b)
            # the same value reached through another source must be the same object by ==, hash, index, renderings
            key = (fam, bool(facts.get('addpath')), b)
            other = by_value.get(key)
            if other is None:
                by_value[key] = (src, x)
            elif other[0].split(':')[0] != src.split(':')[0]:
                y = other[1]
                ctx.count('nlri:cross-source-pair')
                try:
                    bad = None
                    if not (x == y) or (x != y):
                        bad = '=='
                    elif hash(x) != hash(y):
                        bad = 'hash'
                    elif x.index() != y.index():
                        bad = 'index'
                    if bad:
                        book.add('roundtrip-law', cls, f'same-bytes-different-{bad}-across-sources', f'{other[0].split(":")[0]}-vs-{src.split(":")[0]}', b, f'{x} | {y}', {'stream': 'nlri', 'afi': fam[0], 'safi': fam[1], 'addpath': bool(facts.get('addpath')), 'data': hx(b)})
                except Exception as e:  # noqa: BLE001
                    book.add('roundtrip-law', cls, 'cross-source-compare-raises', R.err_name(e), b, '', {'stream': 'nlri', 'afi': fam[0], 'safi': fam[1], 'data': hx(b)})
        if 'class-change' in facts:
            ctx.count('note:class-changes:' + facts['class-change'])
        f = first_fail(fails)
        if f is not None:
            data = f.data or (b or b'')
            book.add('roundtrip-law', cls, f.law, shape_of(x, f.law, f.detail, data), data, f'{src}: {f.detail}', {'stream': 'nlri', 'afi': fam[0], 'safi': fam[1], 'addpath': bool(facts.get('addpath')), 'data': hx(data), 'origin': origin}, corpus=cp)
        else:
            ctx.nontrivial(['nlri', cls, fam, hx(b or b'')])
            ctx.sample({'stream': 'nlri', 'source': src, 'class': cls, 'object': str(x)[:100], 'bytes': hx(b or b'')[:80]}, cap=12)

    def do_attr(a: Attribute, src: str, origin: dict, asn4: bool = True, component: str | None = None) -> None:
        cls = component or type(a).__name__
        ctx.evaluations += 1
        ctx.count(f'attr:{src}')
        if type(a).__name__ == 'NextHop' and len(bytes(getattr(a, '_packed', b'') or b'')) != 4:
            # an IPv6 next hop is an object of the configuration: it travels inside MP_REACH_NLRI, never as
            # attribute 3 (which is four bytes: RFC 4271 5.1.3)
            ctx.count('attr:skipped:ipv6-next-hop-travels-in-mp-reach')
            return
        if type(a).__name__ == 'AS4Path':
            # AS4_PATH only exists between a 2-octet speaker and us (RFC 6793 4.2.2): on a 4-octet session it is
            # not sent and is dropped on receipt
            asn4 = False
        cover.hit(cover.attr, cls, src)
        if component is None:
            for part in list(getattr(a, 'communities', None) or []) + list(getattr(a, 'sr_attrs', None) or []):
                cover.hit(cover.attr, type(part).__name__, src)
        fails, facts = R.attr_laws(a, asn4)
        b = facts.get('bytes', b'')
        if component and 'decoded' in facts and not fails:
            d = facts['decoded']
            got = [type(c).__name__ for c in (getattr(d, 'communities', None) or getattr(d, 'sr_attrs', None) or [])]
            if got != [component]:
                ctx.count(f'note:component-class-changes:{component}->{",".join(got)}')
        f = first_fail(fails)
        if f is not None and f.law == 'pack-raises' and f.detail == 'NotImplementedError':
            book.no_encoder.add(cls)
            return
        if f is not None:
            data = f.data or b
            book.add('roundtrip-law', cls, f.law, shape_of(a, f.law, f.detail, data), data, f'{src}: {f.detail}', {'stream': 'attr', 'data': hx(data), 'asn4': asn4, 'origin': origin}, corpus=src.endswith('corpus'))
        elif b:
            ctx.nontrivial(['attr', cls, hx(b)])
            ctx.sample({'stream': 'attr', 'source': src, 'class': cls, 'object': str(a)[:100], 'bytes': hx(b)[:80]}, cap=16)
            # canonical bytes from the encoder: decode twice, re-encode
            f2, _ = R.attr_bytes_laws(b, asn4)
            if f2:
                book.add('roundtrip-law', cls, 'bytes:' + f2[0].law, shape_of(a, f2[0].law, f2[0].detail, b), b, f2[0].detail, {'stream': 'attr-bytes', 'data': hx(b), 'asn4': asn4})

    def do_route(r: Any, src: str, origin: dict) -> None:
        do_nlri(r.nlri, src, origin)
        nh_afi = getattr(r.nexthop, 'afi', None)
        same_afi = nh_afi is None or int(r.nlri.afi) not in (1, 2) or int(nh_afi) in (0, int(r.nlri.afi))
        if R.sendable(r.nlri) and not R.has_path(r.nlri) and same_afi and not R.nlri_laws(r.nlri)[0]:
            routes_by_family.setdefault((str(r.nlri.afi), str(r.nlri.safi)), []).append(r)
        for _code, a in r.attributes.items():
            if R.is_wire_attribute(a):
                do_attr(a, src, origin)

    # -- corpus first
    for f in sorted((common.VERIF / 'corpus' / 'C15').glob('text-*.json')):
        c = json.loads(f.read_text())
        for r in R.api_routes(c['cmd']):
            do_route(r, 'text:corpus', {'cmd': c['cmd']})
    for f in sorted((common.VERIF / 'corpus' / 'C15').glob('nlri-*.json')):
        c = json.loads(f.read_text())
        replay_nlri_bytes(ctx, book, cover, c, 'decode:corpus', pool)
    for f in sorted((common.VERIF / 'corpus' / 'C15').glob('attr-*.json')):
        c = json.loads(f.read_text())
        replay_attr_bytes(ctx, book, cover, c, 'decode:corpus')

    # -- source 1: the text grammar
    for fn, r, _nb in R.load_conf_routes():
        do_route(r, 'text:conf', {'file': fn, 'route': str(r)[:200]})
    for fn, kind, payload in R.ci_lines():
        if kind == 'cmd':
            for r in R.api_routes(payload):
                do_route(r, 'text:ci-cmd', {'file': fn, 'cmd': payload[:300]})
    ok = 0
    for i in range(n_text):
        if ctx.time_left() < 20:
            break
        tpl = TEXT_ROUTES[i % len(TEXT_ROUTES)]
        cmd = 'announce ' + gen_text(rng, tpl)
        routes = R.api_routes(cmd)
        ctx.count('text:generated:' + ('parsed' if routes else 'refused'))
        ok += bool(routes)
        for r in routes:
            do_route(r, 'text:generated', {'cmd': cmd[:400]})
    ctx.extra['text_generated_parsed'] = ok

    # -- source 2: the factory methods
    skipped = []
    together: dict[bool, list] = {False: [], True: []}  # AS_PATH objects / AGGREGATOR objects the factories gave
    for cls, name, fn, sig in R.factories():
        n = 0
        for kw, res in R.factory_calls(cls, name, fn, sig, rng, extra_factory):
            n += 1
            if isinstance(res, Exception):
                ctx.count('factory:rejected')
                continue
            origin = {'factory': f'{cls.__name__}.{name}', 'args': R.show_args(kw)}
            if type(res).__name__ == 'Flow' and not res.rules:
                ctx.count('factory:empty-flow-container')  # make_flow returns the container that add() fills: no NLRI yet
                continue
            if isinstance(res, NLRI):
                do_nlri(res, 'factory', origin)
            elif R.is_wire_attribute(res):
                do_attr(res, 'factory', origin)
                if type(res).__name__ in ('ASPath', 'AS2Path', 'Aggregator') and len(together[type(res).__name__ == 'Aggregator']) < 40:
                    together[type(res).__name__ == 'Aggregator'].append((res, origin))
                if type(res).__name__ != 'AS4Path' and R.encoding_depends_on_asn4(res):
                    # AS_PATH, AGGREGATOR: a 2-octet session carries them as AS_TRANS + AS4_PATH / AS4_AGGREGATOR
                    # (RFC 6793 4.2.2) and the receiver reconstructs them (4.2.3): the same law, on that session
                    do_attr(res, 'factory:2-octet-session', dict(origin, session='2-octet'), asn4=False)
            else:
                w = R.wrap_component(res)
                if w is not None:
                    do_attr(w, 'factory', origin, component=type(res).__name__)
                    continue
                fs, facts = R.ls_component_laws(res)
                if 'skip' in facts:
                    ctx.count('factory:other-object')
                    continue
                cname = type(res).__name__
                ctx.evaluations += 1
                ctx.count('attr:factory:bgp-ls-tlv')
                cover.hit(cover.attr, cname, 'factory')
                if fs:
                    f = fs[0]
                    book.add('roundtrip-law', cname, f.law, shape_of(res, f.law, f.detail, f.data), f.data, f'factory: {f.detail}', {'stream': 'attr-bytes', 'data': hx(f.data), 'origin': origin})
                else:
                    ctx.nontrivial(['ls-tlv', cname, hx(facts['bytes'])])
        if n == 0:
            skipped.append(f'{cls.__name__}.{name}')
    ctx.extra['factories_not_callable_by_type'] = skipped

    # -- source 2b: AS_PATH and AGGREGATOR in one UPDATE (their decoders look at each other's AS4_ companions)
    for path, po in together[False]:
        for agg, ao in together[True]:
            for asn4 in (True, False):
                ctx.evaluations += 1
                ctx.count('attr:together')
                try:
                    fs = R.together_laws([path, agg], asn4)
                except Exception as e:  # noqa: BLE001
                    fs = [R.LawFail('together:harness', R.err_name(e))]
                if fs and fs[0].law == 'pack-raises':
                    ctx.count('attr:together:not-sendable-alone')  # the single-attribute law already says so
                    continue
                if fs:
                    f = fs[0]
                    book.add('roundtrip-law', 'ASPath+Aggregator', f.law, 'asn4' if asn4 else 'asn2', f.data, f'factory: {f.detail}', {'stream': 'attr-together', 'data': hx(f.data), 'asn4': asn4, 'origin': {'path': po, 'aggregator': ao}})
                else:
                    ctx.nontrivial(['together', str(path), str(agg), asn4])

    # -- source 3: decoding (captures shipped with the project; what the encoder produced is re-decoded inside the laws)
    message_stream(ctx, book, cover, do_nlri, do_attr)
    multi_nlri_stream(ctx, book, routes_by_family, 6 if ctx.tier == 'quick' else 60)


def multi_nlri_stream(ctx: Ctx, book: Book, routes_by_family: dict, per_family: int) -> None:
    """Several routes of one family with the same attributes in ONE UpdateCollection: every message
    the encoder produces must be accepted by the decoder and together they must carry exactly the
    routes that were asked for (the shipped self-check only ever encodes one route at a time)."""
    from exabgp.bgp.message.update.collection import RoutedNLRI, UpdateCollection

    from harness import roundtriprig as R

    rng = ctx.rng
    for (afi, safi), routes in sorted(routes_by_family.items()):
        uniq = {}
        for r in routes:
            try:
                uniq.setdefault(bytes(r.nlri.pack_nlri(R.Sess.get(False))), r)
            except Exception:  # noqa: BLE001
                continue
        rs = [uniq[k] for k in sorted(uniq)]
        if len(rs) < 2:
            continue
        try:
            neg = R.family_session(f'{afi} {safi}')
        except Exception:  # noqa: BLE001
            ctx.count('multi:no-session')
            continue
        for _ in range(per_family):
            if ctx.time_left() < 5:
                return
            k = rng.choice([2, 2, 3, 5])
            pick = rng.sample(rs, min(k, len(rs)))
            ctx.evaluations += 1
            ctx.count(f'multi:{afi}/{safi}')
            want = sorted(bytes(r.nlri.pack_nlri(neg)).hex() for r in pick)
            try:
                msgs = list(UpdateCollection([RoutedNLRI(r.nlri, r.nexthop) for r in pick], [], pick[0].attributes).messages(neg))
            except Exception as e:  # noqa: BLE001
                ctx.count('multi:encoder-refuses:' + R.err_name(e))
                continue
            got = []
            what = None
            bad_body = b''
            for m in msgs:
                try:
                    u = R.decode_update(m[19:], neg)
                    got += [bytes(a.nlri.pack_nlri(neg)).hex() for a in u.announces]
                except Exception as e:  # noqa: BLE001
                    what = f'the decoder refuses a message the encoder produced: {R.err_name(e)} {str(e)[:120]}'
                    bad_body = m[19:]
                    break
            if what is None and sorted(got) != want:
                what = f'asked for {want}, decoded {sorted(got)}'
            cls = type(pick[0].nlri).__name__
            if what:
                body = bad_body or (msgs[0][19:] if msgs else b'')
                book.add('roundtrip-law', cls, 'message-with-several-nlri:decode-what-was-encoded', f'{afi}/{safi}', body, what, {'stream': 'message', 'origin': f'{len(pick)} routes of {afi} {safi} in one UpdateCollection', 'body': body.hex(), 'routes': [str(r.nlri) for r in pick]})
            else:
                ctx.nontrivial(['multi', afi, safi, want])


def replay_nlri_bytes(ctx: Ctx, book: Book, cover: Cover, c: dict, src: str, pool: dict | None = None) -> None:
    from exabgp.protocol.family import AFI, SAFI

    from harness import roundtriprig as R

    data = bytes.fromhex(c['data'])
    fails, facts = R.bytes_laws(AFI.from_int(c['afi']), SAFI.from_int(c['safi']), data, bool(c.get('addpath')))
    ctx.evaluations += 1
    ctx.count(f'nlri-bytes:{src}')
    x = facts.get('decoded')
    cls = type(x).__name__ if x is not None else c.get('class', 'NLRI')
    if x is not None:
        cover.hit(cover.nlri, f'{cls} {x.afi}/{x.safi}', src)
    if 'error' in facts and c.get('expect') == 'decodes':
        book.add('roundtrip-law', cls, 'unpack(pack(x))-raises', facts['error'], data, c.get('what', ''), {'stream': 'nlri-bytes', **c})
    if fails and not c.get('canonical', True) and fails[0].law == 'pack(unpack(b))!=b':
        fails = fails[1:]  # the input is accepted but is not the canonical encoding: only the decoded object is held to the laws
    if fails:
        f = fails[0]
        shape = 'vpn-rd-dropped' if c['safi'] == 72 and c['afi'] == 16388 and f.law.startswith('pack(unpack(b))') else shape_of(x, f.law, f.detail, data)
        book.add('roundtrip-law', cls, f.law, shape, f.data or data, f.detail, {'stream': 'nlri-bytes', **c}, corpus=src.endswith('corpus'))
    if x is not None and not fails:
        fs2, facts2 = R.nlri_laws(x)
        if fs2:
            f = fs2[0]
            book.add('roundtrip-law', cls, f.law, shape_of(x, f.law, f.detail, f.data or data), f.data or data, f.detail, {'stream': 'nlri-bytes', **c}, corpus=src.endswith('corpus'))
        elif pool is not None and 'bytes' in facts2:
            pool.setdefault((c['afi'], c['safi'], bool(c.get('addpath'))), []).append(facts2['bytes'])


def replay_attr_bytes(ctx: Ctx, book: Book, cover: Cover, c: dict, src: str) -> None:
    from harness import roundtriprig as R

    tlv = bytes.fromhex(c['data'])
    fails, facts = R.attr_bytes_laws(tlv, bool(c.get('asn4', True)))
    ctx.evaluations += 1
    ctx.count(f'attr-bytes:{src}')
    x = facts.get('decoded')
    cls = type(x).__name__ if x is not None else c.get('class', 'Attribute')
    if x is not None:
        cover.hit(cover.attr, cls, src)
        if cls == 'LinkState':
            try:
                for t in x.ls_attrs:
                    cover.hit(cover.attr, type(t).__name__, src)
            except Exception:  # noqa: BLE001
                pass
    if fails:
        f = fails[0]
        law = 'pack(unpack(b))-raises' if f.law == 'pack(unpack(b))-raises' else 'bytes:' + f.law
        book.add('roundtrip-law', cls, law, shape_of(x, f.law, f.detail, tlv), tlv, f.detail, {'stream': 'attr-bytes', **c}, corpus=src.endswith('corpus'))


def strip_volatile(s: str) -> str:
    s = re.sub(r'"time": [0-9.e+]+, ', '', s)
    s = re.sub(r'"counter": \d+, ', '', s)
    s = re.sub(r'"(pid|ppid)" ?: ?\d+, ', '', s)
    return re.sub(r'"host" ?: ?"[^"]*", ', '', s)


def message_stream(ctx: Ctx, book: Book, cover: Cover, do_nlri: Any, do_attr: Any) -> None:
    from exabgp.bgp.message.update.collection import UpdateCollection
    from exabgp.configuration.check import _negotiated
    from exabgp.protocol.family import AFI, SAFI
    from exabgp.reactor.api.response import Response

    from harness import roundtriprig as R

    rng = ctx.rng
    msgs: list[tuple[str, bytes, Any, Any, Any]] = []  # (origin, body, neg_in, neg_out, neighbor)
    nbs: dict[str, Any] = {}
    for fn, kind, payload in R.ci_lines():
        if kind != 'raw':
            continue
        raw = bytes.fromhex(payload.replace(':', ''))
        if len(raw) < 19 or raw[18] != 2:
            continue
        if fn not in nbs:
            nb = R.ci_neighbor(fn)
            try:
                nbs[fn] = (nb, *_negotiated(nb)) if nb is not None else None
            except Exception:  # noqa: BLE001
                nbs[fn] = None
        if nbs[fn] is None:
            ctx.count('message:no-session')
            continue
        nb, neg_in, neg_out = nbs[fn]
        msgs.append((f'ci:{fn}', raw[19:], neg_in, neg_out, nb))
    _, plain_nb = R.sessions.make_config(families='all')
    for fn, first, body in R.decoding_samples():
        w = first.split()
        if body[:16] == b'\xff' * 16:
            body = body[19:]
        if w[0] == 'update':
            try:
                neg = R.family_session(' '.join(w[1:3])) if len(w) >= 3 else R.family_session('ipv4 unicast ipv4 mpls-vpn ipv6 unicast')
            except Exception:  # noqa: BLE001
                ctx.count('message:no-session')
                continue
            msgs.append((f'qa-decoding:{fn}', body, neg, neg, plain_nb))
        elif w[0] == 'nlri' and len(w) >= 3:
            fam = {'bgp-ls': (16388, 71)}.get(w[1])
            if fam:
                replay_nlri_bytes(ctx, book, cover, {'afi': fam[0], 'safi': fam[1], 'addpath': False, 'data': body.hex(), 'expect': 'decodes'}, 'decode:qa-decoding')
    enc_json = Response.JSON('6.0.0')
    enc_text = Response.Text('6.0.0')

    def renderings(body: bytes, neg: Any, nb: Any) -> tuple[str, str]:
        u = R.decode_update(body, neg)
        return strip_volatile(enc_json.update(nb, 'receive', u, b'', b'', neg)), strip_volatile(enc_text.update(nb, 'receive', u, b'', b'', neg))

    first_render: dict[int, tuple[str, str]] = {}
    for i, (origin, body, neg_in, neg_out, nb) in enumerate(msgs):
        if ctx.time_left() < 5:
            ctx.notes.append('budget reached in the message stream')
            break
        ctx.evaluations += 1
        ctx.count('message:' + origin.split(':')[0])
        try:
            u = R.decode_update(body, neg_in)
        except Exception as e:  # noqa: BLE001
            ctx.count('message:refused:' + R.err_name(e))
            continue
        src = 'decode:' + origin.split(':')[0]
        for r in u.announces:
            do_nlri(r.nlri, src, {'message': origin})
        for x in u.withdraws:
            do_nlri(x, src, {'message': origin})
        for code, a in u.attributes.items():
            if R.is_wire_attribute(a) and code not in (14, 15):
                do_attr(a, src, {'message': origin}, asn4=bool(neg_in.asn4))
            elif code in (14, 15):
                cover.hit(cover.attr, type(a).__name__, src)
        # the TLVs as they were on the wire
        try:
            wl = int.from_bytes(body[0:2], 'big')
            al = int.from_bytes(body[2 + wl : 4 + wl], 'big')
            for _flag, code, _val, tlv in R.split_tlvs(body[4 + wl : 4 + wl + al]):
                if code in (14, 15):
                    cover.hit(cover.attr, 'MPRNLRI' if code == 14 else 'MPURNLRI', src)
                    continue
                replay_attr_bytes(ctx, book, cover, {'data': tlv.hex(), 'asn4': bool(neg_in.asn4), 'message': origin}, src)
        except Exception:  # noqa: BLE001
            pass
        # whole message: decode → encode → decode
        try:
            out = list(UpdateCollection(list(u.announces), list(u.withdraws), u.attributes).messages(neg_out))
            s1 = R.update_summary(u)
            s2: dict = {'announce': [], 'withdraw': [], 'attributes': None}
            for m in out:
                t = R.update_summary(R.decode_update(m[19:], neg_in))
                s2['announce'] += t['announce']
                s2['withdraw'] += t['withdraw']
                if t['announce'] or s2['attributes'] is None:
                    s2['attributes'] = t['attributes']
            for k in ('announce', 'withdraw'):
                s1[k] = sorted(set(map(tuple, s1[k])))
                s2[k] = sorted(set(map(tuple, s2[k])))
            # the encoder may add the defaults of the session (ORIGIN, AS_PATH, LOCAL_PREF): every attribute
            # that was decoded has to come back unchanged
            kept = all((s2['attributes'] or {}).get(k) == v for k, v in s1['attributes'].items())
            if s1['announce'] != s2['announce'] or s1['withdraw'] != s2['withdraw'] or (s1['announce'] and not kept):
                book.add('roundtrip-law', 'UPDATE', 'decode-encode-decode-differs', origin.split(':')[0], body, json.dumps(s1)[:200] + ' | ' + json.dumps(s2)[:200], {'stream': 'message', 'origin': origin, 'body': body.hex()})
            else:
                ctx.nontrivial(['message', body.hex()])
        except Exception as e:  # noqa: BLE001
            if not (isinstance(e, NotImplementedError) and any(type(a).__name__ in book.no_encoder for a in u.attributes.values())):
                book.add('roundtrip-law', 'UPDATE', 're-encoding-a-decoded-message-raises', R.err_name(e), body, origin, {'stream': 'message', 'origin': origin, 'body': body.hex()})
        try:
            first_render[i] = renderings(body, neg_in, nb)
        except Exception as e:  # noqa: BLE001
            book.add('roundtrip-law', 'UPDATE', 'rendering-raises', R.err_name(e), body, origin, {'stream': 'message', 'origin': origin, 'body': body.hex()})
    # the same bytes decoded again, in another order, render identically
    order = [i for i in first_render]
    for label, perm in (('reversed', list(reversed(order))), ('shuffled', rng.sample(order, len(order)))):
        for i in perm:
            if ctx.time_left() < 3:
                break
            origin, body, neg_in, _neg_out, nb = msgs[i]
            ctx.evaluations += 1
            ctx.count('message:redecode-' + label)
            try:
                again = renderings(body, neg_in, nb)
            except Exception as e:  # noqa: BLE001
                book.add('roundtrip-law', 'UPDATE', 'rendering-raises', R.err_name(e), body, origin, {'stream': 'message', 'origin': origin, 'body': body.hex()})
                continue
            for which, a, b in (('json', first_render[i][0], again[0]), ('text', first_render[i][1], again[1])):
                if a != b:
                    book.add('roundtrip-law', 'UPDATE', f'{which}-not-deterministic', diff_key(a, b), body, f'{a[:200]} | {b[:200]}', {'stream': 'message', 'origin': origin, 'body': body.hex(), 'order': label})


# ---------------------------------------------------------------------------------------------
# S7: equality / hash / index over PAIRS of routes that differ in exactly one field


def pair_groups(rng) -> list[tuple[str, list[tuple[str, Any, Any]]]]:
    """For every family: a base route and variants obtained by changing ONE argument of the class's own
    factory (also the fields `__eq__` leaves out by design: EVPN labels and ESI, label stacks of 1, 2
    and 3 labels). Returns (group, [(field, value label, object)]); field '' is the base, built twice."""
    from exabgp.bgp.message.open.asn import ASN
    from exabgp.bgp.message.update.attribute.community.extended.rt import RouteTargetASN2Number, RouteTargetIPNumber
    from exabgp.bgp.message.update.nlri.cidr import CIDR
    from exabgp.bgp.message.update.nlri.evpn.ethernetad import EthernetAD
    from exabgp.bgp.message.update.nlri.evpn.mac import MAC
    from exabgp.bgp.message.update.nlri.evpn.multicast import Multicast
    from exabgp.bgp.message.update.nlri.evpn.prefix import Prefix
    from exabgp.bgp.message.update.nlri.evpn.segment import EthernetSegment
    from exabgp.bgp.message.update.nlri.ipvpn import IPVPN
    from exabgp.bgp.message.update.nlri.label import Label
    from exabgp.bgp.message.update.nlri.mup.dsd import DirectSegmentDiscoveryRoute
    from exabgp.bgp.message.update.nlri.mup.isd import InterworkSegmentDiscoveryRoute
    from exabgp.bgp.message.update.nlri.mup.t1st import Type1SessionTransformedRoute
    from exabgp.bgp.message.update.nlri.mup.t2st import Type2SessionTransformedRoute
    from exabgp.bgp.message.update.nlri.mvpn.sharedjoin import SharedJoin
    from exabgp.bgp.message.update.nlri.mvpn.sourcead import SourceAD
    from exabgp.bgp.message.update.nlri.mvpn.sourcejoin import SourceJoin
    from exabgp.bgp.message.update.nlri.qualifier import ESI, EthernetTag, Labels, PathInfo, RouteDistinguisher
    from exabgp.bgp.message.update.nlri.qualifier import MAC as MACQUAL
    from exabgp.bgp.message.update.nlri.rtc import RTC
    from exabgp.bgp.message.update.nlri.sr_policy import SRPolicyNLRI
    from exabgp.bgp.message.update.nlri.vpls import VPLS
    from exabgp.protocol.family import AFI, SAFI
    from exabgp.protocol.ip import IP

    from harness import roundtriprig as R

    def rd(s: str, n: int) -> Any:
        return RouteDistinguisher.make_from_elements(s, n)

    def lab(*ls: int) -> Any:
        return Labels.make_labels(list(ls), True)

    def ip(s: str) -> Any:
        return IP.from_string(s)

    r16 = rng.randrange(1, 65535)
    r20 = rng.randrange(16, 1048575)
    RDS = [rd('65000', 7), rd('10.0.0.2', 100), rd('10.0.0.1', r16)]
    ESIS = [ESI(bytes([1] * 10)), ESI(bytes(range(10))), ESI(bytes([rng.randrange(1, 256) for _ in range(10)]))]
    ETAGS = [EthernetTag.make_etag(0), EthernetTag.make_etag(1001), EthernetTag.make_etag(4294967295)]
    STACKS1 = [lab(200), lab(r20)]
    STACKS2 = [lab(100, 300), lab(200, 300), lab(200, 400), lab(r20, 300)]
    STACKS3 = [lab(100, 300, 500), lab(200, 300, 500), lab(100, 300, 600)]
    groups: list[tuple[str, list[tuple[str, Any, Any]]]] = []

    def group(name: str, fn: Any, base: dict, alts: dict) -> None:
        made: list[tuple[str, Any, Any]] = []
        for rep in range(2):
            try:
                made.append(('', 'base', fn(**base)))
            except Exception:  # noqa: BLE001
                return
        for field, values in alts.items():
            for i, v in enumerate(values):
                kw = dict(base)
                if isinstance(field, tuple):
                    kw.update(dict(zip(field, v)))
                    fname = '+'.join(field)
                else:
                    kw[field] = v
                    fname = field
                try:
                    made.append((fname, f'{fname}#{i}', fn(**kw)))
                except Exception:  # noqa: BLE001
                    continue
        groups.append((name, made))

    v4, v6 = ip('192.0.2.1'), ip('2001:db8::1')
    for fl, addr, other in ((4, v4, ip('192.0.2.2')), (6, v6, ip('2001:db8::2'))):
        group(f'EVPN MAC ip{fl}', MAC.make_mac,
              dict(rd=rd('10.0.0.1', 100), esi=ESI.make_default(), etag=EthernetTag.make_etag(1000), mac=MACQUAL('aa:bb:cc:dd:ee:ff'), maclen=48, label=lab(100), ip=addr),
              dict(rd=RDS, esi=ESIS, etag=ETAGS, mac=[MACQUAL('aa:bb:cc:dd:ee:00'), MACQUAL('00:00:00:00:00:00')], label=STACKS1 + STACKS2 + STACKS3, ip=[other, None]))
        group(f'EVPN Prefix ip{fl}', Prefix.make_prefix,
              dict(rd=rd('10.0.0.1', 100), esi=ESI.make_default(), etag=EthernetTag.make_etag(1000), label=lab(100), ip=ip('10.2.2.0') if fl == 4 else ip('2001:db8:2::'), iplen=24 if fl == 4 else 48, gwip=addr),
              dict(rd=RDS, esi=ESIS, etag=ETAGS, label=STACKS1, ip=[ip('10.2.3.0') if fl == 4 else ip('2001:db8:3::')], iplen=[25 if fl == 4 else 64, 0], gwip=[other]))
        group(f'EVPN Multicast ip{fl}', Multicast.make_multicast, dict(rd=rd('10.0.0.1', 100), etag=EthernetTag.make_etag(1000), ip=addr), dict(rd=RDS, etag=ETAGS, ip=[other]))
        group(f'EVPN EthernetSegment ip{fl}', EthernetSegment.make_ethernetsegment, dict(rd=rd('10.0.0.1', 100), esi=ESI.make_default(), ip=addr), dict(rd=RDS, esi=ESIS, ip=[other]))
        afi = AFI.ipv4 if fl == 4 else AFI.ipv6
        src, grp = (ip('10.1.1.1'), ip('232.1.1.1')) if fl == 4 else (ip('2001:db8::10'), ip('ff3e::1'))
        src2, grp2 = (ip('10.1.1.2'), ip('232.1.1.2')) if fl == 4 else (ip('2001:db8::11'), ip('ff3e::2'))
        group(f'MVPN SourceAD ip{fl}', SourceAD.make_sourcead, dict(rd=rd('10.0.0.1', 100), afi=afi, source=src, group=grp), dict(rd=RDS, source=[src2], group=[grp2]))
        for cls, mk in ((SharedJoin, SharedJoin.make_sharedjoin), (SourceJoin, SourceJoin.make_sourcejoin)):
            group(f'MVPN {cls.__name__} ip{fl}', mk, dict(rd=rd('10.0.0.1', 100), afi=afi, source=src, group=grp, source_as=65000), dict(rd=RDS, source=[src2], group=[grp2], source_as=[1, 65001, 4200000000, rng.randrange(2, 65000)]))
        bits = 32 if fl == 4 else 128
        pfx, pfx2 = (ip('10.9.0.0'), ip('10.8.0.0')) if fl == 4 else (ip('2001:db8:9::'), ip('2001:db8:8::'))
        group(f'MUP ISD ip{fl}', InterworkSegmentDiscoveryRoute.make_isd, dict(rd=rd('10.0.0.1', 100), prefix_ip_len=16 if fl == 4 else 48, prefix_ip=pfx, afi=afi), dict(rd=RDS, prefix_ip_len=[24 if fl == 4 else 64], prefix_ip=[pfx2]))
        group(f'MUP DSD ip{fl}', DirectSegmentDiscoveryRoute.make_dsd, dict(rd=rd('10.0.0.1', 100), ip=addr, afi=afi), dict(rd=RDS, ip=[other]))
        group(f'MUP T1ST ip{fl}', Type1SessionTransformedRoute.make_t1st,
              dict(rd=rd('10.0.0.1', 100), prefix_ip_len=bits, prefix_ip=addr, teid=12345, qfi=9, endpoint_ip_len=bits, endpoint_ip=other, source_ip_len=bits, source_ip=src if fl == 4 else src, afi=afi),
              {'rd': RDS, 'prefix_ip': [other], 'teid': [0, 4294967295, rng.randrange(1, 2**32)], 'qfi': [0, 63], 'endpoint_ip': [addr], 'source_ip': [src2], ('source_ip_len', 'source_ip'): [(0, b'')]})
        group(f'MUP T2ST ip{fl}', Type2SessionTransformedRoute.make_t2st, dict(rd=rd('10.0.0.1', 100), endpoint_len=bits + 32, endpoint_ip=addr, teid=12345, afi=afi), {'rd': RDS, 'endpoint_ip': [other], 'teid': [0, 4294967295], ('endpoint_len', 'teid'): [(bits, 0), (bits + 16, 0x1234)]})
        group(f'SR-policy ip{fl}', SRPolicyNLRI.create, dict(afi=afi, distinguisher=1, color=100, endpoint=str(addr)), dict(distinguisher=[0, 4294967295], color=[0, 4294967295, rng.randrange(2**32)], endpoint=[str(other)]))
        cidr = CIDR.create_cidr((R.v4 if fl == 4 else R.v6)('10.0.0.0' if fl == 4 else '2001:db8::'), 24 if fl == 4 else 48)
        cidr2 = CIDR.create_cidr((R.v4 if fl == 4 else R.v6)('10.0.1.0' if fl == 4 else '2001:db8:1::'), 24 if fl == 4 else 48)
        cidr3 = CIDR.create_cidr((R.v4 if fl == 4 else R.v6)('10.0.0.0' if fl == 4 else '2001:db8::'), 25 if fl == 4 else 49)
        paths = [PathInfo.NOPATH, PathInfo.make_from_integer(1), PathInfo.make_from_integer(rng.randrange(2, 2**32))]
        group(f'Label ip{fl}', Label.from_cidr, dict(cidr=cidr, afi=afi, safi=SAFI.nlri_mpls, path_info=PathInfo.DISABLED, labels=lab(100)), dict(cidr=[cidr2, cidr3], path_info=paths, labels=STACKS1 + STACKS2 + STACKS3))
        group(f'IPVPN ip{fl}', IPVPN.from_cidr, dict(cidr=cidr, afi=afi, safi=SAFI.mpls_vpn, path_info=PathInfo.DISABLED, labels=lab(100), rd=rd('10.0.0.1', 100)), dict(cidr=[cidr2, cidr3], path_info=paths, labels=STACKS1 + STACKS2 + STACKS3, rd=RDS))
    group('EVPN EthernetAD', EthernetAD.make_ethernetad, dict(rd=rd('10.0.0.1', 100), esi=ESI.make_default(), etag=EthernetTag.make_etag(1000), label=lab(100)), dict(rd=RDS, esi=ESIS, etag=ETAGS, label=STACKS1))
    group('VPLS', VPLS.make_vpls, dict(rd=rd('10.0.0.1', 100), endpoint=5, base=10702, offset=1, size=8), dict(rd=RDS, endpoint=[0, 6, 65535], base=[0, 10703, 1048567], offset=[0, 2, 65535], size=[0, 1, 7]))
    group('RTC', RTC.make_rtc, dict(origin=ASN(65000), rt=RouteTargetASN2Number.make_route_target(ASN(65000), 100)),
          dict(origin=[ASN(0), ASN(65001), ASN(4200000000)], rt=[RouteTargetASN2Number.make_route_target(ASN(65000), 101), RouteTargetASN2Number.make_route_target(ASN(65001), 100), RouteTargetIPNumber.make_route_target('10.0.0.1', 5), None]))

    # FlowSpec through the text grammar (one component or the RD changed at a time)
    def flow(match: str, rd_: str = '') -> Any:
        rs = R.api_routes('announce flow route { %smatch { %s } then { discard; } }' % (f'rd {rd_}; ' if rd_ else '', match))
        if not rs:
            raise ValueError('refused')
        return rs[0].nlri

    base_m = dict(destination='10.0.0.0/24', source='192.0.2.0/24', port='=80')

    def flow_from(destination: str, source: str, port: str, rd_: str = '') -> Any:
        return flow(f'destination {destination}; source {source}; port {port};', rd_)

    group('Flow ipv4', flow_from, dict(base_m), dict(destination=['10.0.1.0/24', '10.0.0.0/25'], source=['192.0.3.0/24'], port=['=81', '>80', '=80 =81']))
    group('Flow-vpn ipv4', flow_from, dict(base_m, rd_='65000:1'), dict(destination=['10.0.1.0/24'], port=['=81'], rd_=['65000:2', '10.0.0.1:1']))

    # BGP-LS from bytes (corpus Node NLRI): the RD (VPN SAFI) and one descriptor byte changed
    def bgpls(safi: int, data: str) -> Any:
        x, _ = R.decode_nlri(AFI.bgpls, SAFI.from_int(safi), bytes.fromhex(data), False)
        return x

    node = '03' + '0000000000000001' + '01000008' + '020000040000fffd'
    node2 = '03' + '0000000000000001' + '01000008' + '020000040000fffe'

    def hdr(payload: str) -> str:
        return '0001' + '%04x' % (len(payload) // 2) + payload

    group('BGP-LS node', bgpls, dict(safi=71, data=hdr(node)), dict(data=[hdr(node2)]))
    group('BGP-LS-VPN node', bgpls, dict(safi=72, data=hdr('0000fde800000064' + node)), dict(data=[hdr('0000fde800000065' + node), hdr('0000fde800000064' + node2)]))
    return groups


def flow_history_stream(ctx: Ctx, book: Book) -> None:
    """A Flow is the one NLRI that is built by mutation (`add`) and serialised on demand (`pack_nlri`, `index`,
    `len`, `==`, `hash` all serialise).  What it encodes to is a function of the rules it holds: the bytes of a
    flow built rule by rule with serialisations in between, or sharing rule objects with another flow that was
    serialised, equal the bytes of the same rules put into a fresh flow at once, and decode to an equal flow."""
    from exabgp.bgp.message.update.nlri.flow import (Flow, Flow4Destination, Flow4Source, FlowAnyPort, FlowDestinationPort, FlowFragment, FlowICMPType,
                                                       FlowIPProtocol, FlowPacketLength, FlowSourcePort, FlowTCPFlag, NumericOperator, BinaryOperator)  # fmt: skip
    from harness import roundtriprig as R

    rng = ctx.rng
    neg = R.Sess.get(False)
    numeric = [FlowIPProtocol, FlowAnyPort, FlowDestinationPort, FlowSourcePort, FlowICMPType, FlowPacketLength]
    ops = [NumericOperator.EQ, NumericOperator.GT, NumericOperator.LT]

    def rules_of(spec: list) -> list:
        out = []
        for kind, a, b in spec:
            if kind == 'dst':
                out.append(Flow4Destination.make_prefix4(bytes([10, a % 256, b % 256, 0]), 24))
            elif kind == 'src':
                out.append(Flow4Source.make_prefix4(bytes([192, 0, a % 256, 0]), 24))
            elif kind == 'tcp':
                out.append(FlowTCPFlag(BinaryOperator.MATCH if a % 2 else BinaryOperator.NOP, FlowTCPFlag.converter(str(1 << (b % 6)))))
            elif kind == 'frag':
                out.append(FlowFragment(BinaryOperator.NOP, FlowFragment.converter(str(1 << (b % 4)))))
            else:
                out.append(numeric[kind](ops[a % 3], numeric[kind].converter(str(b % (256 if numeric[kind] in (FlowIPProtocol, FlowICMPType) else 65536)))))
        return out

    def fresh(spec: list) -> bytes:
        f = Flow.make_flow()
        for r in rules_of(spec):
            f.add(r)
        return bytes(f.pack_nlri(neg))

    def poke(f: Any, how: int) -> None:
        (lambda: f.pack_nlri(neg), lambda: f.index(), lambda: len(f), lambda: hash(f), lambda: f == f, lambda: str(f))[how % 6]()

    n = 300 if ctx.tier == 'quick' else 6000
    for it in range(n):
        if ctx.time_left() < 4:
            ctx.notes.append('budget reached in the flow history stream')
            return
        spec = [('dst', rng.randrange(256), rng.randrange(256))] if rng.random() < 0.7 else []
        for _ in range(rng.randrange(1, 6)):
            kind = rng.choice([0, 1, 2, 2, 3, 4, 5, 'tcp', 'frag'])
            spec.append((kind, rng.randrange(6), rng.choice([0, 1, 80, 255, 256, 443, 65535, rng.randrange(65536)])))
        try:
            want = fresh(spec)
        except Exception:  # noqa: BLE001  (a combination the builder refuses: not this stream's business)
            ctx.count('flow-history:refused')
            continue
        ctx.evaluations += 1
        scenario = rng.choice(['poke-between-adds', 'shared-rules', 'copy-then-add', 'decoded-then-add'])
        ctx.count('flow-history:' + scenario)
        replay = {'stream': 'flow-history', 'scenario': scenario, 'spec': [[str(k), a, b] for k, a, b in spec]}
        try:
            rules = rules_of(spec)
            if scenario == 'poke-between-adds':
                f = Flow.make_flow()
                for r in rules:
                    f.add(r)
                    poke(f, rng.randrange(6))
            elif scenario == 'shared-rules':
                # the same rule objects were the tail of another flow that has been serialised
                other = Flow.make_flow()
                for r in rules[: max(1, len(rules) - 1)]:
                    other.add(r)
                other.pack_nlri(neg)
                f = Flow.make_flow()
                for r in rules:
                    f.add(r)
            elif scenario == 'copy-then-add':
                import copy as _copy

                g = Flow.make_flow()
                for r in rules[:-1]:
                    g.add(r)
                g.pack_nlri(neg)
                f = _copy.copy(g)
                f.add(rules[-1])
            else:
                g = Flow.make_flow()
                for r in rules[:-1]:
                    g.add(r)
                if len(rules) > 1:
                    f, rest = R.decode_nlri(g.afi, g.safi, bytes(g.pack_nlri(neg)), False)
                    poke(f, rng.randrange(6))
                else:
                    f = Flow.make_flow()
                f.add(rules[-1])
            got = bytes(f.pack_nlri(neg))
        except Exception as e:  # noqa: BLE001
            book.add('roundtrip-law', 'Flow', 'history:build-raises', scenario, want, f'{R.err_name(e)} while building {spec}', replay)
            continue
        if got != want:
            book.add('roundtrip-law', 'Flow', 'history:bytes-depend-on-how-the-flow-was-built', scenario, want, f'{spec}: built at once {hx(want)}, {scenario} {hx(got)}', replay)
            continue
        try:
            y, rest = R.decode_nlri(f.afi, f.safi, got, False)
            ok = (not rest) and y is not R.NLRI.INVALID and bytes(y.pack_nlri(neg)) == got
        except Exception:  # noqa: BLE001
            ok = False
        if not ok:
            book.add('roundtrip-law', 'Flow', 'history:decode-what-was-encoded', scenario, got, f'{spec}: {hx(got)} does not decode back', replay)
        else:
            ctx.nontrivial('flow-history:' + hx(got))


def pair_stream(ctx: Ctx, book: Book) -> None:
    """The decided oracle for "equal routes have equal indexes and hashes; routes that differ on the wire
    do not share an index", on pairs that differ in exactly one field (or in none)."""
    from harness import roundtriprig as R

    # "routes that differ in family, path identifier, prefix or route distinguisher never share an index":
    # the arguments that are one of those four things (the others - labels, ESI, TEID, QFI, endpoint, gateway,
    # source AS - may or may not be part of an index; only `equal ⇒ same index and hash` is asked of them)
    KEY_FIELDS = {'rd', 'rd_', 'path_info', 'cidr', 'prefix_ip', 'prefix_ip_len', 'iplen', 'destination', 'afi', 'data'}
    for name, made in pair_groups(ctx.rng):
        objs = []
        for field, tag, x in made:
            try:
                wire = bytes(x.pack_nlri(R.Sess.get(R.has_path(x) and R.sendable(x))))
            except Exception:  # noqa: BLE001
                wire = None
            objs.append((field, tag, x, wire))
            # what was encoded, decoded: one more way to reach the same value
            if wire is not None and R.sendable(x):
                try:
                    y, rest = R.decode_nlri(x.afi, x.safi, wire, R.has_path(x))
                    if not rest and y is not R.NLRI.INVALID:
                        objs.append((field, tag + ':decoded', y, wire))
                except Exception:  # noqa: BLE001
                    pass
        for i in range(len(objs)):
            for j in range(i + 1, len(objs)):
                fa, ta, a, wa = objs[i]
                fb, tb, b, wb = objs[j]
                if fa and fb and fa != fb:
                    continue  # more than one field differs
                field = fa or fb or 'none'
                if ctx.time_left() < 3:
                    ctx.notes.append('budget reached in the pair stream')
                    return
                ctx.evaluations += 1
                ctx.count(f'pair:{name.split()[0]}:{"same" if ta.split(":")[0] == tb.split(":")[0] else field}')
                cls = type(a).__name__
                replay = {'stream': 'pair', 'group': name, 'a': ta, 'b': tb, 'wire_a': hx(wa or b''), 'wire_b': hx(wb or b'')}
                try:
                    eq, eq2, ne = bool(a == b), bool(b == a), bool(a != b)
                    ha, hb = hash(a), hash(b)
                    ia, ib = bytes(a.index()), bytes(b.index())
                except Exception as e:  # noqa: BLE001
                    book.add('index-pair', cls, 'eq/hash/index-raises', R.err_name(e), wa or b'', f'{ta} vs {tb}', replay)
                    continue
                what = f'{name}: {a} [{ta}] vs {b} [{tb}]'
                if eq != eq2 or eq == ne:
                    book.add('index-pair', cls, '==-not-symmetric-or-inconsistent-with-!=', field, wa or b'', what, replay)
                if eq and ha != hb:
                    book.add('index-pair', cls, 'equal-but-different-hash', field, wa or b'', what, replay)
                if eq and ia != ib:
                    book.add('index-pair', cls, 'equal-but-different-index', field, wa or b'', what + f' index {hx(ia)} | {hx(ib)}', replay)
                if ta.split(':')[0] == tb.split(':')[0] and not eq:
                    book.add('index-pair', cls, 'same-value-not-equal', field, wa or b'', what, replay)
                if wa is not None and wb is not None and wa != wb and ia == ib and field not in KEY_FIELDS:
                    ctx.count(f'note:wire-differs-same-index:{cls}:{field}')
                if wa is not None and wb is not None and wa != wb and ia == ib and field in KEY_FIELDS:
                    book.add('index-pair', cls, 'differ-in-family/path-id/prefix/rd-same-index', field, wa, what + f' index {hx(ia)}', replay)
                ctx.nontrivial(['pair', name, ta, tb, hx(wa or b''), hx(wb or b'')])
                if eq and wa != wb:
                    ctx.sample({'stream': 'pair', 'group': name, 'a': str(a)[:70], 'b': str(b)[:70], 'field': field, '==': eq, 'same_hash': ha == hb, 'same_index': ia == ib}, cap=20)


# ---------------------------------------------------------------------------------------------


def run(ctx: Ctx) -> None:
    from exabgp.logger import log

    log.silence()
    quick = ctx.tier == 'quick'
    ctx.rule = (
        'index stream: pairs of abstract IP-family NLRIs (INET/Label/IPVPN, both AFIs, masks at byte boundaries and at 98/105, path-id none/0/explicit incl. the ASCII-sentinel prefixes) that are equal, '
        'differ in exactly one of family/path-id/mask/prefix/RD, differ only in labels, or are the shapes that collided before the index was repaired, built through the real from_cidr; non-trivial = both objects built and compared; '
        'framing stream: for every registered family, bytes produced by the real encoder (alone, truncated, followed by junk, followed by a second encoded NLRI) and synthetic frames at the length boundaries of the kind; non-trivial = the real decoder accepted the frame; '
        'pair stream: for every family (five EVPN route types, MVPN, MUP, VPLS, RTC, SR-policy, labelled, VPN, FlowSpec, BGP-LS) a base route built by the class factory and variants that change exactly one argument (also those == ignores by design: ESI, label stacks of 1, 2, 3 labels), each also in its decoded form; every pair that differs in at most one field is held to a == b ⇒ same hash and index, wire differs ⇒ index differs; '
        'object streams: every route of every shipped configuration, every cmd/raw line of qa/encoding, qa/decoding samples, generated route/vpls/flow text, every make_*/from_*/create classmethod swept over its boundary pools; '
        'non-trivial = the object passed pack → unpack and all laws were evaluated; distinct = distinct (class, bytes)'
    )
    book = Book(ctx)
    cover = Cover()
    pool: dict = {}
    by_value: dict = {}
    object_streams(ctx, book, cover, pool, by_value, extra_factory=25 if quick else 300, n_text=1500 if quick else 20000)
    index_stream(ctx, book, 6000 if quick else 100000)
    pair_stream(ctx, book)
    flow_history_stream(ctx, book)
    if ctx.driver_ok:
        framing_stream(ctx, book, pool, 3 if quick else 12)
    else:
        ctx.notes.append('driver not built: the framing stream did not run')
    book.flush()
    coverage_report(ctx, cover)


def coverage_report(ctx: Ctx, cover: Cover) -> None:
    from harness.tables.registry import registries

    reg = registries()
    want_nlri = {k for _, _, k in reg['families']} | {k for _, k in reg['evpn']} | {k for _, k in reg['mvpn']} | {k for _, _, k in reg['mup']} | {k for _, k in reg['bgpls']}
    want_nlri -= {'EVPN', 'MVPN', 'MUP', 'BGPLS'}  # dispatchers: their objects are the route types
    seen_nlri: dict[str, set] = {}
    for k, srcs in cover.nlri.items():
        seen_nlri.setdefault(k.split()[0], set()).update(s.split(':')[0] for s in srcs)
    want_attr = {k for _, _, k in reg['attributes']} | {k for _, _, k in reg['extended']} | {k for _, _, k in reg['extended6']} | {k for _, k in reg['pmsi']}
    want_attr |= {k for _, k in reg['linkstate']} | {k for _, k in reg['prefixsid']}
    seen_attr = {k: {s.split(':')[0] for s in srcs} for k, srcs in cover.attr.items()}
    ctx.extra['coverage_nlri'] = {k: sorted(seen_nlri.get(k, [])) for k in sorted(want_nlri)}
    ctx.extra['coverage_attr'] = {k: sorted(seen_attr.get(k, [])) for k in sorted(want_attr)}
    ctx.extra['coverage_families'] = {k: dict(v) for k, v in sorted(cover.nlri.items())}
    missing = [k for k in sorted(want_nlri) if not seen_nlri.get(k)] + [k for k in sorted(want_attr) if not seen_attr.get(k)]
    if missing:
        ctx.notes.append('registered classes for which no object was obtained from any source: ' + ', '.join(missing))


def replay(path: str) -> int:
    """Re-execute one replay file on the implementation and print what the law sees."""
    from exabgp.logger import log

    log.silence()
    from harness import roundtriprig as R

    data = json.loads(open(path).read())
    rp = data['replay']
    st = rp.get('stream')
    bad = 0
    if st == 'index':
        xa, xb = build_ip(rp['a']), build_ip(rp['b'])
        print('a:', xa, '| index', hx(xa.index()), '| hash', hash(xa))
        print('b:', xb, '| index', hx(xb.index()), '| hash', hash(xb))
        print('==', xa == xb, ' same index', xa.index() == xb.index(), ' same hash', hash(xa) == hash(xb))
        if key_of(rp['a']) != key_of(rp['b']) and xa.index() == xb.index():
            bad = 1
        if (xa == xb) and hash(xa) != hash(xb):
            bad = 1
    elif st == 'flow-history':
        # the stream is re-run from seeds until the recorded scenario shows again (its generator is the replay)
        import random as _random

        for sd in range(40):
            c2 = Ctx(prop='C15', tier='quick', seed=sd, rng=_random.Random(sd))
            c2.deadline = time.time() + 60
            b2 = Book(c2)
            flow_history_stream(c2, b2)
            b2.flush()
            hits = [f for f in c2.failures if f.canon == data.get('canon')]
            if hits:
                print('LAW FAILS:', hits[0].what[:400])
                bad = 1
                break
        else:
            print('the flow history stream holds (40 seeds x 300 flows)')
    elif st in ('nlri', 'nlri-bytes', 'framing'):
        from exabgp.protocol.family import AFI, SAFI

        b = bytes.fromhex(rp['data'] if rp['data'] != '-' else '')
        fails, facts = R.bytes_laws(AFI.from_int(rp['afi']), SAFI.from_int(rp['safi']), b, bool(rp.get('addpath')))
        print('bytes:', hx(b), ' decoded:', facts.get('decoded'), ' error:', facts.get('error'), ' consumed:', facts.get('consumed'))
        x = facts.get('decoded')
        if x is not None:
            f2, _ = R.nlri_laws(x)
            fails += f2
        if st == 'framing' and rp.get('first') and facts.get('consumed') != len(bytes.fromhex(rp['first'])):
            bad = 1
        for f in fails:
            print('LAW FAILS:', f.law, f.detail[:300])
        if 'origin' in rp:
            print('origin:', rp['origin'])
            cmd = rp['origin'].get('cmd') if isinstance(rp['origin'], dict) else None
            if cmd:
                for r in R.api_routes(cmd):
                    fs, _ = R.nlri_laws(r.nlri)
                    for f in fs:
                        print('LAW FAILS (object from the text above vs its decoded form):', f.law, f.detail[:300])
        bad = bad or bool(fails) or ('error' in facts)
    elif st in ('attr', 'attr-bytes'):
        b = bytes.fromhex(rp['data'])
        fails, facts = R.attr_bytes_laws(b, bool(rp.get('asn4', True)))
        print('tlv:', hx(b), ' decoded:', facts.get('decoded'), ' error:', facts.get('error'))
        if 'origin' in rp:
            print('origin:', rp['origin'])
        for f in fails:
            print('LAW FAILS:', f.law, f.detail[:300])
        bad = bool(fails)
        cmd = (rp.get('origin') or {}).get('cmd')
        if cmd:
            for r in R.api_routes(cmd):
                for _code, a in r.attributes.items():
                    if R.is_wire_attribute(a) and type(a).__name__ == data['canon']['class']:
                        fs, _ = R.attr_laws(a, bool(rp.get('asn4', True)))
                        for f in fs:
                            print('LAW FAILS (object from the text above vs its decoded form):', f.law, f.detail[:300])
                        bad = bad or bool(fs)
        else:
            print('(a law between an object built by a factory and its decoded form is shown by re-running the check: the origin above names the call)')
    else:
        print(json.dumps(rp)[:2000])
    print('canonical form:', json.dumps(data['canon']))
    return 1 if bad else 0
