"""C09 — generated UPDATEs fit the negotiated size and lose nothing.

Correspondence of M-Pack (lean/ExaModel/Model/Pack.lean, driver drv_pack) with the real
`UpdateCollection.messages`, plus the property's own oracle on the real messages decoded one by
one with the real `Message.unpack` (harness/packrig.py)."""

from __future__ import annotations

import json
import time
from harness import common
from harness.common import Ctx, Disagreement, Failure
from harness import packrig as pr

THEOREM_MODULES = ['ExaModel.Props.C09']
DRIVERS = ['drv_pack']
TABLES: list[str] = []  # no generated table is used by this property
PROP = 'C09'
KIND = 'update-pack'
ASSUMPTIONS = [
    'the model works over sizes: NLRI lengths, next-hop lengths and the two attribute-block lengths are measured on the real objects of each case and given to the model; byte contents are checked only by the oracle (real decoder)',
    "the order of Python's sorted() on the NLRIs and the iteration order of the set all_mp_families are inputs of the model (taken from CPython per case), not modelled",
    'families exercised: IPv4/IPv6 unicast and multicast (INET NLRIs, with and without ADD-PATH); labelled/VPN/flow/EVPN NLRIs reach the same loops with other sizes and are not generated',
    'every IPv4 announce of a collection has the next hop of the NEXT_HOP attribute of that collection (as the RIB builds them: grouping is by attribute set); no Empty NLRI; no IPv4 NLRI with an IPv6 next hop (RFC 8950 not negotiated)',
    'no link-local next-hop capability: the MP next hop is the 4 or 16 address bytes',
    'a request is a SET of routes: a prefix (with its path id) is requested at most once per AFI in the announces and at most once in the withdraws of a collection',
]

V4_MASKS = [0, 1, 7, 8, 9, 15, 16, 17, 23, 24, 25, 31, 32]
V6_MASKS = [0, 1, 8, 9, 16, 17, 32, 48, 56, 57, 64, 65, 96, 112, 120, 121, 127, 128]
BASES = ['', 'med 5', 'med 5 local-preference 200', 'origin egp as-path [ 65010 65020 ]', 'atomic-aggregate', 'originator-id 9.9.9.9 med 1']
FAM_SETS = [([1, 3], 30), ([1], 12), ([3], 10), ([1, 3, 4], 10), ([1, 2, 3, 4], 5), ([3, 4], 5), ([1, 2], 3)]


def weighted(rng, pairs):
    tot = sum(w for _, w in pairs)
    x = rng.random() * tot
    for v, w in pairs:
        x -= w
        if x < 0:
            return v
    return pairs[-1][0]


def gen_nlris(rng, fam: int, count: int, addpath: bool, seen: set, size_bias: str) -> list[list]:
    """`count` distinct prefixes of one family. `addpath`: ADD-PATH is negotiated for THIS family
    (path ids are only given then: otherwise two paths of a prefix are the same NLRI on the wire)."""
    out = []
    masks = V4_MASKS if fam in (1, 2) else V6_MASKS
    bits = 32 if fam in (1, 2) else 128
    tries = 0
    while len(out) < count and tries < count * 4 + 20:
        tries += 1
        if size_bias == 'max':
            mask = bits - rng.randrange(0, 7)
        elif size_bias == 'min':
            mask = rng.choice(masks[:4])
        elif rng.random() < 0.5:
            mask = rng.choice(masks)
        else:
            mask = rng.randrange(0, bits + 1)
        value = rng.getrandbits(mask) if mask else 0
        if fam == 2 and mask >= 4:  # multicast prefixes live in 224/4
            value = (0xE << (mask - 4)) | (value & ((1 << (mask - 4)) - 1))
        pathid = rng.choice([-1, -1, 0, 1, 2, 77, 0xFFFFFFFF]) if addpath else -1
        # one prefix is requested once per AFI (an ipv4 unicast and an ipv4 multicast route for the same prefix
        # could not be told apart in the classic fields by the correspondence)
        key = (fam in (1, 2), mask, value, pathid if addpath and pathid >= 0 else 0)
        if key in seen:
            continue
        seen.add(key)
        out.append([fam, mask, value, pathid])
    return out


def gen_case(rng, tier: str, big_ok: bool) -> dict:
    fams = list(weighted(rng, FAM_SETS))
    addpath = int(rng.random() < 0.3)
    M = rng.choice([4096, 4096, 65535])
    ibgp = int(rng.random() < 0.5)
    cfg, n, neg, _ = pr.get_session(tuple(fams), bool(addpath), M, bool(ibgp))
    regime = weighted(rng, [('tight', 45), ('medium', 30), ('roomy', 20), ('full', 5 if big_ok else 0)])
    base = rng.choice(BASES)
    seen: set = set()
    # requested families: mostly the negotiated ones, sometimes one that is not negotiated
    req_fams = list(fams)
    if rng.random() < 0.12:
        req_fams.append(rng.choice([f for f in (1, 3, 4) if f not in fams] or [3]))
    if regime == 'tight':
        ms = rng.choice([-5, -1, 0, 1, 2, 3, 4, 5, 6, 9, 17, 18, 21, 22, 24, 25, 26, 28, 29, 30, 37, 40, 41, 42, 45, 46, 58, 60, 61, 62, 79, 80, rng.randrange(0, 120)])
        na, nw = rng.randrange(0, 9), rng.choice([0, 0, 1, 2, 3, 6])
    elif regime == 'medium':
        ms = rng.choice([254, 255, 256, 257, 258, 259, 260, 261, 262, 263, 280, 300, rng.randrange(120, 700)])
        na, nw = rng.randrange(0, 70), rng.choice([0, 0, 1, 5, 20, 40])
    elif regime == 'roomy':
        ms = None
        na, nw = rng.randrange(0, 40), rng.choice([0, 0, 2, 10])
    else:  # 'full': small attributes, enough NLRIs to fill several messages
        ms = None
        per = (M - 60) // 5
        na = rng.randrange(per // 2, int(per * 2.2)) if M == 4096 else rng.randrange(per // 2, int(per * 1.3))
        nw = rng.choice([0, 3, per // 3])
    if ms is None:
        attr = {'base': base, 'ncomm': rng.choice([0, 0, 1, 3, 63, 64]), 'filler': rng.choice([-1, -1, 0, 5, 252, 253])}
    else:
        attr = pr.tune_attr(cfg, n, neg, base, M - 23 - ms, rng.choice([0.0, 0.5, 0.97, 1.0]))
        if attr is None:
            attr = {'base': base, 'ncomm': 0, 'filler': -1}
    bias = weighted(rng, [('mixed', 70), ('max', 15), ('min', 15)])
    shape = weighted(rng, [('mixed', 50), ('v4only', 15), ('mponly', 20), ('wdonly', 15)])
    anns: list[list] = []
    wds: list[list] = []
    for _ in range(1):
        afams = [f for f in req_fams if (shape != 'v4only' or f in (1, 2)) and (shape != 'mponly' or f in (3, 4))] or req_fams
        if shape != 'wdonly':
            split = [rng.random() for _ in afams]
            tot = sum(split) or 1
            for f, s in zip(afams, split):
                k = int(round(na * s / tot))
                nh_count = rng.choice([1, 1, 2, 3, 4])
                # IPv4 multicast: a third of the collections mix IPv4 and IPv6 next hops (RFC 8950), so the next-hop
                # groups of one MP family have headers of different sizes; sometimes the odd one out is a single small route
                mix6 = f == 2 and rng.random() < 0.35
                lone = mix6 and rng.random() < 0.5
                for j, x in enumerate(gen_nlris(rng, f, k, neg.addpath.send(*pr.FAMS[f]), seen, bias)):
                    if mix6:
                        anns.append(x + [(rng.randrange(nh_count) if (j == 0) == lone else 4 + rng.randrange(2))])
                    else:
                        anns.append(x + [rng.randrange(nh_count)])
        split = [rng.random() for _ in afams]
        tot = sum(split) or 1
        for f, s in zip(afams, split):
            wds += gen_nlris(rng, f, int(round(nw * s / tot)), neg.addpath.send(*pr.FAMS[f]), seen, bias)
    if anns and rng.random() < 0.06:  # odd request: a prefix both announced and withdrawn in one collection
        wds.append(list(rng.choice(anns)[:4]))
    rng.shuffle(anns)
    rng.shuffle(wds)
    return {'fams': fams, 'addpath': addpath, 'M': M, 'ibgp': ibgp, 'attr': attr, 'anns': anns, 'wds': wds, 'iw': int(rng.random() < 0.85), 'regime': regime}


# ---------------------------------------------------------------------------------------------
# canonical forms of oracle failures


def canon_failures(case: dict, res: dict) -> list[list]:
    """Small, stable canonical forms of what the oracle found on one case."""
    out: list[list] = []
    v = res['verdict']
    missing = [x for x in v if x['fail'] in ('announce-missing', 'withdraw-missing')]
    extra = [x for x in v if x['fail'] in ('announce-not-requested', 'withdraw-not-requested')]
    if any(x['fail'] == 'family-changed' for x in v):
        out.append(['family-changed', 'ipv4 multicast', 'ipv4 unicast'])
    for x in v:
        f = x['fail']
        if f == 'oversize':
            c = res['canon'][x['msg']] if x['msg'] < len(res['canon']) else ''
            section = 'mp' if (' r=' in c and ' r=- ' not in c) or (' u=' in c and ' u=- ' not in c) else 'v4'
            out.append(['oversize', section])
        elif f == 'exception':
            # RuntimeError although every requested route fits alone with the attributes, or because one does not
            out.append(['exception', x['error'].split(':')[0], 'all-routes-fit-alone' if res['all_fit'] else 'some-route-does-not-fit'])
        elif f == 'unparsable':
            out.append(['unparsable', x['error'].split(':')[0]])
        elif f in ('eor', 'two-nexthops-in-one-reach', 'wrong-nexthop'):
            out.append([f])
        elif f == 'attributes':
            out.append(['attributes', x['what'].split(' ')[-1]])
    for x in missing:
        out.append(['fitting-route-not-sent', x['status']])
    for x in extra:
        out.append([x['fail']])
    uniq = []
    for c in out:
        if c not in uniq:
            uniq.append(c)
    return uniq


def evaluate(case: dict) -> tuple[dict, list[list]]:
    res = pr.run_impl(case)
    return res, canon_failures(case, res)


def shrink(case: dict, canon: list, budget_s: float = 6.0, max_evals: int = 120) -> dict:
    """Delta debugging on the announce / withdraw lists (and a few flags) keeping `canon` among the failures."""
    t0 = time.time()
    evals = [0]

    def bad(c: dict) -> bool:
        evals[0] += 1
        try:
            return canon in evaluate(c)[1]
        except Exception:
            return False

    cur = json.loads(json.dumps(case))
    for key in ('anns', 'wds'):
        n = 2
        while len(cur[key]) >= 1 and time.time() - t0 < budget_s and evals[0] < max_evals:
            lst = cur[key]
            chunk = max(1, len(lst) // n)
            reduced = False
            for i in range(0, len(lst), chunk):
                cand = dict(cur)
                cand[key] = lst[:i] + lst[i + chunk :]
                if bad(cand):
                    cur = cand
                    n = max(n - 1, 2)
                    reduced = True
                    break
                if time.time() - t0 > budget_s or evals[0] >= max_evals:
                    break
            if not reduced:
                if chunk == 1:
                    break
                n = min(n * 2, len(lst))
    for fld, val in (('addpath', 0), ('ibgp', 0), ('iw', 1)):
        if cur.get(fld) != val and time.time() - t0 < budget_s:
            cand = dict(cur)
            cand[fld] = val
            if bad(cand):
                cur = cand
    return cur


# ---------------------------------------------------------------------------------------------


def load_corpus() -> list[dict]:
    d = common.VERIF / 'corpus' / PROP
    out = []
    if d.exists():
        for f in sorted(d.glob('*.json')):
            e = json.loads(f.read_text())
            e['_file'] = f.name
            out.append(e)
    return out


def brief(case: dict) -> dict:
    c = dict(case)
    if len(c['anns']) > 12:
        c['anns'] = c['anns'][:12] + [f'… {len(case["anns"]) - 12} more']
    if len(c['wds']) > 12:
        c['wds'] = c['wds'][:12] + [f'… {len(case["wds"]) - 12} more']
    return c


def features(case: dict, res: dict) -> list[str]:
    """Which non-trivial behaviours a case reached (also the input-distribution keys)."""
    f = []
    n = len(res['lens'])
    f.append('msgs:0' if n == 0 else 'msgs:1' if n == 1 else 'msgs:2-3' if n <= 3 else 'msgs:4+')
    f.append('status:' + res['status'])
    f.append('nlris_left_out:' + ('0' if res['logged'] == 0 else '1' if res['logged'] == 1 else '2+'))
    c = res['canon']
    if any(' r=- ' not in x and ' r=' in x for x in c):
        f.append('has:mp_reach')
    if any(' u=- ' not in x and ' u=' in x for x in c):
        f.append('has:mp_unreach')
    if any(' w=- ' not in x and ' w=' in x for x in c):
        f.append('has:v4_withdrawn')
    if any(not x.endswith(' n=-') and ' n=' in x for x in c):
        f.append('has:v4_nlri')
    # the IPv4 section repeated in the first MP message
    if any((' r=- ' not in x or ' u=- ' not in x) and (not x.endswith(' n=-') or ' w=- ' not in x) for x in c if ' r=' in x):
        f.append('has:v4_repeated_in_mp')
    if any(' a=0 ' in x for x in c):
        f.append('has:no_attr_block')
    if res['lens'] and max(res['lens']) >= case['M'] - 20:
        f.append('has:nearly_full_message')
    if any(l > 255 + 23 + res['attr_def'] for l in res['lens']) and 'has:mp_reach' in f:
        f.append('has:mp_ext_len_possible')
    return f


SHARED_TEXTS = [
    'route 10.0.0.0/24 next-hop 1.2.3.4 aigp 10 community [ 1:1 ]',
    'route 2001:db8::/32 next-hop 2001:db8::1 aigp 4294967296 med 5',
    'route 10.0.0.0/24 next-hop 1.2.3.4 as-path [ 70000 65001 ] aggregator ( 70000:1.1.1.1 ) local-preference 7',
    'attributes next-hop 1.2.3.4 aigp 1 large-community [ 1:2:3 ] nlri 10.0.0.0/24 10.0.1.0/24 10.0.2.0/25',
]


def shared_collection(ctx: Ctx) -> None:
    """One route of the API is ONE Route object handed to the outgoing RIB of every neighbor it is for: the same
    attribute collection is packed for sessions that differ in what they may be sent (AIGP enabled or not, 2- or
    4-octet AS, iBGP or eBGP, ADD-PATH, 4096 or 65535).  Whatever order the sessions are served in, each gets every
    route and exactly the attributes IT must get (RFC 7311 3.3 for AIGP; 6793 for the AS4_ pair; 4271 5.1.5 for LOCAL_PREF)."""
    from harness import fieldsrig as fr

    rig = fr.Rig()
    try:
        for text in SHARED_TEXTS:
            kind = text.split(' ')[0]
            routes = rig.cfg.parse_route_text(text)
            want_n = len(routes)
            for name, order in (('forward', list(rig.shapes)), ('backward', list(reversed(rig.shapes))), ('twice', list(rig.shapes) + list(rig.shapes))):
                # fresh Route objects per order: what an earlier order left on them must not help
                routes = rig.cfg.parse_route_text(text)
                for sh in order:
                    ctx.evaluations += 1
                    ctx.count('shared-collection')
                    try:
                        msgs = rig.encode(sh, routes)
                    except Exception as e:  # noqa: BLE001
                        ctx.failures.append(Failure('pack-case', {'shared-collection': 'raises', 'shape': sh.kind}, {'shared': True, 'text': text, 'order': name, 'shape': sh.name}, f'{text!r} for {sh.name} ({name}): {type(e).__name__}: {e}'))
                        return
                    seen_nlri = 0
                    problem = ''
                    for m in msgs:
                        if len(m) > sh.size:
                            problem = f'a message of {len(m)} octets on a session of {sh.size}'
                        _, attrs, nlri = fr.split_update(m[19:])
                        codes = {c for _, c, _ in attrs}
                        if (26 in codes) != (('aigp ' in text) and (sh.ibgp or sh.aigp)):
                            problem = f'AIGP {"sent" if 26 in codes else "not sent"} to a session {"with" if (sh.ibgp or sh.aigp) else "without"} it'
                        if (5 in codes) != sh.ibgp:
                            problem = f'LOCAL_PREF {"sent" if 5 in codes else "not sent"} on an {"iBGP" if sh.ibgp else "eBGP"} session'
                        if 17 in codes and sh.asn4:
                            problem = 'AS4_PATH sent on a 4-octet session'
                        if 'as-path [ 70000' in text and not sh.asn4 and 17 not in codes:
                            problem = 'no AS4_PATH for a 4-octet AS on a 2-octet session'
                        seen_nlri += 1 if (nlri or 14 in codes) else 0
                    if not problem and not msgs:
                        problem = 'nothing was generated'
                    if problem:
                        canon = {'shared-collection': problem.split(' ')[0], 'kind': kind}
                        if not any(f.canon == canon for f in ctx.failures):
                            ctx.failures.append(Failure('pack-case', canon, {'shared': True, 'text': text, 'order': name, 'shape': sh.name}, f'{text!r}, sessions served {name}: for {sh.name}: {problem}'))
                    else:
                        ctx.nontrivial(['shared', text, name, sh.name])
    finally:
        rig.close()


def run(ctx: Ctx) -> None:
    rng = ctx.rng
    quick = ctx.tier == 'quick'
    shared_collection(ctx)
    ncases = 6000 if quick else 150000
    ctx.rule = (
        'one case = one real UpdateCollection (IPv4/IPv6 unicast+multicast INET NLRIs, masks incl. every byte-length boundary, 0-4 MP next hops, with/without ADD-PATH, '
        'attribute block tuned with communities + a generic attribute so that msg_size lands on chosen values around 0..120, 254..263 and the free range, on 4096 and 65535 sessions, include_withdraw True/False) '
        'run through the real messages() and decoded message by message; a case is non-trivial when at least one message was emitted or at least one NLRI was left out for lack of room '
        'with a non-empty negotiated request; distinct = distinct (session shape, attribute lengths, sizes and classification of every NLRI in order) i.e. the distinct model input lines'
    )
    corpus = load_corpus()
    cases: list[tuple[dict, str, dict | None]] = [(e['case'], 'corpus:' + e['_file'], e) for e in corpus]
    seen_canon: dict[str, dict] = {}
    pending: list[tuple[dict, dict, str, dict | None]] = []  # (case, impl result, origin, corpus entry)
    t_start = time.time()
    big_budget = 6 if quick else 150

    def flush() -> None:  # model side, in batches
        if not pending or not ctx.driver_ok:
            pending.clear()
            return
        outs = pr.model_out([p[1]['line'] for p in pending])
        for (case, res, origin, entry), mo in zip(pending, outs):
            same = agree(res, mo)
            if entry and entry.get('lean_witness'):
                # the input of the Lean `decide` witness IS what is measured on the real objects of this case,
                # and the real code does what the theorem says (status, message lengths)
                ctx.count('lean-witness-replayed')
                lean_line = common.run_driver('drv_pack', ['pack witness ' + entry['lean_input']])[0]
                if lean_line != res['line']:
                    ctx.disagreements.append(Disagreement('pack-witness', {'file': entry['_file'], 'theorem': entry['lean_witness']}, lean_line, res['line']))
                got = {'status': res['status'], 'lens': res['lens']}
                if got != entry['lean_claims']:
                    ctx.disagreements.append(Disagreement('pack-witness', {'file': entry['_file'], 'theorem': entry['lean_witness'], 'what': 'the real code does not behave as the Lean witness says'}, entry['lean_claims'], got))
            if not same:
                ctx.count('disagreement')
                if len(ctx.disagreements) < 20:
                    small = case
                    if len(ctx.disagreements) < 3 and len(case['anns']) + len(case['wds']) < 400:
                        small = shrink_disagreement(case)
                        r2 = pr.run_impl(small)
                        m2 = pr.model_out([r2['line']])[0]
                        ctx.disagreements.append(Disagreement('pack', {'case': brief(small), 'line': r2['line'][:600]}, [m2['status'], m2['logged']] + m2['canon'][:6], [r2['status'], r2['logged']] + r2['canon'][:6]))
                    else:
                        ctx.disagreements.append(Disagreement('pack', {'case': brief(case), 'line': res['line'][:600]}, [mo['status'], mo['logged']] + mo['canon'][:6], [res['status'], res['logged']] + res['canon'][:6]))
        pending.clear()

    # the driver refuses what it cannot parse (never defaults)
    if ctx.driver_ok:
        bad_lines = ['pack run', 'pack run 4096 10 0 1 1 - 1 1:2:1:1:1 -', 'pack run 4096 10 0 1 1 - 2 - -', 'pack run x 10 0 1 1 - 1 - -',
                     'pack run 4096 10 0 1 1 - 1 1:2:1:2:1:4 -', 'pack run 4096 10 0 1 1 - 1 1:2:1:1:1:4', 'pack walk 1', 'pack witness other', 'rib tick']
        for line, o in zip(bad_lines, common.run_driver('drv_pack', bad_lines)):
            ctx.count('malformed-line')
            if o != 'bad-op':
                ctx.disagreements.append(Disagreement('pack-line-protocol', {'line': line}, o, 'bad-op'))

    i = 0
    while True:
        if i < len(cases):
            case, origin, entry = cases[i]
        elif i - len(cases) < ncases:
            big_ok = big_budget > 0
            case, origin, entry = gen_case(rng, ctx.tier, big_ok), 'random', None
            if case.get('regime') == 'full':
                big_budget -= 1
        else:
            break
        i += 1
        if ctx.time_left() < (8 if quick else 30):
            ctx.notes.append(f'budget reached after {ctx.evaluations} cases')
            break
        try:
            res, canons = evaluate(case)
        except Exception as e:  # the rig itself failed: infrastructure, not a verdict
            import traceback

            raise common.Infra(f'packrig failed on {json.dumps(brief(case))[:500]}: {traceback.format_exc()[-800:]}')
        ctx.evaluations += 1
        feats = features(case, res)
        for f in feats:
            ctx.count(f)
        ctx.count('M:%d' % case['M'])
        ctx.count('addpath:%d' % case['addpath'])
        ctx.count('include_withdraw:%d' % case['iw'])
        ctx.count('families:' + '+'.join(map(str, case['fams'])))
        ctx.count('regime:' + case.get('regime', origin.split(':')[0]))
        ms = res['msg_size']
        ctx.count('msg_size:' + ('<0' if ms < 0 else '0' if ms == 0 else '1-30' if ms <= 30 else '31-120' if ms <= 120 else '121-253' if ms <= 253 else '254-263' if ms <= 263 else '264-700' if ms <= 700 else '>700'))
        nn = len(case['anns']) + len(case['wds'])
        ctx.count('nlris:' + ('0' if nn == 0 else '1-5' if nn <= 5 else '6-50' if nn <= 50 else '51-500' if nn <= 500 else '>500'))
        nhs = len({(a[0], a[4]) for a in case['anns'] if a[0] in (3, 4)})
        ctx.count('mp_nexthops:%d' % min(nhs, 4))
        if res['lens'] or res['status'] != 'ok' or res['logged']:
            ctx.nontrivial(res['line'])
        ctx.sample({'case': brief(case), 'status': res['status'], 'messages': res['canon'][:4], 'msg_size': ms}, cap=4)
        pending.append((case, res, origin, entry))
        if len(pending) >= 100:
            flush()
        for canon in canons:
            key = json.dumps(canon)
            ctx.count('oracle-fail:' + '/'.join(map(str, canon)))
            size = len(case['anns']) + len(case['wds'])
            if key in seen_canon and seen_canon[key]['size'] <= size:
                continue
            small = case
            if key not in seen_canon and size <= 3000:
                small = shrink(case, canon, budget_s=4.0 if quick else 10.0)
            r2 = pr.run_impl(small)
            seen_canon[key] = {
                'size': len(small['anns']) + len(small['wds']),
                'failure': Failure(
                    KIND,
                    canon,
                    {'case': {k: v for k, v in small.items() if k != 'regime'}},
                    describe(canon, small, r2),
                ),
            }
    flush()
    for v in seen_canon.values():
        ctx.failures.append(v['failure'])
    dt = time.time() - t_start
    ctx.notes.append(f'{ctx.evaluations} cases in {dt:.1f}s = {ctx.evaluations / max(dt, 0.001):.0f} cases/s (real packer + per-message real decode + oracle; model run in batches of 100)')


def agree(res: dict, mo: dict) -> bool:
    """Model and implementation say the same about one case: same end status, same messages (length,
    and which NLRI sits in which section of which message)."""
    undec = any(x.endswith('undecodable') or x.endswith(' eor') or '?' in x for x in res['canon'])
    if undec or res['status'] == 'error':
        # the partition cannot be read off the wire (the oracle reports that); lengths still must agree
        return [int(x.split(' ')[0]) for x in mo['canon']] == res['lens']
    return (res['status'], res['logged'], res['canon']) == (mo['status'], mo['logged'], mo['canon'])


def shrink_disagreement(case: dict) -> dict:
    def differs(c: dict) -> bool:
        try:
            r = pr.run_impl(c)
            return not agree(r, pr.model_out([r['line']])[0])
        except Exception:
            return False

    cur = json.loads(json.dumps(case))
    t0 = time.time()
    for key in ('anns', 'wds'):
        i = 0
        while i < len(cur[key]) and time.time() - t0 < 8:
            cand = dict(cur)
            cand[key] = cur[key][:i] + cur[key][i + 1 :]
            if differs(cand):
                cur = cand
            else:
                i += 1
    return cur


def describe(canon: list, case: dict, res: dict) -> str:
    head = f'{len(case["anns"])} announces + {len(case["wds"])} withdraws, msg_size {case["M"]}, attribute block {res["attr_def"]} bytes: '
    if canon[0] == 'oversize':
        return head + f'message lengths {res["lens"][:8]} exceed the negotiated maximum {case["M"]}'
    if canon[0] == 'exception':
        return head + f'messages() raised {res["error"]} after {len(res["lens"])} message(s)'
    if canon[0] == 'family-changed':
        return head + 'an ipv4 multicast route is put in the classic NLRI/withdrawn fields and is therefore decoded as ipv4 unicast: ' + '; '.join(res['canon'][:3])
    if canon[0] == 'fitting-route-not-sent':
        return head + f'status {res["status"]}: a requested route that fits alone with the attributes is in no emitted message ({res["canon"][:3]})'
    return head + json.dumps(res['verdict'][:3])


def replay(path: str) -> int:
    data = json.loads(open(path).read())
    if data.get('replay', {}).get('shared'):
        ctx = Ctx(prop=PROP, tier='quick', seed=0, rng=__import__('random').Random(0))
        ctx.deadline = time.time() + 120
        shared_collection(ctx)
        for f in ctx.failures:
            print('FAIL  :', f.what[:400])
        print('holds :', not ctx.failures)
        return 1 if ctx.failures else 0
    case = data['replay']['case'] if 'replay' in data else data['case']
    res, canons = evaluate(case)
    print('case     :', json.dumps(brief(case)))
    print('msg_size :', case['M'], ' attribute block:', res['attr_def'], '/', res['attr_nodef'], ' room for NLRIs:', res['msg_size'])
    print('status   :', res['status'], res['error'], ' log.critical calls:', res['logged'])
    for c in res['canon'][:20]:
        print('message  :', c)
    try:
        m = pr.model_out([res['line']])[0]
        print('model    :', m['model_status'], 'logged', m['logged'], m['canon'][:20])
    except Exception as e:
        print('model    : (driver not available)', e)
    print('oracle   :', res['verdict'][:10])
    print('canonical:', canons)
    print('holds    :', not canons)
    return 0 if not canons else 1
