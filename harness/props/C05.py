"""C05 — the session state machine only takes RFC 4271 transitions.

The real `Peer.run()` coroutine over real sockets with a scripted remote speaker and a virtual
clock (harness/sessionrig.py) against M-Session (drv_session), plus the property's own oracle on
the observed trace: every FSM change is an RFC 4271 §8.2.2 transition, ESTABLISHED only after
OPEN sent / valid peer OPEN / KEEPALIVE on that connection, UPDATE / End-of-RIB / ROUTE-REFRESH
bytes only while ESTABLISHED, the transport closed when a connected state is left, API up/down
alternate."""

from __future__ import annotations

from harness import sessionrig
from harness.common import Ctx

THEOREM_MODULES = ['ExaModel.Props.C05']
DRIVERS = ['drv_session']
TABLES = ['fsm', 'pypeer']
ASSUMPTIONS = [
    'events reach the peer while its coroutine is suspended at a read, at the pending connect or in the restart loop (one event at a time; the 1 ms pause between two main-loop iterations is not an injection point)',
    'one main-loop iteration flushes the pending routes (the rig keeps batches below the 25 messages per iteration); the periodic KEEPALIVE of the established session is C12\'s and is not compared',
    'route-refresh capability configured, extended-message off (maximum message size 4096), API process errors (ProcessError) not injected',
    'what asyncio does between two events is seen only through the runs; the model is corrected to what they show',
]
TRUSTED_EXTRA = ['session rig harness/sessionrig.py: wraps FSM.change / Connection.close / Connection.writer_async / Protocol.connect / Protocol.read_message / Peer._run from outside, virtual-time event loop']
PROP = 'C05'


def run(ctx: Ctx) -> None:
    sessionrig.run_property(ctx, PROP, fault_weight=1.0)


def replay(path: str) -> int:
    return sessionrig.replay_file(path, PROP)
