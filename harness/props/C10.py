"""C10 — every protocol error is answered with the right NOTIFICATION, once.

Same rig and model as C05 (harness/sessionrig.py, drv_session) with the fault-injection part of
the alphabet weighted up; the oracle looks, for every fault / timer / teardown arriving on the
connection in use, at what ExaBGP wrote on it until it closed it: exactly one NOTIFICATION whose
(code, subcode) is in the RFC class of the cause (`errorClass`, hand-written from RFC 4271 §6,
RFC 6608, RFC 7313), nothing in reply to a NOTIFICATION, nothing after a NOTIFICATION."""

from __future__ import annotations

from harness import sessionrig
from harness.common import Ctx
from harness.props import C05

THEOREM_MODULES = ['ExaModel.Props.C10']
DRIVERS = ['drv_session']
TABLES = ['notify', 'pypeer']
ASSUMPTIONS = C05.ASSUMPTIONS + [
    'a malformed OPEN / UPDATE arriving in a state that does not expect the message at all may be answered with its own class (2/x, 3/x) or with the state-machine class (5/x): both readings of RFC 4271 / RFC 6608 are accepted',
    'cease: any defined 6/x is accepted for an API teardown; graceful-restart teardown closes without NOTIFICATION by design (API-initiated, outside the property)',
]
TRUSTED_EXTRA = C05.TRUSTED_EXTRA
PROP = 'C10'


def run(ctx: Ctx) -> None:
    sessionrig.run_property(ctx, PROP, fault_weight=2.5)


def replay(path: str) -> int:
    return sessionrig.replay_file(path, PROP)
