"""C07 — negotiated session parameters are the RFC function of the two OPENs.

Correspondence of M-Nego / M-OpenCodec (lean/ExaModel/Model/{Nego,OpenCodec}.lean, exe drv_nego)
with the real OPEN code of /repo (harness/negorig.py), and the property's own oracle on the
implementation:

  * peer OPEN bodies come from the Lean RFC *reference encoder* (`nego enc`): any set / order /
    duplication of capabilities, any grouping into parameters, RFC 4271 and RFC 9072 formats,
    parameter block lengths around 254/255/256, any fixed fields; plus a malformed stream.
  * correspondence: decoded capability dict, every Negotiated field, validate() and the bytes of
    the OPEN we send — real code vs `drv_nego`, compared exactly.
  * oracle (independent of `negotiate`/`capSet`): `rfcNegotiate`/`rfcRefusals` evaluated by the
    driver on the reference-decoded bytes actually exchanged vs the implementation's Negotiated;
    our OPEN reference-decodes to exactly what the configuration enables (expectation computed here
    from the configuration data); injected faults are refused with the subcode naming the fault.
"""

from __future__ import annotations

import json
from typing import Any

from harness import common, negorig
from harness.common import Ctx, Disagreement, Failure

THEOREM_MODULES = ['ExaModel.Props.C07']
DRIVERS = ['drv_nego']
TABLES = ['cap', 'pynego']
PROP = 'C07'
ASSUMPTIONS = [
    'neighbor configurations are built through NeighborSettings / Neighbor.from_settings (host/domain names in the alphabet and length the configuration parser accepts)',
    'TCP-MD5/AO, BGP-ID auto-discovery and `local-as auto` (OPEN sent after the peer\'s) are not modelled',
    'the sent capability dict is modelled by its wire form (capSet of the emitted capabilities); the in-memory dict differs only by an MP key with no family and a HOSTNAME key with an empty name, neither of which is read by _negotiate',
    'ADD-PATH send/receive octets outside 0..3 are read by the code as a bit mask (RFC 7911: SHOULD be ignored); theorems state the bit-mask behaviour and the RFC reading under the hypothesis that the octets are 0..3; the oracle does not compare ADD-PATH for such peers',
    'the configured local AS is not AS_TRANS (23456, reserved by RFC 6793 §9)',
    'a peer whose My-AS field disagrees with its own ASN4 capability has no RFC-defined AS number: peer AS / refusal are not compared by the oracle for such peers (the model still is)',
]

AS_TRANS = 23456
ADD_PATH = [(1, 1), (2, 1), (1, 4), (2, 4), (1, 128), (2, 128), (1, 85), (2, 85)]
NEXTHOP = [(1, 1, 2), (1, 2, 2), (1, 4, 2), (1, 128, 2)]
# families ExaBGP knows (subset) + the ADD-PATH ones
FAMILIES = [(1, 1), (1, 2), (1, 4), (1, 85), (1, 128), (1, 5), (1, 133), (1, 134), (1, 132), (2, 1), (2, 2), (2, 4), (2, 85), (2, 128), (2, 5), (2, 133), (2, 134), (25, 65), (25, 70), (16388, 71), (16388, 72), (1, 73), (2, 73)]  # Family.all_families()
ODD_FAMILIES = [(3, 1), (1, 200), (65535, 255), (0, 0), (1, 0)]
UNKNOWN_CODES = [0, 3, 4, 7, 66, 67, 71, 72, 74, 78, 100, 127, 129, 130, 184, 200, 255]
HOSTCHARS = 'abcdefghijklmnopqrstuvwxyzABCDEFGHIJKLMNOPQRSTUVWXYZ0123456789'


def trans(asn: int) -> int:
    return AS_TRANS if asn > 65535 else asn


# ---------------------------------------------------------------------------------------------
# generators


# UTF-8 edge cases for the hostname / software-version strings (bytes.decode('utf-8') is strict)
UTF8_TRICKY = [
    '7f', 'c280', 'dfbf', 'e0a080', 'efbfbf', 'ed9fbf', 'ee8080', 'f0908080', 'f48fbfbf', 'e282ac',  # valid
    '80', 'bf', 'c0', 'c080', 'c1bf', 'c2', 'c27f', 'c2c0', 'e08080', 'e09fbf', 'e0a0', 'e0a07f', 'eda080', 'edbfbf',
    'f08080', 'f08f8080', 'f0908080'[:-2], 'f4908080', 'f5808080', 'f8888080', 'ff', 'fe', 'e1', 'e180', 'f1', 'f18080',
    'ef', 'efbf', '41c2', '41e282', 'c28041', 'e282ac41', 'f09f988041', '41ff41',
]  # fmt: skip


def gen_hostname(rng, maxlen: int = 64) -> str:
    n = rng.choice([1, 2, 5, 10, 30, 63, 64])
    n = min(n, maxlen)
    mid = ''.join(rng.choice(HOSTCHARS + '.-') for _ in range(max(0, n - 2))).replace('..', '.a')
    s = rng.choice(HOSTCHARS) + mid + (rng.choice(HOSTCHARS) if n > 1 else '')
    return s[:n] if s[:n][-1].isalnum() else s[: n - 1] + 'z'


def gen_cfg(rng, thorough: bool) -> dict:
    c = negorig.default_cfg()
    c['las'] = rng.choice([1, 64512, 65000, 65001, 65535, 65536, 70000, 4200000000, 4294967295])
    x = rng.random()
    if x < 0.35:
        c['pas'] = c['las']  # iBGP
    elif x < 0.45:
        c['pas'] = 0  # any
    else:
        c['pas'] = rng.choice([1, 65001, 65002, 65535, 65536, 70001, 4200000001, 23456])
    c['rid'] = rng.choice([0x01010101, 0x0A000001, 0xC0A80001, 1, 0xFFFFFFFF])
    c['hold'] = rng.choice([0, 3, 4, 30, 90, 180, 180, 65535, rng.randrange(3, 65536)])
    k = rng.choice([0, 1, 1, 2, 2, 3, 4, 6, len(FAMILIES)]) if not thorough else rng.choice([0, 1, 2, 3, 4, 6, 10, len(FAMILIES)])
    c['fam'] = [list(f) for f in rng.sample(FAMILIES, k)]
    c['asn4'] = int(rng.random() < (0.95 if max(c['las'], c['pas']) > 65535 else 0.75))
    c['nhon'] = int(rng.random() < 0.4)
    c['nhs'] = [list(t) for t in rng.sample(NEXTHOP + [(2, 1, 1), (1, 133, 2)], rng.randrange(0, 5))]
    c['ap'] = rng.choice([0, 0, 1, 2, 3, 3])
    pool = [tuple(f) for f in c['fam']] + ADD_PATH[:4]
    c['aps'] = [list(f) for f in sorted(set(rng.sample(pool, rng.randrange(0, min(len(pool), 5) + 1))))]
    if rng.random() < 0.25 and c['aps']:
        c['pl'] = [[f[0], f[1], rng.choice([0, 1, 5, 255, 65535])] for f in rng.sample(c['aps'], rng.randrange(1, len(c['aps']) + 1))]
    c['gr'] = rng.choice([None, None, 0, 1, 120, 4095, 4096, 65535])
    c['rr'] = int(rng.random() < 0.6)
    c['op'] = int(rng.random() < 0.2)
    c['em'] = int(rng.random() < 0.7)
    if rng.random() < 0.5:
        c['host'] = gen_hostname(rng)
        c['dom'] = gen_hostname(rng) if rng.random() < 0.6 else ''
    c['sw'] = int(rng.random() < 0.3)
    c['ll'] = int(rng.random() < 0.2)
    c['ms'] = int(rng.random() < 0.08)
    if rng.random() < 0.15:
        textable(rng, c)
    return c


TEXT_FAMILIES = [(1, 1), (1, 2), (1, 4), (1, 85), (1, 128), (1, 5), (1, 133), (1, 134), (2, 1), (2, 4), (2, 85), (2, 128), (2, 5), (2, 133), (2, 134), (25, 65), (25, 70), (16388, 71), (16388, 72), (1, 73), (2, 73)]


def textable(rng, c: dict) -> dict:
    """Bend a configuration to what the configuration-file grammar can say, and mark it for the
    text path (real Configuration parser instead of NeighborSettings)."""
    c['fam'] = [f for f in c['fam'] if tuple(f) in TEXT_FAMILIES] or [[1, 1]]
    c['aps'] = [f for f in c['aps'] if tuple(f) in TEXT_FAMILIES]
    c['nhs'] = [t for t in c['nhs'] if tuple(t) in NEXTHOP]
    aps = {tuple(f) for f in c['aps']}
    c['pl'] = [e for e in c['pl'] if (e[0], e[1]) in aps and 1 <= e[2] <= 65535]
    if c['gr'] is not None:
        c['gr'] = min(c['gr'], 4095)
    if not c['pas']:
        c['pas'] = 65001
    c['_text'] = 1
    return c


def extreme_cfgs(rng) -> list[dict]:
    """The largest values the configuration grammar accepts, alone and all together (text path)."""
    out = []
    big = negorig.default_cfg()
    big.update({
        'las': 4294967295, 'pas': 4294967295, 'rid': 0xFFFFFFFF, 'hold': 65535, 'fam': [list(f) for f in TEXT_FAMILIES],
        'asn4': 1, 'nhon': 1, 'nhs': [list(t) for t in NEXTHOP], 'ap': 3, 'aps': [list(f) for f in ADD_PATH],
        'pl': [[a, s, 65535] for a, s in ADD_PATH], 'gr': 4095, 'rr': 1, 'op': 1, 'em': 1,
        'host': 'h' * 255, 'dom': 'd' * 255, 'sw': 1, 'll': 1, 'ms': 0, '_text': 1,
    })  # fmt: skip
    out.append(big)
    for k, v in (('host', 'a' * 64), ('host', 'a' * 65), ('host', 'a' * 255), ('dom', 'b' * 255), ('gr', 4095), ('gr', 0),
                 ('hold', 65535), ('hold', 0), ('las', 4294967295), ('fam', [list(f) for f in TEXT_FAMILIES]), ('ms', 1)):
        c = negorig.default_cfg()
        c[k] = v
        if k == 'dom':
            c['host'] = 'r1'
        c['_text'] = 1
        out.append(c)
    c = negorig.default_cfg()
    c.update({'fam': [list(f) for f in ADD_PATH], 'ap': rng.choice([1, 3]), 'aps': [list(f) for f in ADD_PATH], 'pl': [[a, s, rng.choice([1, 65535])] for a, s in ADD_PATH], '_text': 1})
    out.append(c)
    # one step beyond each maximum: the parser must refuse (if it accepts, cfgOK / the OPEN decide)
    for k, v in (('host', 'a' * 256), ('dom', 'b' * 256), ('gr', 4096), ('hold', 65536), ('las', 4294967296), ('rid', 1 << 32), ('pl', [[1, 1, 65536]]), ('pl', [[1, 1, 0]])):
        c = negorig.default_cfg()
        c.update({'ap': 3, 'aps': [[1, 1]], 'host': 'r1'})
        c[k] = v
        c['_text'] = c['_text_only'] = 1
        c['_beyond'] = 1
        out.append(c)
    # the same through NeighborSettings, all 23 families
    c = dict(big)
    c.pop('_text')
    c['fam'] = [list(f) for f in FAMILIES]
    c['gr'] = 65535
    c['host'], c['dom'] = 'h' * 64, 'd' * 64
    out.append(c)
    return out


def hexs(b: bytes) -> str:
    return b.hex()


def gen_caps(rng, c: dict, ours_caps_hint: dict) -> list[str]:
    """Typed capabilities of the peer, in the driver's syntax; mostly related to our configuration."""
    caps: list[str] = []
    our_fams = [tuple(f) for f in c['fam']]
    true_as = rng.choice([c['pas'] or 65001] * 12 + [65002, 70002, AS_TRANS])
    ours_caps_hint['true_as'] = true_as
    # MP
    if rng.random() < 0.9:
        pool = our_fams + rng.sample(FAMILIES, 3) + ([rng.choice(ODD_FAMILIES)] if rng.random() < 0.15 else [])
        for f in rng.sample(pool, rng.randrange(0, len(pool) + 1)):
            caps.append(f'mp:{f[0]}:{f[1]}')
            if rng.random() < 0.1:
                caps.append(f'mp:{f[0]}:{f[1]}')  # duplicate
    # ASN4
    x = rng.random()
    if x < (0.92 if true_as > 65535 else 0.7):
        caps.append(f'asn4:{true_as}')
        if rng.random() < 0.05:
            caps.append(f'asn4:{rng.choice([true_as, 1, 70009])}')
    elif x < 0.95 and true_as <= 65535 and rng.random() < 0.2:
        caps.append(f'asn4:{rng.choice([1, 65000, 70009, 4294967295, 0])}')  # inconsistent with the field
    # ADD-PATH (possibly several capabilities, repeated families)
    for _ in range(rng.choice([0, 0, 1, 1, 1, 2])):
        pool = [tuple(f) for f in c['aps']] + ADD_PATH + our_fams
        es = []
        for f in rng.sample(pool, rng.randrange(0, min(len(pool), 5) + 1)):
            sr = rng.choice([1, 2, 3, 3, 3, 0]) if rng.random() < 0.93 else rng.choice([4, 5, 6, 7, 128, 255])
            es.append(f'{f[0]}.{f[1]}.{sr}')
        caps.append('ap:' + ';'.join(es))
    # next hop
    for _ in range(rng.choice([0, 0, 1, 1, 2])):
        pool = NEXTHOP + [(2, 1, 1), (1, 1, 1), (1, 133, 2)]
        caps.append('nh:' + ';'.join(f'{a}.{s}.{h}' for a, s, h in rng.sample(pool, rng.randrange(0, 5))))
    for name, p in (('rr', 0.6), ('rrc', 0.15), ('enh', 0.5), ('em', 0.6), ('op', 0.2), ('ll', 0.2)):
        if rng.random() < p:
            caps.append(name)
            if rng.random() < 0.05:
                caps.append(name)
    if rng.random() < 0.3:
        fams = rng.sample(FAMILIES, rng.randrange(0, 4))
        caps.append(f'gr:{rng.choice([0, 8, 4, 15])}:{rng.choice([0, 120, 4095])}:' + ';'.join(f'{a}.{s}.{rng.choice([0, 128, 129, 255, 1])}' for a, s in fams))
    if rng.random() < 0.3:
        h = gen_hostname(rng).encode()
        if rng.random() < 0.2:
            h = rng.choice(['café', 'ü' * 5, '日本', '\U0001f600x', '']).encode('utf-8')
        d = gen_hostname(rng).encode() if rng.random() < 0.5 else b''
        caps.append(f'hn:{hexs(h)}:{hexs(d)}')
    if rng.random() < 0.25:
        caps.append('sw:' + hexs(rng.choice([b'FRRouting/10.0', b'x', b'', 'vé'.encode('utf-8'), b'B' * 64])))
    if rng.random() < (0.5 if c['ms'] else 0.06):
        caps.append(f'ms:{int(rng.random() < 0.2)}:{hexs(bytes(rng.randrange(256) for _ in range(rng.randrange(0, 3))))}')
    if rng.random() < 0.15:
        pool = [tuple(f) for f in c['aps']] + ADD_PATH
        caps.append('pl:' + ';'.join(f'{a}.{s}.{rng.choice([0, 1, 7, 65535])}' for a, s in rng.sample(pool, rng.randrange(0, 4))))
    for _ in range(rng.choice([0, 0, 0, 1, 2])):
        caps.append(f'unk:{rng.choice(UNKNOWN_CODES)}:{hexs(bytes(rng.randrange(256) for _ in range(rng.choice([0, 1, 4, 20]))))}')
    x = rng.random()
    if x < 0.5:
        rng.shuffle(caps)
    elif x < 0.6:
        caps.reverse()
    return caps


def group_caps(rng, caps: list[str]) -> str:
    if not caps:
        return rng.choice(['-', '_', '_/_'])
    x = rng.random()
    if x < 0.4:
        gs = [[cap] for cap in caps]  # one per parameter (what most speakers send)
    elif x < 0.65:
        gs = [list(caps)]  # all in one parameter
    else:
        gs, cur = [], []
        for cap in caps:
            cur.append(cap)
            if rng.random() < 0.4:
                gs.append(cur)
                cur = []
        if cur:
            gs.append(cur)
    if rng.random() < 0.08:
        gs.insert(rng.randrange(0, len(gs) + 1), [])
    return '/'.join(','.join(g) if g else '_' for g in gs)


def gen_fixed(rng, c: dict, hint: dict) -> tuple[int, int, int, int]:
    true_as = hint['true_as']
    ver = 4 if rng.random() < 0.96 else rng.choice([0, 1, 3, 5, 255])
    x = rng.random()
    if x < 0.9:
        asn = trans(true_as)
    elif x < 0.93:
        asn = AS_TRANS
    else:
        asn = rng.choice([0, 1, 65535, trans(c['las']), 65002])
    hold = rng.choice([0, 3, 4, 30, 90, 180, 65535, c['hold'], rng.randrange(3, 65536)]) if rng.random() < 0.9 else rng.choice([1, 2])
    rid = rng.choice([0x02020202, 0x02020202, 0x02020202, 0xFFFFFFFF, 1, rng.randrange(1, 1 << 32)]) if rng.random() < 0.88 else rng.choice([0, c['rid'], c['rid']])
    return ver, asn, hold, rid


def padding_caps(target_params_len: int, base_len: int, ext: bool) -> list[str] | None:
    """Unknown capabilities, one per parameter, that bring the parameter block from `base_len` to
    exactly `target_params_len` octets (parameter header 2 or 3, capability header 2)."""
    hdr = (3 if ext else 2) + 2
    need = target_params_len - base_len
    out = []
    while need > 0:
        if need < hdr:
            return None
        v = min(need - hdr, 200)
        if 0 < need - hdr - v < hdr:
            v = max(0, v - hdr)
        out.append('unk:200:' + '00' * v)
        need -= hdr + v
    return out


# ---------------------------------------------------------------------------------------------
# malformed stream


def mutate(rng, body: bytes) -> tuple[bytes, str]:
    """Single-point corruptions of a valid OPEN body. Returns (bytes, kind)."""
    b = bytearray(body)
    kind = rng.choice(['truncate', 'truncate', 'optlen', 'paramlen', 'caplen', 'paramtype', 'random-tail', 'append', 'flip', 'short', 'marker'])
    if kind == 'truncate':
        return bytes(b[: rng.randrange(0, len(b))]), kind
    if kind == 'short':
        return bytes(b[: rng.choice([0, 1, 8, 9, 10])]), kind
    if kind == 'optlen' and len(b) >= 10:
        b[9] = rng.choice([0, 1, 2, 3, max(0, b[9] - 1), min(255, b[9] + 1), 254, 255])
        return bytes(b), kind
    if kind == 'paramlen' and len(b) >= 12:
        b[11] = rng.choice([0, 1, max(0, b[11] - 1), min(255, b[11] + 1), 255])
        return bytes(b), kind
    if kind == 'caplen' and len(b) >= 14:
        b[13] = rng.choice([0, 1, max(0, b[13] - 1), min(255, b[13] + 1), 255])
        return bytes(b), kind
    if kind == 'paramtype' and len(b) >= 11:
        b[10] = rng.choice([0, 1, 3, 4, 254, 255])
        return bytes(b), kind
    if kind == 'random-tail' and len(b) > 10:
        i = rng.randrange(10, len(b))
        for j in range(i, len(b)):
            b[j] = rng.randrange(256)
        return bytes(b), kind
    if kind == 'append':
        return bytes(b) + bytes(rng.randrange(256) for _ in range(rng.randrange(1, 6))), kind
    if kind == 'marker' and len(b) >= 10:
        tail = bytes(rng.randrange(256) for _ in range(rng.choice([0, 1, 2, 3, 10, 300])))
        return bytes(b[:9]) + bytes([255, rng.choice([255, 255, 2, 0])]) + tail, kind
    if len(b) > 0:
        i = rng.randrange(len(b))
        b[i] = rng.randrange(256)
    return bytes(b), 'flip'


def inject_param(rng, fixed: tuple[int, int, int, int], groups: str, ptype: int, ext: bool) -> tuple[str, bytes]:
    """A well-framed optional parameter of type `ptype` appended after valid capability parameters.
    Returns the driver line building the valid part and the raw parameter to splice in."""
    v = bytes(rng.randrange(256) for _ in range(rng.choice([0, 1, 4])))
    param = bytes([ptype]) + (len(v).to_bytes(2, 'big') if ext else bytes([len(v)])) + v
    return f'nego enc {int(ext)} {fixed[0]} {fixed[1]} {fixed[2]} {fixed[3]} {groups}', param


def splice(body: bytes, param: bytes, ext: bool) -> bytes | None:
    """Append a raw parameter to the parameter block of a valid body, fixing the block length."""
    if ext:
        n = int.from_bytes(body[11:13], 'big') + len(param)
        if n > 65535:
            return None
        return body[:11] + n.to_bytes(2, 'big') + body[13:] + param
    n = body[9] + len(param)
    if n > 254:
        return None
    return body[:9] + bytes([n]) + body[10:] + param


# ---------------------------------------------------------------------------------------------
# expectations computed from the configuration data (independent of the Lean `ourCaps`)


def parse_kv(text: str) -> dict[str, str]:
    return dict(w.split('=', 1) for w in text.split(' '))


def norm_capset(text: str) -> dict:
    """Order-insensitive reading of a capability-set rendering."""
    d = parse_kv(text)
    out: dict[str, Any] = {}
    for k, v in d.items():
        if k in ('mp', 'ap', 'nh', 'pl', 'unk'):
            out[k] = None if v == '-' else ([] if v == 'e' else sorted(v.split(';')))
        elif k == 'gr' and v != '-':
            fl, t, fams = v.split(':', 2)
            out[k] = [fl, t, [] if fams == 'e' else sorted(fams.split(';'))]
        else:
            out[k] = v
    return out


def expected_capset(c: dict) -> dict:
    fams = sorted({(a, s) for a, s in c['fam']})
    aps = [f for f in ADD_PATH if list(f) in c['aps']]
    out: dict[str, Any] = {
        'mp': sorted(f'{a}.{s}' for a, s in fams) if fams else None,
        'asn4': str(c['las']) if c['asn4'] else '-',
        'ap': sorted(f'{a}.{s}:{c["ap"]}' for a, s in aps) if c['ap'] else None,
        'nh': sorted(f'{a}.{s}.{h}' for a, s, h in NEXTHOP if [a, s, h] in c['nhs']) if c['nhon'] else None,
        'rr': str(c['rr']), 'rrc': '0', 'enh': str(c['rr']), 'em': str(c['em']), 'op': str(c['op']), 'll': str(c['ll']),
        # the capability carries at most 64 octets of each name (HostName.HOSTNAME_MAX_LEN, generated table
        # `hostnameMaxLen`); the configuration grammar accepts up to 255: the rest is cut, which is noted
        'hn': '-' if not c['host'] else c['host'].encode()[:64].hex() + ':' + c['dom'].encode()[:64].hex(),
        'sw': '-' if not c['sw'] else 'x' + negorig.software_string().hex(),
        'ms': str(c['ms']), 'msc': '0', 'unk': [],
    }  # fmt: skip
    if c['gr'] is None:
        out['gr'] = '-'
    else:
        t = (c['gr'] or c['hold']) & 0xFFF
        out['gr'] = ['0', str(t), sorted(f'{a}.{s}:128' for a, s in fams)]
    pl = [f'{a}.{s}:{lim}' for a, s, lim in c['pl'] if (a, s) in aps and c['ap'] & 1 and lim > 0]
    out['pl'] = sorted(pl) if (c['ap'] and pl) else None
    return out


# ---------------------------------------------------------------------------------------------
# one case


def consistent_peer(theirs_set: str) -> bool:
    """My-AS field agrees with the peer's own ASN4 capability (or there is none)."""
    parts = theirs_set.split(' ')
    asn = int(parts[2])
    d = parse_kv(' '.join(parts[5:]))
    if d['asn4'] == '-':
        return True
    return trans(int(d['asn4'])) == asn


def valid_sr(theirs_set: str) -> bool:
    d = parse_kv(' '.join(theirs_set.split(' ')[5:]))
    if d['ap'] in ('-', 'e'):
        return True
    return all(int(x.split(':')[1]) <= 3 for x in d['ap'].split(';'))


def oracle(c: dict, impl_out: str, rfc_out: str, theirs_set: str) -> list[tuple[dict, str]]:
    """Compare the implementation's Negotiated / refusal with the RFC function. Returns failures as
    (canonical form, description)."""
    fails: list[tuple[dict, str]] = []
    if not rfc_out.startswith('rfc '):
        return fails
    r = parse_kv(rfc_out[4:])
    cons = consistent_peer(theirs_set)
    refuse = [] if r['refuse'] == 'e' else r['refuse'].split(';')
    if not impl_out.startswith('neg '):
        return fails
    n = parse_kv(impl_out[4:])
    if n['val'] != 'ok':
        # refused: the subcode must name a fault that is present (2/8, 2/9 are the multisession draft's)
        if cons and n['val'] in ('2:1', '2:2', '2:3', '2:6') and n['val'] not in refuse:
            fails.append(({'field': 'refusal', 'class': f'compliant-open-refused-{n["val"]}'}, f'OPEN refused with {n["val"]} although the RFC function names no such fault (RFC refusals: {refuse})'))
        return fails
    if refuse and cons:
        cls = 'required-refusal-missing-' + '+'.join(sorted(set(refuse)))
        if refuse == ['2:3'] and c['las'] > 65535 and int(r['pas']) == c['las']:
            cls = 'ibgp-4-octet-as-same-bgp-identifier-accepted'
        fails.append(({'field': 'refusal', 'class': cls}, f'the RFCs require this OPEN to be refused with one of {refuse}; the implementation accepted it'))
        return fails
    if not cons and refuse:
        return fails
    # accepted session: every parameter in force

    def sset(v: str) -> list[str]:
        return [] if v == 'e' else sorted(set(v.split(';')))

    def on(v: str) -> list[str]:
        return [] if v == 'e' else sorted({x.split(':')[0] for x in v.split(';') if x.endswith(':1')})

    for key, what in (('hold', 'hold time'), ('asn4', '4-octet AS use'), ('rf', 'route-refresh flavour'), ('sz', 'maximum message size')):
        if n[key] != r[key]:
            fails.append(({'field': key, 'class': 'mismatch'}, f'{what}: implementation {n[key]}, RFC {r[key]}'))
    if n['las'] != r['las']:
        cls = 'local-as>65535' if c['las'] > 65535 else 'mismatch'
        fails.append(({'field': 'local_as', 'class': cls}, f'local AS in force: implementation {n["las"]}, RFC {r["las"]} (configured {c["las"]})'))
    if cons and n['pas'] != r['pas']:
        fails.append(({'field': 'peer_as', 'class': 'mismatch'}, f'peer AS in force: implementation {n["pas"]}, RFC {r["pas"]}'))
    if sset(n['fam']) != sset(r['fam']):
        fails.append(({'field': 'families', 'class': 'mismatch'}, f'families: implementation {n["fam"]}, RFC {r["fam"]}'))
    if sset(n['nh']) != sset(r['nh']):
        fails.append(({'field': 'nexthop', 'class': 'mismatch'}, f'extended next hop: implementation {n["nh"]}, RFC {r["nh"]}'))
    if valid_sr(theirs_set):
        if on(n['aps']) != sset(r['aps']):
            fails.append(({'field': 'addpath_send', 'class': 'mismatch'}, f'ADD-PATH send: implementation {n["aps"]}, RFC {r["aps"]}'))
        if on(n['apr']) != sset(r['apr']):
            fails.append(({'field': 'addpath_receive', 'class': 'mismatch'}, f'ADD-PATH receive: implementation {n["apr"]}, RFC {r["apr"]}'))
    return fails


def okey_new(seen: set, c: dict) -> bool:
    k = 'wf:' + json.dumps(c, sort_keys=True)
    if k in seen:
        return False
    seen.add(k)
    return True


def nontrivial_rule(impl_out: str, theirs_set: str | None) -> bool:
    if not impl_out.startswith('neg ') or theirs_set is None:
        return False
    n = parse_kv(impl_out[4:])
    # at least one family negotiated and at least one option both sides advertise
    return n['fam'] != 'e' and (n['asn4'] == '1' or n['rf'] != 'absent' or n['sz'] == '65535' or n['nh'] != 'e' or ':1' in n['aps'] or ':1' in n['apr'])


def case_failures(c: dict, body: bytes, io: str, m_rfc: str, theirs_set: str | None, expect_param: int | None) -> list[tuple[dict, str]]:
    """Oracles 2 and 3 on one case: (canonical form, description) for every clause that fails."""
    # --- oracle 2: injected faults are refused with the subcode that names them
    fails: list[tuple[dict, str]] = []
    if len(body) < 10:
        if io != 'err 1 2':
            fails.append(({'field': 'refusal', 'class': 'short-open-not-1/2'}, f'OPEN body of {len(body)} octets answered with {io}, RFC 4271 6.1: 1/2'))
    elif body[0] != 4:
        if io != 'err 2 1':
            fails.append(({'field': 'refusal', 'class': 'version-not-2/1'}, f'version {body[0]} answered with {io}, RFC 4271 6.2: 2/1'))
    elif expect_param is not None:
        pt = expect_param
        if pt == 2:
            pass
        elif not io.startswith('err '):
            fails.append(({'field': 'refusal', 'class': 'unsupported-optional-parameter-accepted'}, f'optional parameter type {pt} accepted: {io}'))
        elif pt == 1:
            if io not in ('err 2 5', 'err 2 4'):
                fails.append(({'field': 'refusal', 'class': 'authentication-parameter-not-2/5'}, f'authentication parameter answered with {io}'))
        elif io != 'err 2 4':
            fails.append(({'field': 'refusal', 'class': 'unsupported-optional-parameter-' + io[4:].replace(' ', '/')}, f'unrecognised optional parameter type {pt} answered with {io}; RFC 4271 6.2: MUST be 2/4 (Unsupported Optional Parameters)'))
    elif m_rfc.startswith('err ') and not io.startswith('err '):
        fails.append(({'field': 'refusal', 'class': 'undecodable-open-accepted'}, f'the reference decoder refuses this OPEN ({m_rfc}), the implementation accepts it'))
    # --- oracle 3: the parameters in force are the RFC function of the two OPENs
    if theirs_set is not None:
        fails += oracle(c, io, m_rfc, theirs_set)
    return fails


def load_corpus() -> list[dict]:
    d = common.VERIF / 'corpus' / PROP
    out = []
    if d.exists():
        for f in sorted(d.glob('*.json')):
            j = json.loads(f.read_text())
            j['name'] = f.name
            out.append(j)
    return out


def full_cfg(partial: dict) -> dict:
    c = negorig.default_cfg()
    c.update(partial)
    return c


def build_cases(ctx: Ctx, n_random: int, first: bool) -> list[dict]:
    """Phase 1: choose configurations and peer OPENs; the bodies come from the Lean reference encoder."""
    rng = ctx.rng
    thorough = ctx.tier != 'quick'
    cases: list[dict] = []
    enc_lines: list[str] = []

    def add(c: dict, line: str | None, origin: str, **kw: Any) -> None:
        case = {'cfg': c, 'enc': line, 'origin': origin, **kw}
        if line is not None:
            case['enc_idx'] = len(enc_lines)
            enc_lines.append(line)
        cases.append(case)

    for j in load_corpus() if first else []:
        c = full_cfg(j['cfg'])
        if 'body' in j:
            add(c, None, 'corpus:' + j['name'], body=bytes.fromhex(j['body']), **({'expect_param': j['expect_param']} if 'expect_param' in j else {}))
        else:
            add(c, 'nego enc ' + j['enc'], 'corpus:' + j['name'])
    # boundary lengths of the parameter block: 253..257 in every format that can carry them
    for target in (253, 254, 255, 256, 257, 300, 65000):
        for fmt in ('0', '1', 'a'):
            c = gen_cfg(rng, thorough)
            hint: dict = {}
            caps = gen_caps(rng, c, hint)[:6]
            fixed = (4, trans(hint['true_as']), 90, 0x02020202)
            ext = fmt == '1'
            base = sum(cap_len(x) + (3 if ext else 2) for x in caps)
            pad = padding_caps(target, base, ext)
            if pad is None:
                continue
            if fmt == '0' and target > 255:
                continue
            groups = '/'.join(caps + pad)
            add(c, f'nego enc {fmt} {fixed[0]} {fixed[1]} {fixed[2]} {fixed[3]} {groups}', f'boundary-{target}-fmt{fmt}')
    for c in extreme_cfgs(rng) if first else []:
        add(c, 'nego enc a 4 4294967295 90 33686018 mp:1:1/mp:2:1/asn4:4294967295/em/rr'.replace(' 4294967295 90', ' 23456 90'), 'extreme-config')
    # UTF-8 edge cases in the strings of hostname / software version (invalid ones: the encoder's
    # well-formedness flag is 0 because of the string only; the TLV framing is still right)
    for seq in UTF8_TRICKY if first else rng.sample(UTF8_TRICKY, 8):
        c = negorig.default_cfg()
        which = rng.choice(['hn:%s:', 'hn:61:%s', 'sw:%s', 'hn:%s:%s'])
        cap = which.replace('%s', seq)
        add(c, f'nego enc {rng.choice(["0", "1"])} 4 65001 90 33686018 mp:1:1/{cap}/asn4:65001', 'utf8-edge', allow_unwf=True)
    # our own OPEN around the RFC 9072 switch: many families
    for k in (28, 29, 30, 31, 32) if first else ():
        c = negorig.default_cfg()
        c['fam'] = [[1 + (i % 2), 1 + i // 2] for i in range(k)]
        c['las'] = 70000 if k % 2 else 65000
        c['pas'] = 65001
        add(c, 'nego enc a 4 65001 90 33686018 mp:1:1/mp:2:1/asn4:65001/em', f'ours-many-families-{k}')
    for i in range(n_random):
        c = gen_cfg(rng, thorough)
        hint = {}
        caps = gen_caps(rng, c, hint)
        fixed = gen_fixed(rng, c, hint)
        fmt = rng.choice(['0', '0', '1', 'a', 'a'])
        groups = group_caps(rng, caps)
        x = rng.random()
        if x < 0.06:
            ptype = rng.choice([1, 1, 0, 3, 4, 100, 254, 255])
            ext = fmt == '1'
            line, param = inject_param(rng, fixed, groups, ptype, ext)
            add(c, line, 'inject-param', splice={'param': param.hex(), 'ext': ext, 'ptype': ptype})
        elif x < 0.22:
            add(c, f'nego enc {fmt} {fixed[0]} {fixed[1]} {fixed[2]} {fixed[3]} {groups}', 'mutated', mutate=True)
        else:
            add(c, f'nego enc {fmt} {fixed[0]} {fixed[1]} {fixed[2]} {fixed[3]} {groups}', 'random')
    out = common.run_driver('drv_nego', enc_lines) if ctx.driver_ok else []
    final = []
    for case in cases:
        if case['enc'] is not None:
            if not ctx.driver_ok:
                continue
            o = out[case['enc_idx']]
            if o == 'bad-op':
                raise common.Infra(f'driver rejected an encoder line: {case["enc"]}')
            hx, wf = o.split(' ')
            if wf != '1' and not case.get('allow_unwf'):
                ctx.count('gen:not-encodable')
                continue
            body = bytes.fromhex(hx) if hx != '-' else b''
            if case.get('splice'):
                sp = case['splice']
                body2 = splice(body, bytes.fromhex(sp['param']), sp['ext'])
                if body2 is None:
                    ctx.count('gen:not-encodable')
                    continue
                # the fault is the first parameter that is not a capability parameter: valid so far
                case['expect_param'] = sp['ptype']
                body = body2
            if case.get('mutate'):
                body, kind = mutate(rng, body)
                case['origin'] = 'mutated:' + kind
            case['body'] = body
        final.append(case)
    return final


def cap_len(cap: str) -> int:
    """Octets of one capability TLV in the driver's syntax (used only to aim at boundary lengths)."""
    p = cap.split(':')
    k = p[0]
    if k == 'mp':
        return 6
    if k == 'asn4':
        return 6
    if k in ('rr', 'rrc', 'enh', 'em', 'op', 'll'):
        return 2
    if k == 'ap':
        return 2 + 4 * (len(p[1].split(';')) if p[1] else 0)
    if k == 'nh':
        return 2 + 6 * (len(p[1].split(';')) if p[1] else 0)
    if k == 'pl':
        return 2 + 5 * (len(p[1].split(';')) if p[1] else 0)
    if k == 'gr':
        return 4 + 4 * (len(p[3].split(';')) if p[3] else 0)
    if k == 'hn':
        return 4 + len(p[1]) // 2 + len(p[2]) // 2
    if k == 'sw':
        return 3 + len(p[1]) // 2
    if k == 'ms':
        return 2 + len(p[2]) // 2
    if k == 'unk':
        return 2 + len(p[2]) // 2
    raise ValueError(cap)


def run(ctx: Ctx) -> None:
    ctx.rule = (
        'pairs (neighbor configuration from NeighborSettings, peer OPEN body from the Lean reference encoder or its corruption); '
        'a pair is non-trivial when the peer OPEN decodes, at least one family is negotiated and at least one optional feature '
        '(4-octet AS, refresh, extended message, extended next hop, ADD-PATH in one direction) is in force on both sides; '
        'distinct = distinct (configuration, peer body)'
    )
    total = 12000 if ctx.tier == 'quick' else 400000
    chunk = 4000
    state: dict = {'seen': set(), 'wf_ours': [0, 0, 0]}
    done_n = 0
    first = True
    while done_n < total:
        if ctx.time_left() < 20:
            ctx.notes.append(f'budget reached after {ctx.evaluations} cases')
            break
        run_chunk(ctx, build_cases(ctx, min(chunk, total - done_n), first), state)
        done_n += chunk
        first = False
    ctx.extra['our_open_wellformed'] = f'{state["wf_ours"][2]}/{state["wf_ours"][1]} distinct configurations accepted by the real code are in the closed-form class cfgOK (hypothesis of our_open_roundtrip); {state["wf_ours"][0]}/{state["wf_ours"][1]} have wfOpen'


def run_chunk(ctx: Ctx, cases: list[dict], state: dict) -> None:
    seen = state['seen']
    # Phase 2: the real code
    lines: list[str] = []
    for case in cases:
        if ctx.time_left() < 15:
            ctx.notes.append(f'budget reached after {ctx.evaluations} cases of {len(cases)}')
            break
        c, body = case['cfg'], case['body']
        try:
            impl = negorig.run_impl(c, body)
        except Exception as e:  # the rig itself must not fail: building the neighbor / our OPEN raised
            impl = {'out': f'rig-crash:{type(e).__name__}:{e}', 'ours': b'', 'words': negorig.cfg_words(c), 'ours_set': '', 'neg': None, 'via': 'settings', 'eff': c}
        case['impl'] = impl
        ctx.evaluations += 1
        case['li'] = len(lines)
        bh = body.hex() or '-'
        lines.append(f'nego run {bh} {impl["words"]}')
        lines.append(f'nego set {bh}')
        lines.append(f'nego our {impl["words"]}')
        lines.append(f'nego set {impl["ours"].hex() or "-"}')
        lines.append(f'nego rfc {c["las"]} {c["pas"]} {c["rid"]} {impl["ours"].hex() or "-"} {bh}')
    done = [case for case in cases if 'li' in case]
    out = common.run_driver('drv_nego', lines) if ctx.driver_ok and lines else None
    for case in done:
        c, body, impl = case['cfg'], case['body'], case['impl']
        io = impl['out']
        origin = case['origin'].split(':')[0] if case['origin'].startswith('corpus') else case['origin']
        ctx.count('origin:' + origin)
        ctx.count('impl:' + (io.split(' val=')[1] if ' val=' in io else ' '.join(io.split(' ')[:3])))
        ctx.count('peer-params-len:' + ('-' if len(body) < 10 else ('ext' if body[9] == 255 and len(body) > 10 and body[10] == 255 else str(min(body[9] // 32 * 32, 224)) + '+')))
        ctx.count('our-open:' + ('extended' if impl['ours'][9:11] == b'\xff\xff' else 'standard'))
        ctx.count('local-as:' + ('>65535' if c['las'] > 65535 else '<=65535'))
        ctx.count('config-via:' + impl['via'] + ('' if impl['via'] == 'text' or not c.get('_text') else '(text refused by the parser)'))
        replay = {'cfg': c, 'body': body.hex(), 'origin': case['origin'], 'expect_param': case.get('expect_param')}
        if io.startswith('rig-crash'):
            ctx.disagreements.append(Disagreement('nego-rig', replay, None, io))
            continue
        if io.startswith('config-refused'):
            ctx.count('config:refused-by-the-real-code' + (' (one beyond a maximum)' if c.get('_beyond') else ''))
            continue
        if c.get('_beyond'):
            ctx.count('config:beyond-maximum-accepted')
        if io.startswith('open-crash'):
            # the configuration was accepted but Capabilities.new / pack_message cannot build the OPEN
            ok_flag = out[case['li'] + 2].split(' ')[-1][-1:] if out is not None else '?'
            ctx.count('config:accepted-but-no-OPEN')
            key = 'open-crash:' + io.split(':')[1]
            if key not in seen:
                seen.add(key)
                ctx.failures.append(Failure('open-pair', {'field': 'our-open', 'class': 'accepted-configuration-has-no-OPEN:' + io.split(':')[1], 'cfgOK': ok_flag}, replay, f'the configuration is accepted ({impl["via"]}) but the OPEN cannot be built: {io}'))
            continue
        if nontrivial_rule(io, impl.get('theirs_set')):
            ctx.nontrivial([c, body.hex()])
        ctx.sample({'cfg': impl['words'], 'peer_open': body.hex(), 'our_open': impl['ours'].hex(), 'result': io}, cap=4)
        if out is None:
            continue
        m_run, m_set, m_our, m_ourset, m_rfc = out[case['li'] : case['li'] + 5]
        # --- correspondence
        if 'crash' in io:
            # an exception other than Notify escaped the real code: the model names it `ms=crash`
            ok = io.startswith('negotiate-crash:KeyError') and ' ms=crash ' in m_run
            if not ok:
                ctx.disagreements.append(Disagreement('nego-run', replay, m_run, io))
            key = ('crash', io)
            ctx.count('note:' + io)
            if key not in seen:
                seen.add(key)
                ctx.notes.append(f'{io} escapes Negotiated.received() (multi-session configured, peer advertises multisession without MP): not a C07 clause, input for C03; e.g. cfg {impl["words"]} peer {body.hex()}')
            continue
        if m_run != io:
            ctx.count('disagreement:run')
            ctx.disagreements.append(Disagreement('nego-run', replay, m_run, io))
        if 'theirs_set' in impl and m_set != impl['theirs_set']:
            ctx.count('disagreement:set')
            ctx.disagreements.append(Disagreement('nego-set', replay, m_set, impl['theirs_set']))
        m_our, m_flags = m_our.split(' ') if ' ' in m_our else (m_our, '??')
        m_wf, m_ok = m_flags[0], m_flags[1]
        if okey_new(seen, c):
            if max(len(c['host']), len(c['dom'])) > 64:
                ctx.count('config:name-longer-than-64-octets-advertised-cut')
                if 'cut' not in seen:
                    seen.add('cut')
                    ctx.notes.append('a host-name / domain-name of 65..255 octets is accepted by the configuration grammar and advertised cut to its first 64 octets (HostName.HOSTNAME_MAX_LEN): the OPEN is valid, the name is not the configured one')
            state['wf_ours'][1] += 1
            state['wf_ours'][0] += int(m_wf == '1')
            state['wf_ours'][2] += int(m_ok == '1')
            ctx.count('config:cfgOK=' + m_ok + ' via ' + impl['via'])
            if m_ok != '1':
                # the real code accepted the configuration and built an OPEN, the closed-form class excludes it
                ctx.disagreements.append(Disagreement('nego-cfgok', {'cfg': c}, 'cfgOK = false', 'configuration accepted, OPEN built: ' + impl['ours'].hex()[:80]))
        if m_our != (impl['ours'].hex() or '-'):
            ctx.count('disagreement:our')
            ctx.disagreements.append(Disagreement('nego-our', {'cfg': c}, m_our, impl['ours'].hex()))
        # --- oracle 1: our OPEN, decoded by the reference decoder, is what the configuration enables
        okey = json.dumps(c, sort_keys=True)
        if okey not in seen:
            seen.add(okey)
            if not m_ourset.startswith('ok '):
                ctx.failures.append(Failure('open-pair', {'field': 'our-open', 'class': 'not-decodable'}, replay, f'the OPEN we send does not decode: {m_ourset}'))
            else:
                parts = m_ourset.split(' ')
                fixed = [int(x) for x in parts[1:5]]
                want_fixed = [4, trans(c['las']), c['hold'], c['rid']]
                got = norm_capset(' '.join(parts[5:]))
                want = expected_capset(impl['eff'])
                if fixed != want_fixed or got != want:
                    diff = {k: (got.get(k), want.get(k)) for k in want if got.get(k) != want.get(k)}
                    canon1 = {'field': 'our-open', 'class': 'advertises-' + '+'.join(sorted(diff)) if diff else 'fixed-fields'}
                    ctx.count('oracle-fail:' + canon1['class'])
                    if json.dumps(canon1, sort_keys=True) not in seen:
                        seen.add(json.dumps(canon1, sort_keys=True))
                        ctx.failures.append(Failure('open-pair', canon1, replay, f'our OPEN does not advertise exactly the configuration: fixed {fixed} want {want_fixed}; (got, want) {diff}'))
        fails = case_failures(c, body, io, m_rfc, impl.get('theirs_set'), case.get('expect_param'))
        if 'theirs_set' in impl:
            ctx.count('peer:' + ('consistent-as' if consistent_peer(impl['theirs_set']) else 'inconsistent-as'))
            if not valid_sr(impl['theirs_set']):
                ctx.count('peer:addpath-octet>3')
        for canon, what in fails:
            key = json.dumps(canon, sort_keys=True)
            ctx.count('oracle-fail:' + canon['class'])
            if key in seen:
                continue
            seen.add(key)
            ctx.failures.append(Failure('open-pair', canon, replay, what))


def replay(path: str) -> int:
    data = json.loads(open(path).read())
    r = data['replay']
    c, body = r['cfg'], bytes.fromhex(r['body'])
    impl = negorig.run_impl(c, body)
    bh = body.hex() or '-'
    out = common.run_driver('drv_nego', [f'nego run {bh} {impl["words"]}', f'nego rfc {c["las"]} {c["pas"]} {c["rid"]} {impl["ours"].hex() or "-"} {bh}'])
    print('configuration :', impl['words'])
    print('our OPEN      :', impl['ours'].hex())
    print('peer OPEN     :', body.hex())
    print('implementation:', impl['out'])
    print('model         :', out[0])
    print('RFC function  :', out[1])
    fails = case_failures(c, body, impl['out'], out[1], impl.get('theirs_set'), r.get('expect_param'))
    for canon, what in fails:
        print('FAILS         :', json.dumps(canon), '-', what)
    print('holds         :', not fails)
    return 1 if fails else 0
