"""C18 — Route text is accepted if and only if it can be sent.

Acceptance sweep of the REAL text parsers against the Lean capacity model M-Fields (`drv_fields`):
for every numeric / length field of the route, attribute, flow and vpls grammar, every boundary
value is written into an otherwise valid definition and offered to every real entry point; what
is accepted is encoded for every session shape with the real encoder and read back with the real
decoder and with the Lean reference decoder.  Then a structural-junk stream and a seeded
token-soup stream over the same grammar.

Oracle (per case):  accepted  <=>  fits  and  encodes on every session without raising  and  what is
sent decodes to the value as written;   no entry point answers with an exception.
"""

from __future__ import annotations

import json
import re
import time
from typing import Any

from harness import common
from harness.common import Ctx, Disagreement, Failure
from harness import fieldsrig as fr

THEOREM_MODULES = ['ExaModel.Props.C18']
DRIVERS = ['drv_fields']
TABLES = ['fields', 'pyannounce']
PROP = 'C18'
ASSUMPTIONS = [
    'the text parsers of /repo are not modelled function by function: parser totality and acceptance are enumerated on the boundary grid (every field x every boundary value x every entry point x every session shape), on the keyword x value stream and on the structural junk list, and sampled on the seeded token soup; they are not proved',
    'M-Fields has two sides. Capacity (RFC): fits / encodeField / decodeField, the reference the real encoder and decoder are compared with. Acceptance: accepts, the range check of the parser as a function of the 67 bounds harness/tables/fields.py reads from the comparisons of the parser sources on every run (63 from the source by AST, the 4 IPv4-octet fields bounded by inet_pton / bytes() are measured); accepts <-> fits is a theorem, and the real accept / refuse decision of every plain decimal token of the grid and of the random sample is compared with accepts through the driver',
    'what the generated bounds do not capture is the control flow of the parsers (that the comparison read from the source is the one applied to this token, and that a token which is not a number is refused without an exception): that is what the sweep enumerates',
    'refusal = the entry point returns no route and leaves an error message, or raises ValueError / IndexError (the two exceptions the API command handlers turn into an error reply); any other exception, and not returning within 2 s + 1 s per 10 000 characters, is a failure',
    'accepted = API.api_* returned routes AND the API command handler answered done',
    'a field shorter on the wire than the model width (FlowSpec values take 1/2/4 bytes, RD and route-target switch between the 2-byte-AS and 4-byte-AS form) is compared left-padded with zeros',
    'on a 2-byte session ExaBGP omits AS4_PATH / AS4_AGGREGATOR when no AS number of the attribute needs it; the reference decoder is then given the 2-byte element twice',
    'the bytes sent are located with an UPDATE walker written from the RFC layouts and read by the Lean reference decoder; when those give the written value and ExaBGP\'s own decoder does not (or raises), that is recorded in coverage.notes for the decoder properties (C02, C03, C15) and is not a C18 failure',
    'list lengths: must be accepted when the value leaves 160 bytes for the rest of a 65535-byte UPDATE, must be refused when it does not fit beside the smallest mandatory attributes; no verdict in between (class room-depends-on-session). An UPDATE larger than a 4096-byte session allows, or dropped there, is property C09',
    'the extended-length bit of the flags of a generic attribute follows the length, it is not the writer\'s; next hop of the other address family (RFC 8950) and next-hop self depend on the session, not on the text: not swept',
    'rate-limit is an IEEE float on the wire and is not swept for exactness; the three community list parsers are quadratic in the number of elements: their limits (5462, 8192, 16384 elements) are run in the thorough tier only, 20 000 communities (8 minutes) not at all — the 70 000-byte attribute, 16384 cluster ids and 16400 / 32640 AS numbers exercise the same class on every run',
    'session shapes: iBGP/eBGP x 4-byte/2-byte AS x ADD-PATH on/off x 4096/65535, all over IPv4 transport; AIGP enabled so that the attribute is sent and read on every shape',
]
TRUSTED_EXTRA = ['harness/fieldsrig.py UPDATE walker (locates the bytes of a field from the RFC layouts, independent of ExaBGP)']

NUMERIC_EXTRA = [0, 1, 2, 127, 128, 254, 255, 256, 257, 4095, 4096, 65534, 65535, 65536, 65537, 1048575, 1048576, 1048577, 16777215, 16777216, 4294967294, 4294967295, 4294967296, 4294967297, 2**63, 2**64 - 1, 2**64, 2**64 + 1, 2**96, 10**30]

# value texts that are not plain decimal numbers: (class, text, meaning or None)
ODD = [
    ('negative', '-1', None),
    ('non-numeric', 'x', None),
    ('empty', '', None),
    ('hex', '0x10', 16),
    ('float', '1.5', None),
    ('plus-sign', '+5', 5),
    ('leading-zeros', '007', 7),
    ('unicode-digit', '٥', 5),
    ('exponent', '1e3', None),
    ('separator', '1_0', 10),
]


SMALL_DOMAIN = 300  # a field with at most this many values is swept whole (prefix lengths, octets, DSCP, codes)


def boundary_values(limit: int, tier: str) -> list[int]:
    vs = {0, 1, limit - 2, limit - 1, limit, limit + 1, 2 * limit, limit * 256}
    vs |= set(NUMERIC_EXTRA)
    if limit <= SMALL_DOMAIN:
        # every value of a small domain: a value in the middle can be special for a reason the bounds do not show
        # (F96: the prefix length 32 of an IPv6 route, because 32 is also the prefix length of the peer's IPv4 address)
        vs |= set(range(0, limit + 2))
    return sorted(v for v in vs if v >= 0)


def count_values(spec: fr.FieldSpec, limit: int, unit: int, tier: str) -> list[int]:
    sw = 255 // unit  # extended-length switch
    vs = {1, 2, sw, sw + 1, 4000 // unit, 4096 // unit + 1}
    if spec.slow:
        if tier == 'thorough':
            vs |= {2000}
    else:
        # around what still leaves room for the rest of a 65535-byte UPDATE (other attributes take 16 to 28 bytes)
        vs |= {limit - 1, limit, limit + 1, (70000 + unit - 1) // unit, (65535 - 23 - 8 - 160) // unit, (65535 - 23 - 8 - 60) // unit, (65535 - 23 - 8 - 12) // unit + 1}
    return sorted(vs)


def cls_of(v: int, limit: int) -> str:
    return 'in-range' if v < limit else 'over-range'


def token_int(case: 'Case') -> int | None:
    """The integer a numeric token denotes, for the comparison with the model's `accepts`: the value of a
    grid / sample case (decimal, or hexadecimal for the two fields written in hex), or a canonical
    decimal text with a sign.  None for everything that is not a plain number."""
    if case.cls in ('in-range', 'over-range', 'room-depends-on-session') and case.value is not None:
        return case.value
    if case.spec.count is None and re.fullmatch(r'-?\d+', case.vtext) and str(int(case.vtext)) == case.vtext:
        return int(case.vtext)
    return None


def log_uniform(rng, lo: int, hi: int) -> int:
    """An integer of [lo, hi) whose magnitude is uniform: small and large values both turn up."""
    if hi <= lo + 1:
        return lo
    span = hi - lo
    bits = rng.randrange(1, span.bit_length() + 1)
    return lo + min(span - 1, rng.getrandbits(bits))


def sample_cases(sw: 'Sweep', rng, tier: str) -> list[tuple['Case', tuple[str, ...]]]:
    """A random sample per field on both sides of the limit and below zero (the grid has the boundaries)."""
    k = 4 if tier == 'quick' else 40
    out: list[tuple[Case, tuple[str, ...]]] = []
    entries = ('text', 'api', 'handler')
    for spec in fr.FIELDS:
        limit = sw.limit_of(spec)
        if spec.count is not None:
            if spec.slow:
                continue
            unit = Sweep.unit(spec)
            room = (65535 - 19 - 4 - 4 - 128) // unit
            for n in [log_uniform(rng, 1, room + 1) for _ in range(2)] + [log_uniform(rng, room + 1, 2 * room) for _ in range(2)]:
                out.append((Case(spec, spec.count(n), n, cls_of(n, limit), 'sample'), entries))
            continue
        hexform = spec.note == 'hex'
        vals = [log_uniform(rng, 0, limit) for _ in range(k)] + [log_uniform(rng, limit, limit << 16) for _ in range(k)]
        for v in vals:
            if spec.name == 'attrCode' and v in (3, 5):
                # code 3 is NEXT_HOP, which the template sets itself: a duplicated attribute (the first wins); code 5 is
                # LOCAL_PREF, which is rightly not sent on eBGP whatever form it was written in (C01): not numeric questions
                continue
            out.append((Case(spec, hex(v) if hexform else str(v), v, cls_of(v, limit), 'sample'), entries))
        for _ in range(max(1, k // 2)):
            v = -log_uniform(rng, 1, limit << 8)
            out.append((Case(spec, str(v), None, 'negative', 'sample'), entries))
    return out


# canonical boundary classes (known-findings matching): the ten odd value texts fall in two
CANON_CLASS = {
    'negative': 'not-a-number', 'non-numeric': 'not-a-number', 'empty': 'not-a-number', 'float': 'not-a-number', 'exponent': 'not-a-number',
    'hex': 'other-number-syntax', 'plus-sign': 'other-number-syntax', 'leading-zeros': 'other-number-syntax', 'unicode-digit': 'other-number-syntax', 'separator': 'other-number-syntax', 'asdot': 'other-number-syntax',
}


# ---------------------------------------------------------------------------------------------


class Case:
    __slots__ = ('spec', 'vtext', 'value', 'cls', 'text', 'out', 'shapes', 'origin')

    def __init__(self, spec: fr.FieldSpec, vtext: str, value: int | None, cls: str, origin: str = 'grid') -> None:
        self.spec = spec
        self.vtext = vtext
        self.value = value
        self.cls = cls
        self.text = fr.render(spec, vtext)
        self.out: dict[str, Any] = {}
        self.shapes: list[dict] = []
        self.origin = origin

    def replay(self) -> dict:
        return {'kind': self.spec.kind, 'text': self.text if len(self.text) < 600 else None, 'field': self.spec.name, 'template': self.spec.template, 'vtext': self.vtext if len(self.vtext) < 200 else None, 'count': self.value if self.spec.count else None, 'value': self.value, 'class': self.cls}


PRIME = {'flow': 'route 10.9.9.0/24 next-hop 1.2.3.4', 'flow6': 'route 2001:db8::/64 next-hop ::1'}


def prime(rig: fr.Rig, kind: str) -> None:
    """FlowSpec component/family checking reads `tokeniser.afi`, which only the static route parser
    sets: give it the family of the flow about to be parsed, as a route of that family would
    (the stale-family defect itself is exercised by the history cases)."""
    if kind in PRIME:
        rig.api_call('route', PRIME[kind])
        rig.cfg.parse_route_text(PRIME[kind])


def run_entries(rig: fr.Rig, kind: str, text: str, entries: tuple[str, ...]) -> dict[str, Any]:
    out: dict[str, Any] = {}
    if 'api' in entries:
        prime(rig, kind)
        out['api'] = rig.api_call(kind, text)
        if out['api'].status == 'hangs':  # every further entry point would cost another timeout
            return out
    if 'text' in entries and kind in ('route', 'attributes'):
        out['text'] = rig.parse_text(text)
    if 'handler' in entries:
        prime(rig, kind)
        out['handler'] = rig.handler_call(kind, text)
    if 'file' in entries:
        out['file'] = rig.file_parse(kind, text)
    return out


def accepted_routes(out: dict[str, Any]) -> list | None:
    """Routes of the definition if the API accepted it (parser returned routes AND the handler answered done)."""
    api = out.get('api')
    if api is None or api.status != 'ok':
        return None
    h = out.get('handler')
    if h is not None and h[0] != 'done':
        return None
    return api.routes


def text_of(update) -> str:
    return ' '.join(str(a.nlri) for a in update.data.announces) + ' |' + str(update.data.attributes)


def exercise(rig: fr.Rig, case: Case, routes: list) -> None:
    """Encode for every session shape, decode, locate the field."""
    spec = case.spec
    for sh in rig.shapes:
        rec: dict[str, Any] = {'shape': sh.name, 'kind': sh.kind, 'present': spec.present(sh)}
        try:
            msgs = rig.encode(sh, routes)
            rec['sizes'] = [len(m) for m in msgs]
        except Exception as e:  # noqa: BLE001 — the observation
            rec['encode_exc'] = fr._exc(e)
            case.shapes.append(rec)
            continue
        if not msgs:
            rec['nothing_sent'] = True
            case.shapes.append(rec)
            continue
        try:
            wd, attrs, nlri = fr.split_update(msgs[0][19:])
            w = spec.wire(attrs, nlri, sh)
            rec['wire'] = w.hex() if w is not None else None
            if spec.name == 'extAdmin' and w is not None:
                rec['ext_type'] = fr.attr(attrs, 16)[0]
        except Exception as e:  # noqa: BLE001 — the bytes sent are not a well-formed UPDATE for the walker
            rec['walk_exc'] = fr._exc(e)
        try:
            u = rig.decode(sh, msgs[0])
            txt = text_of(u)
            rec['announced'] = len(u.data.announces)
            if spec.seen is not None:
                rec['seen'] = spec.seen(txt)
                if rec['seen'] is None:
                    rec['seen_text'] = txt[:200]
        except Exception as e:  # noqa: BLE001
            rec['decode_exc'] = fr._exc(e)
        case.shapes.append(rec)


def session_label(bad: list[dict], allrecs: list[dict]) -> str:
    """'all' when every shape on which the field is sent is affected, else the common denominator."""
    relevant = [r for r in allrecs if r.get('present', True)] or allrecs
    if len(bad) >= len(relevant):
        return 'all'
    names = [r['shape'].split('/') for r in bad]
    rel = [r['shape'].split('/') for r in relevant]
    for idx in range(4):
        vals = {n[idx] for n in names}
        if len(vals) == 1:
            v = next(iter(vals))
            if sum(1 for n in rel if n[idx] == v) == len(names):
                return v
    return ','.join(sorted(r['shape'] for r in bad))


class Sweep:
    def __init__(self, ctx: Ctx, rig: fr.Rig) -> None:
        self.ctx = ctx
        self.rig = rig
        self.cases: list[Case] = []
        self.seen_fail: dict[str, Failure] = {}
        self.limits: dict[str, int] = {}
        self.widths: dict[str, int] = {}
        self.decoder_seen: set = set()

    # -- Lean side ------------------------------------------------------------------------------
    def load_limits(self) -> None:
        names = common.run_driver('drv_fields', ['fields names'])[0].split(',')
        out = common.run_driver('drv_fields', [f'fields limit {n}' for n in names] + [f'fields width {n}' for n in names])
        for i, n in enumerate(names):
            self.limits[n] = int(out[i])
            self.widths[n] = int(out[len(names) + i])
        declared = {s.name + x for s in fr.FIELDS for x in (('4', '2') if s.sess else ('',))}
        missing = set(names) - declared
        if missing:
            self.ctx.notes.append('fields of the model without a template in the sweep: ' + ','.join(sorted(missing)))
        unknown = declared - set(names)
        if unknown:
            raise common.Infra('sweep names fields the model does not have: ' + ','.join(sorted(unknown)))

    def limit_of(self, spec: fr.FieldSpec) -> int:
        return self.limits[spec.name + ('4' if spec.sess else '')]

    # -- failures ----------------------------------------------------------------------------
    def fail(self, case: Case, session: str, fault: str, what: str, field: str | None = None, cls: str | None = None) -> None:
        c = cls or case.cls
        canon = {'field': field or case.spec.name, 'class': CANON_CLASS.get(c, c), 'session': session, 'fault': fault}
        key = json.dumps(canon, sort_keys=True)
        self.ctx.count('oracle-fail:' + fault)
        if key in self.seen_fail:
            return
        f = Failure('text-field', canon, case.replay(), what)
        self.seen_fail[key] = f
        self.ctx.failures.append(f)

    # -- one grid case -------------------------------------------------------------------------
    def run_case(self, case: Case, entries: tuple[str, ...]) -> None:
        ctx = self.ctx
        # the community list parsers are quadratic in the number of elements: slow is not hanging
        self.rig.timeout = 2.0 if not case.spec.slow else 30.0 + (case.value or 0) ** 2 / 100000.0
        try:
            case.out = run_entries(self.rig, case.spec.kind, case.text, entries)
        finally:
            self.rig.timeout = 2.0
        ctx.evaluations += 1
        ctx.count('kind:' + case.spec.kind)
        ctx.count('class:' + case.cls)
        for name, o in case.out.items():
            st = o[0] if isinstance(o, tuple) and isinstance(o[0], str) else (o[0].status if isinstance(o, tuple) else o.status)
            ctx.count(f'{name}:{st}')
        routes = accepted_routes(case.out)
        if routes is not None:
            exercise(self.rig, case, routes)
        self.cases.append(case)

    # -- verdicts (after the Lean batch) --------------------------------------------------------
    def judge(self, case: Case, lean: dict[str, str]) -> None:
        """At most ONE failure per case: the root-most of what was observed (a hang before an
        exception, an exception before a wrong acceptance, a wrong acceptance before its symptoms)."""
        ctx = self.ctx
        spec = case.spec
        out = case.out
        text = case.text[:160]
        found: list[tuple[int, str, str, str]] = []  # (priority, session, fault, what)

        def st(name: str) -> str | None:
            return self.st(out, name)

        def detail(name: str) -> str:
            o = out[name]
            return o[2] if name == 'handler' else (o[0] if name == 'file' else o).detail

        where = {'text': 'Configuration.parse_route_text', 'api': 'API.api_' + {'flow6': 'flow'}.get(spec.kind, spec.kind), 'file': 'Configuration.reload', 'handler': 'the API command handler'}
        for name in ('api', 'text', 'file', 'handler'):
            if st(name) == 'hangs':
                found.append((0, 'all', 'hangs', f'{where[name]} does not return on "{text}"'))
        for name in ('api', 'text', 'file'):
            if st(name) == 'raised':
                found.append((1, 'all', 'raises', f'{where[name]} raised {detail(name)} on "{text}" (not a refusal with an error message)'))
        if st('handler') == 'error' and detail('handler').startswith('Unexpected error'):
            ctx.count('handler:catch-all-reply')
        if st('handler') == 'silent':
            found.append((1, 'all', 'no-answer', f'the API command handler answered neither done nor error for "{text}"'))

        routes = accepted_routes(out)
        accepted = routes is not None
        api = out.get('api')
        refused = api is not None and (api.status == 'refused' or (api.status == 'ok' and st('handler') == 'error'))
        value = case.value
        lname = spec.name + ('4' if spec.sess else '')
        fits = None
        if value is not None:
            fits = lean.get(f'fits {lname} {value}') == '1'
            if fits and spec.count is not None:
                fits = self.sendable(case, lean)
            if spec.count is not None:
                # the boundary that matters for a count is "can be sent"
                case.cls = 'in-range' if fits else ('over-range' if fits is False else 'room-depends-on-session')
        # the model's acceptance side: the generated range check of the parser against the real decision
        tok = token_int(case)
        if tok is not None and (accepted or refused):
            model = lean.get(f'accepts {lname} {tok}')
            if model is not None:
                if (model == '1') != accepted:
                    if len(ctx.disagreements) < 20:
                        ctx.disagreements.append(Disagreement('fields-accepts', case.replay(), 'accepts' if model == '1' else 'refuses', 'accepted' if accepted else 'refused'))
                else:
                    ctx.count('agree:accepts')
        if fits is None and value is not None:
            # no verdict on acceptance; only: no exception, and what is sent is right
            ctx.count('count-in-the-undecided-band')
            if not any(self.st(out, n) in ('raised', 'hangs') for n in out):
                return
        plain = case.cls in ('in-range', 'over-range')
        shown = value if (value is None or value < 2**70) else f'2^{value.bit_length() - 1}..'
        # the extended-length bit of a generic attribute's flags is not the writer's to choose: it follows the length
        wire_value = (value & 0xEF) if (spec.name == 'attrFlag' and value is not None) else value
        present = [r for r in case.shapes if r.get('present', True)]
        enc_bad = [r for r in case.shapes if 'encode_exc' in r]
        nothing = [r for r in present if r.get('nothing_sent')]

        if st('handler') == 'raised':
            # the parser accepted; the handler died on what it accepted (no catch-all in the flow / vpls handlers)
            pr = 3 if (accepted is False and api is not None and api.status == 'ok' and value is not None and not fits) else 1
            found.append((pr, 'all', 'raises', f'the API command handler let {detail("handler")} escape for "{text}": the client gets no answer at all'))

        if plain and refused and fits:
            why = api.detail if api.status == 'refused' else detail('handler')
            found.append((2, 'all', 'refused-fits', f'{spec.name} = {shown} fits the wire format (limit {self.limit_of(spec)}) and is refused: {why[:120]!r}; text "{text}"'))
        api_ok = api is not None and api.status == 'ok'
        if api_ok and (accepted or st('handler') == 'raised'):
            if value is None:
                sent = sorted({str(r.get('wire')) for r in present})
                how = f'encoding raises {enc_bad[0]["encode_exc"]}' if enc_bad else f'sent {sent[:3]}'
                found.append((2, 'all', 'accepted-non-value', f'"{text}" is accepted although "{case.vtext}" is no value of {spec.name}; {how}'))
            elif not fits:
                if enc_bad:
                    how = f'accepted at parse time, then messages() raises {enc_bad[0]["encode_exc"]}'
                elif st('handler') == 'raised':
                    how = f'accepted by the parser, then the API command handler dies with {detail("handler")}'
                elif nothing and len(nothing) == len(present):
                    how = 'accepted, and no UPDATE at all is produced for it on any session (silently dropped)'
                else:
                    sent = sorted({str(r.get('wire')) for r in present})
                    seen = sorted({str(r.get('seen')) for r in present if 'seen' in r})
                    how = f'accepted and sent as {sent[:2]} (read back as {seen[:2]}): wrapped / truncated'
                found.append((2, session_label(enc_bad, case.shapes) if enc_bad else 'all', 'accepted-unfit', f'{spec.name} = {shown} cannot be sent (limit {self.limit_of(spec)}): {how}; text "{case.text[:120]}"'))

        if accepted and value is not None and fits:
            ctx.count('agree:accepted-fit')
            if enc_bad:
                found.append((4, session_label(enc_bad, case.shapes), 'encode-raises', f'{spec.name} = {shown} accepted, fits, and messages() raises {enc_bad[0]["encode_exc"]} on {enc_bad[0]["shape"]}; text "{text}"'))
            if nothing:
                if len(nothing) == len(present):
                    found.append((4, 'all', 'nothing-sent', f'{spec.name} = {shown} accepted and fits, but no UPDATE at all is produced on any session; text "{text}"'))
                else:
                    ctx.count('dropped-on-small-session(C09)', len(nothing))
            dec_bad = [r for r in case.shapes if 'walk_exc' in r]
            if dec_bad:
                r = dec_bad[0]
                found.append((5, session_label(dec_bad, case.shapes), 'sent-malformed', f'{spec.name} = {shown}: what is sent on {r["shape"]} is not a well-formed UPDATE: {r.get("walk_exc")}; text "{text}"'))
            differ = []
            for r in present:
                if 'encode_exc' in r or 'walk_exc' in r or r.get('nothing_sent'):
                    continue
                ln = spec.name + (('4' if r['kind'] == 'asn4' else '2') if spec.sess else '')
                w = r.get('wire')
                if w is None:
                    differ.append((r, 'the field is not on the wire'))
                    continue
                wb = fr.pad(bytes.fromhex(w), self.widths[ln])
                got = lean.get(f'dec {ln} {wb.hex()}')
                if got != str(wire_value):
                    differ.append((r, f'the reference decoder reads {got} from {w}'))
                    continue
                # the wire is right by the reference decoder: what ExaBGP's own decoder makes of it is
                # the decoder's business (properties C02 / C15), noted and not held against the text parser
                if 'decode_exc' in r:
                    self.decoder_note(spec, value, f'Message.unpack raises {r["decode_exc"]}', r)
                elif 'seen' in r:
                    seen = r['seen']
                    ok = (value in seen) if isinstance(seen, list) else seen == value
                    if not ok:
                        self.decoder_note(spec, value, f'ExaBGP reads back {seen} ({r.get("seen_text", "")[:100]})', r)
                if spec.name == 'extAdmin' and value >= 65536 and r.get('ext_type') is not None and (r['ext_type'] & 0x3F) != 0x02:
                    differ.append((r, f'the 4-byte AS number is sent with extended-community type 0x{r["ext_type"]:02x} (IPv4-address-specific) where RFC 5668 says 0x02: a receiver reads the IPv4 address {".".join(str(b) for b in value.to_bytes(4, "big"))}'))
                    continue
                want = lean.get(f'enc {ln} {wire_value}')
                if want is not None and want != wb.hex():
                    if len(ctx.disagreements) < 20:
                        ctx.disagreements.append(Disagreement('fields-encode', case.replay() | {'shape': r['shape']}, want, wb.hex()))
                else:
                    ctx.count('agree:wire-bytes')
            if differ:
                r, why = differ[0]
                found.append((6, session_label([d[0] for d in differ], case.shapes), 'value-differs', f'{spec.name} = {shown} accepted; {why} on {r["shape"]}; text "{case.text[:120]}"'))
        elif plain and not fits and refused and not found:
            ctx.count('agree:refused-unfit')

        # a configuration file: refused with a message that names a line, by the parser and not by the catch-all
        if 'file' in out and not found:
            oc, info = out['file']
            if oc.status == 'refused' and info.get('generic'):
                ctx.count('file:refused-by-catch-all')
                found.append((7, 'all', 'raises', f'configuration file: "{text}" is stopped only by the catch-all of Configuration.reload, not by the parser: {info.get("message", "")[:160]!r}'))
            elif oc.status == 'refused' and not info.get('has_line'):
                found.append((7, 'all', 'file-error-without-line', f'configuration file refused without a line: {info.get("message", "")[:160]!r}'))
        if not found:
            sts = {name: st(name) for name in out if name != 'handler'}
            if len(set(sts.values())) > 1:
                found.append((8, 'all', 'entry-points-differ', f'"{text}": {sts}'))
        if found:
            found.sort(key=lambda x: x[0])
            _, session, fault, what = found[0]
            self.fail(case, session, fault, what)
        elif accepted and value is not None and fits:
            ctx.nontrivial({'field': spec.name, 'note': spec.note, 'kind': spec.kind, 'v': str(value)})
        elif not accepted:
            ctx.count('refused-with-message')

    @staticmethod
    def st(out: dict, name: str) -> str | None:
        o = out.get(name)
        if o is None:
            return None
        if name == 'handler':
            return o[0]
        return (o[0] if name == 'file' else o).status

    def decoder_note(self, spec: fr.FieldSpec, value: int, what: str, r: dict) -> None:
        self.ctx.count('real-decoder-differs(C02/C15)')
        key = (spec.name, spec.note, what.split('(')[0][:60])
        if key not in self.decoder_seen and len(self.decoder_seen) < 12:
            self.decoder_seen.add(key)
            self.ctx.notes.append(f'wire correct by the reference decoder, ExaBGP decoder differs: {spec.name}{"/" + spec.note if spec.note else ""} = {value} on {r["shape"]}: {what} [w={r.get("wire")}]')

    def sendable(self, case: Case, lean: dict[str, str]) -> bool | None:
        """A count that fits its length field must also leave room for the UPDATE around it (65535 at most).
        True: fits with 160 bytes to spare for the other attributes and the NLRI (must be accepted);
        False: does not fit even beside the smallest mandatory attributes (must be refused);
        None: in between — whether it can be sent depends on the session and the route, no verdict."""
        size = case.value * self.unit(case.spec)
        if lean.get(f'msgfits 65535 {size + 4 + 12} 4') == '0':
            return False
        if lean.get(f'msgfits 65535 {size + 4 + 160} 4') == '1':
            return True
        return None

    @staticmethod
    def unit(spec: fr.FieldSpec) -> int:
        return {'attrLen': 1, 'communitiesCount': 4, 'clusterCount': 4, 'largeCommunitiesCount': 12, 'extCommunitiesCount': 8}[spec.name]


# ---------------------------------------------------------------------------------------------
# structural junk and token soup


JUNK: list[tuple[str, str, str]] = [
    # (kind, class, text)
    ('route', 'missing-value', 'route 10.0.0.0/24 next-hop'),
    ('route', 'missing-value', 'route'),
    ('route', 'missing-next-hop', 'route 10.0.0.0/24'),
    ('route', 'missing-next-hop', 'route 10.0.0.0/24 med 5'),
    ('route', 'missing-next-hop', 'route 10.0.0.0/24 label 1'),
    ('route', 'missing-next-hop', 'route 10.0.0.0/24 rd 1:1 label 1'),
    ('route', 'duplicate-keyword', 'route 10.0.0.0/24 next-hop 1.2.3.4 split /25'),
    ('route', 'duplicate-keyword', 'route 10.0.0.0/24 next-hop 1.2.3.4 split /24'),
    ('route', 'duplicate-keyword', 'route 10.0.0.0/24 next-hop 1.2.3.4 split /0'),
    ('route', 'duplicate-keyword', 'route 10.0.0.0/24 next-hop 1.2.3.4 split /32 split /30'),
    ('route', 'malformed-value', 'route 10.0.0.0/24 next-hop 1.2.3.4 split /33'),
    ('route', 'malformed-value', 'route 10.0.0.0/24 next-hop 1.2.3.4 split /4294967296'),
    ('vpls', 'missing-next-hop', 'vpls endpoint 5 base 10 offset 1 size 8 rd 1:1'),
    ('vpls', 'missing-value', 'vpls endpoint 5 base 10 offset 1 rd 1:1 next-hop 1.2.3.4'),
    ('vpls', 'missing-value', 'vpls endpoint 5 base 10 size 8 rd 1:1 next-hop 1.2.3.4'),
    ('vpls', 'missing-value', 'vpls endpoint 5 offset 1 size 8 rd 1:1 next-hop 1.2.3.4'),
    ('vpls', 'missing-value', 'vpls base 10 offset 1 size 8 rd 1:1 next-hop 1.2.3.4'),
    ('vpls', 'missing-value', 'vpls endpoint 5 base 10 offset 1 size 8 next-hop 1.2.3.4'),
    ('vpls', 'missing-value', 'vpls'),
    ('vpls', 'missing-value', 'vpls endpoint'),
    ('vpls', 'duplicate-keyword', 'vpls endpoint 5 endpoint 6 base 10 offset 1 size 8 rd 1:1 next-hop 1.2.3.4'),
    ('flow', 'missing-value', 'flow route { match { destination 10.0.0.0/24; } }'),
    ('flow', 'missing-value', 'flow route { match { } then { discard; } }'),
    ('flow', 'missing-value', 'flow route { then { discard; } }'),
    ('flow', 'missing-value', 'flow route { match { destination 10.0.0.0/24; port; } then { discard; } }'),
    ('flow', 'missing-value', 'flow route { match { destination 10.0.0.0/24; port >; } then { discard; } }'),
    ('flow', 'missing-value', 'flow route { match { destination 10.0.0.0/24; port =80&; } then { discard; } }'),
    ('flow', 'missing-value', 'flow route { match { destination 10.0.0.0/24; port [ =80; } then { discard; } }'),
    ('flow', 'missing-value', 'flow route { match { destination 10.0.0.0/24; } then { rate-limit; } }'),
    ('flow', 'missing-value', 'flow route { match { destination 10.0.0.0/24; } then { redirect; } }'),
    ('flow', 'missing-value', 'flow route { match { destination; } then { discard; } }'),
    ('flow', 'missing-value', 'flow route { match { destination 10.0.0.0; } then { discard; } }'),
    ('flow', 'unbalanced', 'flow route { match { destination 10.0.0.0/24; } then { discard; }'),
    ('flow', 'unbalanced', 'flow route { match { destination 10.0.0.0/24; then { discard; } }'),
    ('flow', 'unbalanced', 'flow route match { destination 10.0.0.0/24; } then { discard; } }'),
    ('flow', 'unbalanced', 'flow route { match { destination 10.0.0.0/24; } then { discard; } } }'),
    ('flow', 'duplicate-keyword', 'flow route { match { destination 10.0.0.0/24; destination 10.0.1.0/24; } then { discard; } }'),
    ('flow', 'duplicate-keyword', 'flow route { match { destination 10.0.0.0/24; } then { discard; discard; rate-limit 9600; } }'),
    ('flow', 'non-numeric', 'flow route { match { destination 10.0.0.0/24; } then { rate-limit -1; } }'),
    ('flow', 'non-numeric', 'flow route { match { destination 10.0.0.0/24; } then { redirect x:y; } }'),
    ('flow', 'non-numeric', 'flow route { match { destination 1.2.3.256/32; } then { discard; } }'),
]
_KW_VALUE = ['med', 'local-preference', 'aigp', 'label', 'rd', 'path-information', 'originator-id', 'split', 'origin', 'next-hop', 'name', 'watchdog']
_KW_LIST = ['community', 'large-community', 'extended-community', 'cluster-list', 'as-path', 'label', 'attribute', 'aggregator', 'bgp-prefix-sid', 'bgp-prefix-sid-srv6']
for _k in _KW_VALUE + _KW_LIST:
    JUNK.append(('route', 'missing-value', f'route 10.0.0.0/24 next-hop 1.2.3.4 {_k}'))
for _k, _a, _b in [('med', '1', '2'), ('local-preference', '1', '2'), ('next-hop', '1.2.3.4', '1.2.3.5'), ('community', '[ 1:1 ]', '[ 2:2 ]'), ('label', '1', '2'), ('rd', '1:1', '2:2'), ('as-path', '[ 1 ]', '[ 2 ]'), ('origin', 'igp', 'egp'), ('path-information', '1', '2'), ('aigp', '1', '2'), ('large-community', '[ 1:1:1 ]', '[ 2:2:2 ]'), ('extended-community', '[ target:1:1 ]', '[ target:2:2 ]'), ('originator-id', '1.1.1.1', '2.2.2.2'), ('cluster-list', '[ 1.1.1.1 ]', '[ 2.2.2.2 ]'), ('aggregator', '( 1:1.1.1.1 )', '( 2:2.2.2.2 )'), ('attribute', '[ 0x99 0xc0 0x01 ]', '[ 0x99 0xc0 0x02 ]')]:
    JUNK.append(('route', 'duplicate-keyword', f'route 10.0.0.0/24 next-hop 1.2.3.4 {_k} {_a} {_k} {_b}'.replace('next-hop 1.2.3.4 next-hop', 'next-hop')))
for _t in ['community [ 1:1', 'community 1:1 ]', 'community [ [ 1:1 ] ]', 'community ]', 'as-path [ 1 2', 'as-path [ ( 1 2 ]', 'as-path ( 1 2', 'as-path [ 1 2 ) ]', 'as-path [ { 1 2 ]', 'as-path ]', 'cluster-list [ 1.1.1.1', 'cluster-list ]', 'label [ 1', 'label ]', 'label [ ]', 'aggregator ( 1:1.1.1.1', 'aggregator 1:1.1.1.1 )', 'aggregator ( )', 'attribute [ 0x99 0xc0 0x00', 'attribute 0x99 0xc0 0x00 ]', 'attribute [ ]', 'attribute [ 0x99 ]', 'extended-community [ target:1:1', 'extended-community ]', 'large-community [ 1:1:1', 'large-community ]', 'bgp-prefix-sid [ 1', 'bgp-prefix-sid [ 1, [ ( 1,2 ) ]', 'bgp-prefix-sid ]', 'bgp-prefix-sid-srv6 ( l3-service', 'bgp-prefix-sid-srv6 ( l3-service 2001::1 0x48 [ 1,2', 'community [ ]', 'cluster-list [ ]', 'as-path [ ]', 'large-community [ ]', 'extended-community [ ]']:
    JUNK.append(('route', 'unbalanced', 'route 10.0.0.0/24 next-hop 1.2.3.4 ' + _t))
for _t in ['rd abc label 3', 'rd : label 3', 'rd 1 label 3', 'rd 1:2:3 label 3', 'rd 1.2.3:4 label 3', 'rd 1.2.3.4.5:6 label 3', 'originator-id 1.2.3', 'originator-id a.b.c.d', 'originator-id 1.2.3.4.5', 'cluster-list 1.2.3', 'path-information 1.2.3', 'path-information 1.2.3.4.5', 'aggregator ( 1 )', 'aggregator ( 1:2 )', 'aggregator ( :1.2.3.4 )', 'large-community [ 1:2 ]', 'large-community [ 1:2:3:4 ]', 'large-community [ :: ]', 'community [ : ]', 'community [ 1:2:3 ]', 'extended-community [ target:1 ]', 'extended-community [ target:1:2:3 ]', 'extended-community [ bogus:1:2 ]', 'extended-community [ 0x0002 ]', 'extended-community [ 0x00020001000000010000 ]', 'extended-community [ 0x ]', 'extended-community [ l2info:1:2:3 ]', 'extended-community [ target:1.2.3:4 ]', 'extended-community [ target:L:1 ]', 'split 24', 'split /', 'split /x', 'origin bogus', 'next-hop 1.2.3', 'next-hop 1.2.3.256', 'next-hop bogus', 'attribute [ 0x99 0xc0 0x0 ]', 'attribute [ 99 0xc0 0x00 ]', 'bgp-prefix-sid [ x ]', 'bgp-prefix-sid [ 4294967296 ]', 'bgp-prefix-sid [ 1, [ ( 16777216,1 ) ] ]', 'bgp-prefix-sid-srv6 ( l3-service 2001::1 0x10000 )', 'bgp-prefix-sid-srv6 ( l3-service 2001::1 0x48 [ 256,0,0,0,0,0 ] )', 'bgp-prefix-sid-srv6 ( l3-service 1.2.3.4 )', 'bgp-prefix-sid-srv6 ( bogus 2001::1 )', 'bgp-prefix-sid-srv6 bogus']:
    JUNK.append(('route', 'malformed-value', 'route 10.0.0.0/24 next-hop 1.2.3.4 ' + _t))
for _t in ['route 10.0.0.1/24 next-hop 1.2.3.4', 'route 10.0.0/24 next-hop 1.2.3.4', 'route 10.0.0.256/32 next-hop 1.2.3.4', 'route bogus next-hop 1.2.3.4', 'route /24 next-hop 1.2.3.4', 'route 10.0.0.0/24/24 next-hop 1.2.3.4', 'route ::/64/1 next-hop ::1', 'route 1:2:3:4:5:6:7:8:9/64 next-hop ::1']:
    JUNK.append(('route', 'malformed-prefix', _t))
for _t in ['attributes', 'attributes nlri', 'attributes next-hop 1.2.3.4 nlri', 'attributes med 5 nlri 10.0.0.0/24', 'attributes next-hop 1.2.3.4 med 5 nlri bogus', 'attributes next-hop 1.2.3.4 nlri 10.0.0.0/24 nlri 10.0.1.0/24', 'attributes next-hop 1.2.3.4 med nlri 10.0.0.0/24']:
    JUNK.append(('attributes', 'missing-value', _t))


# the family of a prefix is the one it is written in: one `attributes … nlri` command with prefixes of both families,
# a prefix of the other family under `announce ipv4 unicast` / `announce ipv6 unicast` (API commands)
for _t in ['attributes next-hop 1.2.3.4 med 5 nlri 10.0.0.0/24 2001:db8::/32', 'attributes next-hop 1.2.3.4 med 5 nlri 2001:db8::/32 10.0.0.0/24', 'attributes next-hop 2001:db8::1 nlri 10.0.0.0/24 2001:db8::/32',
           'attributes next-hop 1.2.3.4 nlri 10.0.0.0/24 10.0.1.0/24', 'attributes next-hop 2001:db8::1 nlri 2001:db8:1::/48 2001:db8:2::/48']:
    JUNK.append(('attributes', 'families', _t))
for _k, _t in [('v4', 'ipv4 unicast 10.0.0.0/24 next-hop 1.2.3.4'), ('v4', 'ipv4 unicast 2001:db8::/32 next-hop 1.2.3.4'), ('v4', 'ipv4 unicast 2001:db8::/32 next-hop 2001:db8::1'), ('v4', 'ipv4 multicast 2001:db8::/32 next-hop 1.2.3.4'),
               ('v6', 'ipv6 unicast 2001:db8::/32 next-hop 2001:db8::1'), ('v6', 'ipv6 unicast 10.0.0.0/24 next-hop 2001:db8::1'), ('v6', 'ipv6 unicast 10.0.0.0/24 next-hop 1.2.3.4'),
               ('v4', 'ipv4 unicast 10.0.0.0/33 next-hop 1.2.3.4'), ('v6', 'ipv6 unicast 2001:db8::/129 next-hop 2001:db8::1'), ('v4', 'ipv4 unicast'), ('v4', 'ipv4 unicast 10.0.0.0/24'), ('v6', 'ipv6 bogus 2001:db8::/32 next-hop ::1')]:
    JUNK.append((_k, 'families', _t))
# every name the extended-community grammar knows, with too few / enough / too many fields
for _n in ['target', 'origin', 'redirect', 'l2info', 'redirect-to-nexthop', 'bandwidth', 'mup', 'target4', 'origin4', 'target-asn4', 'origin-asn4']:
    for _f in ['', ':1', ':1:2', ':1:2:3', ':1:2:3:4', ':1:2:3:4:5', ':1.2.3.4:5', ':70000:5', ':1:70000']:
        JUNK.append(('route', 'extended-community-name', f'route 10.0.0.0/24 next-hop 1.2.3.4 extended-community [ {_n}{_f} ]'))
for _h in ['0x', '0x00', '0x0002', '0x000200010000', '0x00020001000000', '0x0002000100000002', '0x000200010000000299', '0x00020001000000020002000100000003', '0xzz02000100000002', '0X0002000100000002']:
    JUNK.append(('route', 'extended-community-hex', f'route 10.0.0.0/24 next-hop 1.2.3.4 extended-community [ {_h} ]'))


# bgp-prefix-sid is left to the junk stream: its parser loops on an unclosed bracket and every hang costs a watchdog timeout;
# split too: `route ::/0 split /25` is 33 554 432 routes, which is slow by design and not a parser fault
VOCAB_KW = ['med', 'local-preference', 'community', 'large-community', 'extended-community', 'as-path', 'label', 'rd', 'path-information', 'aggregator', 'originator-id', 'cluster-list', 'aigp', 'origin', 'attribute', 'atomic-aggregate', 'withdraw', 'name', 'watchdog']
VOCAB_VAL = ['0', '1', '255', '256', '65535', '65536', '1048576', '4294967295', '4294967296', '18446744073709551616', '-1', 'x', '1.2.3.4', '1.2.3.256', '1:1', '65536:1', '1:65536', '1:1:1', '4294967296:1:1', 'target:1:1', 'target:65536:65536', '1.2.3.4:5', '1:1.2.3.4', '0x10', '0x99', '0xc0', '0x0102', 'igp', '/25', '[', ']', '(', ')', ',', '{', '}', 'self']


def pair_texts() -> list[str]:
    """Every keyword of the route grammar followed by every value of the vocabulary, bare and bracketed:
    enumerated, so that what one keyword does with one odd value is reported on every run and not only
    when the seeded soup happens to produce it."""
    out = []
    for kw in VOCAB_KW:
        for val in VOCAB_VAL:
            if val in ('[', ']', '(', ')', ',', '{', '}'):
                continue
            out.append(f'route 10.0.0.0/24 next-hop 1.2.3.4 {kw} {val}')
            out.append(f'route 10.0.0.0/24 next-hop 1.2.3.4 {kw} [ {val} ]')
    return out


def gen_soup(rng, n_tokens: int) -> str:
    pfx = rng.choice(['10.0.0.0/24', '10.0.0.0/24', '::/0', '0.0.0.0/0', '10.0.0.0/33', '10.0.0.0'])
    toks = ['route', pfx]
    if rng.random() < 0.8:
        # the next hop of the family of the prefix: a route whose next hop is of the other family is a
        # question of what was negotiated (RFC 8950), not of the text
        # (`self` only for IPv4: the sessions of the rig run over IPv4, and `next-hop self` of the other
        # family is refused when the route is resolved for the session, which is not the parser's doing)
        toks += ['next-hop', rng.choice(['::1'] if ':' in pfx else ['1.2.3.4', '1.2.3.4', 'self'])]
    for _ in range(n_tokens):
        toks.append(rng.choice(VOCAB_KW) if rng.random() < 0.45 else rng.choice(VOCAB_VAL))
    return ' '.join(toks)


_IP4 = re.compile(r'^\d+\.\d+\.\d+\.\d+$')


def abstract(tok: str) -> str:
    if tok in VOCAB_KW or tok in ('route', 'attributes', 'nlri', 'vpls', 'flow', '[', ']', '(', ')', ',', '{', '}', 'self', 'igp'):
        return tok
    if re.match(r'^\d+$', tok):
        return 'N'
    if re.match(r'^-\d+$', tok):
        return '-N'
    if _IP4.match(tok):
        return 'IP256' if any(int(x) > 255 for x in tok.split('.')) else 'IP'
    if re.match(r'^[\d.]+/\d+$', tok) or re.match(r'^[0-9a-f:]+/\d+$', tok):
        return 'PFX'
    if ':' in tok and re.match(r'^[\d.:a-z]+$', tok):
        return re.sub(r'\d+', 'N', tok)
    if tok.startswith('0x'):
        return '0xH'
    return 'W'


DECODER_NOTES: dict[str, str] = {}  # exception of ExaBGP's decoder on a well-formed UPDATE -> first text

KEYWORDS = set(VOCAB_KW) | {'next-hop', 'split', 'bgp-prefix-sid', 'bgp-prefix-sid-srv6', 'route-distinguisher', 'nlri', 'endpoint', 'base', 'offset', 'size', 'route', 'attributes', 'vpls', 'flow'}


def culprit(kind: str, text: str) -> str:
    """The last grammar keyword of a (shrunk) failing text: what the failure is filed under."""
    if kind in ('flow', 'flow6'):
        m = re.findall(r'(destination|source|protocol|next-header|port|destination-port|source-port|icmp-type|icmp-code|tcp-flags|packet-length|dscp|traffic-class|fragment|flow-label|rate-limit|redirect|mark|discard|then|match)', text)
        return 'flow ' + (m[-1] if m else 'route')
    if kind == 'vpls':
        return 'vpls'
    kws = [t for t in text.split(' ')[1:] if t in KEYWORDS]
    other = [t for t in kws if t != 'next-hop']
    return other[-1] if other else (kws[-1] if kws else kind)


def junk_outcome(rig: fr.Rig, kind: str, text: str) -> tuple[str, str]:
    """('ok'|'refused'|<fault>, detail) over every entry point and, when accepted, every session shape."""
    out = run_entries(rig, kind, text, ('text', 'api', 'handler') + (('file',) if kind in ('route', 'attributes', 'flow', 'flow6', 'vpls') else ()))
    if 'file' in out:
        out['file'] = out['file'][0]  # (outcome, what the error says): the outcome
    for name, o in out.items():
        if name == 'handler':
            if o[0] == 'hangs':
                return 'hangs', 'handler does not return'
            if o[0] == 'raised':
                return 'raises', f'handler: {o[2]}'
            if o[0] == 'silent':
                return 'no-answer', 'handler answered neither done nor error'
            continue
        if o.status == 'hangs':
            return 'hangs', f'{name}: the parser does not return'
        if o.status == 'raised':
            return 'raises', f'{name}: {o.detail}'
    routes = accepted_routes(out)
    # what a configuration file holding the definition is accepted with is accepted too, whatever the API says of
    # the same text (parse_route_text, the `text` entry, is not an entry point of its own: it leaves what the
    # neighbor checks at the end of its section to its caller)
    file_out = out.get('file')
    troutes = file_out.routes if file_out is not None and file_out.status == 'ok' and file_out.routes else None  # a statement which defines no route has nothing to send
    if routes is None and troutes is None:
        return 'refused', ''
    for origin, rs in (('api', routes), ('file', troutes)):
        if rs is None:
            continue
        v, d = sendable_as_written(rig, kind, text, rs)
        if v != 'ok':
            return v, f'{origin}: {d}'
    return 'ok', ''


# RFC 4271 4.3 / 5.1, RFC 1997, RFC 4456, RFC 4360, RFC 8092: the value lengths of the attributes the route grammar
# can produce (code -> predicate on the length)
ATTR_LENGTH_RULES: dict[int, Any] = {
    1: lambda n: n == 1, 3: lambda n: n == 4, 4: lambda n: n == 4, 5: lambda n: n == 4, 6: lambda n: n == 0, 7: lambda n: n in (6, 8),
    8: lambda n: n > 0 and n % 4 == 0, 9: lambda n: n == 4, 10: lambda n: n > 0 and n % 4 == 0, 16: lambda n: n > 0 and n % 8 == 0, 32: lambda n: n > 0 and n % 12 == 0,
}
_PFX_TOKEN = re.compile(r'^[0-9a-fA-F:.]+/\d+$')


def written_prefixes(text: str) -> set | None:
    """The prefixes the text names (None when the text multiplies them: `split`)."""
    import ipaddress

    toks = text.split(' ')
    if 'split' in toks:
        return None
    out = set()
    for t in toks:
        if _PFX_TOKEN.match(t):
            try:
                out.add(ipaddress.ip_network(t, strict=False))
            except ValueError:
                pass
    return out


def sendable_as_written(rig: fr.Rig, kind: str, text: str, routes: list) -> tuple[str, str]:
    """An accepted definition: can be rendered, names the prefixes the text names (in their own family), encodes on
    every session shape into well-formed UPDATEs whose attribute values have a length their type allows."""
    import ipaddress

    for r in routes:
        try:
            str(r.nlri), str(r.attributes), r.extensive()
        except Exception as e:  # noqa: BLE001
            return 'render-raises', fr._exc(e)
    if kind in ('route', 'attributes', 'v4', 'v6'):
        want = written_prefixes(text)
        if want:
            for r in routes:
                cidr = getattr(r.nlri, 'cidr', None)
                if cidr is None:
                    continue
                try:
                    got = ipaddress.ip_network(cidr.prefix(), strict=False)
                except Exception as e:  # noqa: BLE001
                    return 'prefix-not-as-written', f'{r.nlri}: {fr._exc(e)}'
                if got not in want or (got.version == 4) != (int(r.nlri.afi) == 1):
                    return 'prefix-not-as-written', f'the text names {sorted(str(w) for w in want)}, the route is {r.nlri} (afi {int(r.nlri.afi)})'
    for sh in rig.shapes:
        try:
            msgs = rig.encode(sh, routes)
        except Exception as e:  # noqa: BLE001
            return 'encode-raises', f'{sh.name}: {fr._exc(e)}'
        for m in msgs:
            try:
                _, attrs, _ = fr.split_update(m[19:])
            except Exception as e:  # noqa: BLE001 — not a well-formed UPDATE by the RFC 4271 layout
                return 'sent-malformed', f'{sh.name}: {fr._exc(e)}'
            for _flag, code, v in attrs:
                rule = ATTR_LENGTH_RULES.get(code)
                if rule is not None and not rule(len(v)):
                    return 'sent-malformed', f'{sh.name}: attribute {code} sent with a value of {len(v)} octets'
            try:
                rig.decode(sh, m)
            except Exception as e:  # noqa: BLE001 — the decoder's business (C02 / C03), noted
                DECODER_NOTES.setdefault(fr._exc(e)[:80], f'"{text[:120]}" on {sh.name}')
    return 'ok', ''


def token_groups(kind: str, text: str) -> tuple[list[str], list[list[str]]]:
    """(head, groups): the head is `route <prefix>` (or the first word), a group is a keyword of the grammar
    with everything up to the next keyword — a keyword is never separated from its value."""
    toks = text.split(' ')
    nhead = 2 if kind == 'route' else 1
    head, rest = toks[:nhead], toks[nhead:]
    groups: list[list[str]] = []
    for t in rest:
        if t in KEYWORDS or not groups:
            groups.append([t])
        else:
            groups[-1].append(t)
    return head, groups


def shrink_tokens(rig: fr.Rig, kind: str, text: str, fault: str) -> str:
    """Drop whole keyword groups, then trailing value tokens of the groups that remain, while the
    verdict stays the same."""
    head, groups = token_groups(kind, text)

    def render(gs: list[list[str]]) -> str:
        return ' '.join(head + [t for g in gs for t in g])

    tries = 0
    i = len(groups) - 1
    while i >= 0:
        tries += 1
        if fault == 'hangs' and tries > 8:
            return render(groups)
        cand = groups[:i] + groups[i + 1 :]
        if junk_outcome(rig, kind, render(cand))[0] == fault:
            groups = cand
        i -= 1
    for gi in range(len(groups)):
        while len(groups[gi]) > 1:
            tries += 1
            if fault == 'hangs' and tries > 8:
                return render(groups)
            cand = [list(g) for g in groups]
            cand[gi] = cand[gi][:-1]
            if junk_outcome(rig, kind, render(cand))[0] == fault:
                groups = cand
            else:
                break
    return render(groups)


# ---------------------------------------------------------------------------------------------


def load_corpus() -> list[dict]:
    d = common.VERIF / 'corpus' / PROP
    return [json.loads(f.read_text()) for f in sorted(d.glob('*.json'))] if d.exists() else []


def spec_by(name: str, note: str = '', kind: str | None = None) -> fr.FieldSpec:
    for s in fr.FIELDS:
        if s.name == name and (not note or s.note == note) and (kind is None or s.kind == kind):
            return s
    raise KeyError(name)


def build_cases(sw: Sweep, tier: str) -> list[tuple[Case, tuple[str, ...]]]:
    cases: list[tuple[Case, tuple[str, ...]]] = []
    full = ('text', 'api', 'handler')
    for c in load_corpus():
        if c.get('stream', 'grid') != 'grid':
            continue
        spec = spec_by(c['field'], c.get('note', ''), c.get('kind'))
        vtext = spec.count(c['count']) if c.get('count') is not None else c['vtext']
        cases.append((Case(spec, vtext, c.get('value'), c['class'], 'corpus'), full + ('file',)))
    for spec in fr.FIELDS:
        limit = sw.limit_of(spec)
        if spec.count is not None:
            unit = Sweep.unit(spec)
            for n in count_values(spec, limit, unit, tier):
                ent = ('api',) if (spec.slow and n > 300) else full + (('file',) if n in (limit, limit - 1) or n < 3 else ())
                cases.append((Case(spec, spec.count(n), n, cls_of(n, limit)), ent))
            continue
        hexform = spec.note == 'hex'
        for v in boundary_values(limit, tier):
            if spec.name == 'attrCode' and v in (3, 5):
                continue  # NEXT_HOP and LOCAL_PREF are the speaker's own (see the random sample): not a numeric question
            vt = hex(v) if hexform else str(v)
            file_too = tier == 'thorough' or v in (limit - 1, limit, 0, 2**32, 2**64) or (limit <= SMALL_DOMAIN // 2 and v <= limit + 1)
            cases.append((Case(spec, vt, v, cls_of(v, limit)), full + (('file',) if file_too else ())))
        if spec.name in ('aigp', 'communityPlain'):
            # the grammar of these two also takes 0x… : the same boundaries written in hexadecimal
            for v in (limit - 1, limit, limit + 1):
                cases.append((Case(spec, hex(v), v, cls_of(v, limit)), full))
        in_brackets = re.search(r'[\[(][^\])]*\{v\}', spec.template) is not None
        for cls, vt, meaning in ODD:
            if hexform and cls == 'hex':
                continue
            if cls == 'empty' and in_brackets:
                continue  # an empty text inside a bracketed list is just a shorter list
            if cls == 'float' and spec.sess:
                cls, meaning = 'asdot', (1 << 16) + 5  # 1.5 is the asdot notation of AS 65541
            cases.append((Case(spec, vt, meaning, cls), full + ('file',)))
    return cases


def thorough_slow_cases(sw: Sweep) -> list[tuple[Case, float]]:
    """(case, estimated seconds): the list parsers are quadratic, so the over-the-limit counts of the
    three community lists are run last and only while the budget lasts."""
    out = []
    for name, n, cost in [('largeCommunitiesCount', 5462, 40), ('largeCommunitiesCount', 5461, 40), ('extCommunitiesCount', 8192, 80), ('extCommunitiesCount', 8191, 80), ('communitiesCount', 16384, 300)]:
        spec = spec_by(name)
        out.append((Case(spec, spec.count(n), n, cls_of(n, sw.limit_of(spec))), cost))
    return out


def lean_batch(cases: list[Case], sw: Sweep) -> dict[str, str]:
    lines: list[str] = []
    seen: set[str] = set()

    def add(q: str) -> None:
        if q not in seen:
            seen.add(q)
            lines.append(q)

    for c in cases:
        tok = token_int(c)
        if tok is not None:
            for ln in [c.spec.name + x for x in (('4', '2') if c.spec.sess else ('',))]:
                add(f'accepts {ln} {tok}')
        if c.value is None:
            continue
        names = [c.spec.name + x for x in (('4', '2') if c.spec.sess else ('',))]
        for ln in names:
            add(f'fits {ln} {c.value}')
            add(f'enc {ln} {c.value}')
            if ln == 'attrFlag':
                add(f'enc {ln} {c.value & 0xEF}')
        if c.spec.count is not None:
            add(f'msgfits 65535 {c.value * Sweep.unit(c.spec) + 4 + 12} 4')
            add(f'msgfits 65535 {c.value * Sweep.unit(c.spec) + 4 + 160} 4')
        for r in c.shapes:
            w = r.get('wire')
            if w is None:
                continue
            ln = c.spec.name + (('4' if r['kind'] == 'asn4' else '2') if c.spec.sess else '')
            wb = fr.pad(bytes.fromhex(w), sw.widths[ln])
            add(f'dec {ln} {wb.hex()}')
    out = common.run_driver('drv_fields', ['fields ' + q for q in lines])
    return dict(zip(lines, out))


def run(ctx: Ctx) -> None:
    t0 = time.time()
    rig = fr.Rig()
    sw = Sweep(ctx, rig)
    ctx.rule = (
        'grid + sample: every field of M-Fields (each with its own text template: static route, `attributes … nlri`, flow, IPv6 flow, vpls) x '
        'boundary values {0, 1, limit-2, limit-1, limit, limit+1, 2*limit, 256*limit} + {2^8, 2^12, 2^16, 2^20, 2^24, 2^32, 2^63, 2^64, 2^96, 10^30 and neighbours} '
        '+ odd value texts {negative, non-numeric, empty, hex, float, plus sign, leading zeros, unicode digit, exponent, separator}; counts around the extended-length switch, 4096 and the 65535 limit; plus a seeded random sample per field (magnitude-uniform) below the limit, above it and below zero; the real accept / refuse decision of every numeric token is compared with the model\'s `accepts` (the generated range check) as well as with `fits`; '
        'each through Configuration.parse_route_text, API.api_*, the API command handler and (boundary subset; all in thorough) a configuration file; accepted definitions encoded and decoded on 18 session shapes (16 with AIGP enabled, one eBGP shape without it first and last, the same Route objects throughout). '
        'junk: hand-written structural junk; pairs: every keyword of the route grammar x every value of a 30-value vocabulary, bare and bracketed; soup: seeded random token sequences over the same vocabulary; failures shrunk token by token and filed under the last keyword of the shrunk text. '
        'a grid case is non-trivial when the value was accepted, fits, was encoded on all the shapes and both decoders returned the written value; '
        'a junk/soup case is non-trivial when it was refused with a message or accepted and encoded on every shape; distinct = (field, template, value) resp. distinct text'
    )
    if not ctx.driver_ok:
        ctx.notes.append('drv_fields did not build: acceptance cannot be compared with the model')
        rig.close()
        return
    sw.load_limits()

    # ---- grid ------------------------------------------------------------------------------
    todo = build_cases(sw, ctx.tier)
    todo += sample_cases(sw, ctx.rng, ctx.tier)
    reserve = 25 if ctx.tier == 'quick' else 420
    for case, entries in todo:
        if ctx.time_left() < reserve:
            ctx.notes.append(f'grid cut by the budget after {len(sw.cases)} of {len(todo)} cases')
            break
        sw.run_case(case, entries)
    lean = lean_batch(sw.cases, sw)
    for case in sw.cases:
        sw.judge(case, lean)
        if case.shapes and len(ctx.samples) < 4 and case.cls == 'in-range' and case.value not in (0, 1):
            ctx.sample({'text': case.text[:200], 'field': case.spec.name, 'value': str(case.value), 'api': case.out['api'].short(), 'wire': {r['shape']: r.get('wire') for r in case.shapes[:3]}, 'read_back': case.shapes[0].get('seen')}, cap=4)
    for case in sw.cases:
        if case.cls == 'over-range' and len(ctx.samples) < 7:
            ctx.sample({'text': case.text[:200], 'field': case.spec.name, 'value': str(case.value), 'outcomes': {k: (v[0] if k == 'handler' else (v[0].short() if k == 'file' else v.short())) for k, v in case.out.items()}}, cap=7)
    ctx.extra['grid_cases'] = len(sw.cases)
    ctx.extra['grid_seconds'] = round(time.time() - t0, 1)

    # ---- AS_PATH segment split and attribute length (model: segSplit / asPathLen) -------------------
    t1 = time.time()
    aspath_counts(ctx, sw)

    # ---- history: the family a flow is checked against is the one of the last static route ---------
    history_cases(ctx, sw)
    independence_cases(ctx, sw)

    # ---- file: the line the error names ------------------------------------------------------------
    file_line_case(ctx, sw)

    # ---- junk --------------------------------------------------------------------------------------
    junk = [(c['kind'], c['class'], c['text']) for c in load_corpus() if c.get('stream') == 'junk']  # corpus first
    junk += [j for j in JUNK if (j[0], j[2]) not in {(k, t) for k, _, t in junk}]
    for kind, cls, text in junk:
        if ctx.time_left() < 10:
            ctx.notes.append('junk stream cut by the budget')
            break
        verdict, detail = junk_outcome(rig, kind, text)
        ctx.evaluations += 1
        ctx.count('junk:' + cls)
        ctx.count('junk-verdict:' + verdict)
        if verdict in ('ok', 'refused'):
            ctx.nontrivial({'junk': text})
            continue
        small = shrink_tokens(rig, kind, text, verdict) if kind in ('route', 'attributes', 'vpls') else text
        canon = {'field': 'structure:' + culprit(kind, small), 'class': cls if small == text and kind not in ('route', 'attributes') else 'structure', 'session': 'all', 'fault': verdict}
        key = json.dumps(canon, sort_keys=True)
        ctx.count('oracle-fail:' + verdict)
        if key not in sw.seen_fail:
            f = Failure('text-field', canon, {'kind': kind, 'text': small, 'original': text, 'stream': 'junk'}, f'"{small}": {verdict}: {junk_outcome(rig, kind, small)[1] if small != text else detail}')
            sw.seen_fail[key] = f
            ctx.failures.append(f)

    # ---- pairs: keyword x value, enumerated --------------------------------------------------------
    for text in pair_texts():
        if ctx.time_left() < 12:
            ctx.notes.append('keyword x value stream cut by the budget')
            break
        verdict, detail = junk_outcome(rig, 'route', text)
        ctx.evaluations += 1
        ctx.count('pairs-verdict:' + verdict)
        if verdict in ('ok', 'refused'):
            ctx.nontrivial({'pair': text})
            continue
        small = shrink_tokens(rig, 'route', text, verdict)
        canon = {'field': 'structure:' + culprit('route', small), 'class': 'structure', 'session': 'all', 'fault': verdict}
        key = json.dumps(canon, sort_keys=True)
        ctx.count('oracle-fail:' + verdict)
        if key not in sw.seen_fail:
            f = Failure('text-field', canon, {'kind': 'route', 'text': small, 'original': text, 'stream': 'junk'}, f'"{small}": {verdict}: {junk_outcome(rig, "route", small)[1]}')
            sw.seen_fail[key] = f
            ctx.failures.append(f)

    # ---- soup --------------------------------------------------------------------------------------
    n_soup = 400 if ctx.tier == 'quick' else 12000
    done = 0
    for _ in range(n_soup):
        if ctx.time_left() < (6 if ctx.tier == 'quick' else 620):
            break
        text = gen_soup(ctx.rng, ctx.rng.randrange(1, 9))
        verdict, detail = junk_outcome(rig, 'route', text)
        done += 1
        ctx.evaluations += 1
        ctx.count('soup-verdict:' + verdict)
        if verdict in ('ok', 'refused'):
            ctx.nontrivial({'soup': text})
            continue
        small = shrink_tokens(rig, 'route', text, verdict)
        canon = {'field': 'structure:' + culprit('route', small), 'class': 'structure', 'session': 'all', 'fault': verdict}
        key = json.dumps(canon, sort_keys=True)
        ctx.count('oracle-fail:' + verdict)
        if key not in sw.seen_fail:
            f = Failure('text-field', canon, {'kind': 'route', 'text': small, 'original': text, 'stream': 'soup'}, f'"{small}": {verdict}: {junk_outcome(rig, "route", small)[1]}')
            sw.seen_fail[key] = f
            ctx.failures.append(f)
    ctx.extra['soup_cases'] = done
    ctx.extra['junk_soup_seconds'] = round(time.time() - t1, 1)

    # ---- thorough: the quadratic list parsers at their limits ---------------------------------------
    if ctx.tier == 'thorough':
        extra_cases = []
        for case, cost in thorough_slow_cases(sw):
            if ctx.time_left() < cost + 30:
                ctx.notes.append(f'{case.spec.name} n={case.value} skipped: estimated {cost}s, {int(ctx.time_left())}s left')
                continue
            sw.run_case(case, ('api',))
            extra_cases.append(case)
        if extra_cases:
            lean2 = lean_batch(extra_cases, sw)
            for case in extra_cases:
                sw.judge(case, lean2)
    for exc, where in list(DECODER_NOTES.items())[:8]:
        ctx.notes.append(f'well-formed UPDATE that ExaBGP\'s own decoder refuses (not held against the parser): {exc}: {where}')
    total = time.time() - t0
    ctx.extra['cases_per_second'] = round(ctx.evaluations / max(total, 0.001), 1)
    rig.close()


def aspath_counts(ctx: Ctx, sw: Sweep) -> None:
    """n AS numbers written in one segment.  Model: the segments on the wire are `segSplit n` (each
    at most 255), the value takes `asPathLen` bytes.  "Can be sent on every kind of session" is decided
    on the 4-byte form (the longer one): it must be accepted when it leaves 160 bytes for the rest of a
    65535-byte UPDATE, must be refused when it does not even fit beside the smallest mandatory
    attributes, and there is no verdict in between."""
    rig = sw.rig
    ns = [0, 1, 2, 254, 255, 256, 510, 511, 600, 8000, 16000, 16200, 16300, 16400, 32000, 32640, 33000]
    lines = []
    for n in ns:
        lines += [f'fields segsplit {n}', f'fields aspathlen 1 {n}', f'fields aspathlen 0 {n}']
    out = common.run_driver('drv_fields', lines)
    spec = fr.FieldSpec('asPathCount', 'route', 'route 10.0.0.0/24 next-hop 1.2.3.4 as-path [ {v} ]', lambda *a: None, count=lambda n: ' '.join(str(1 + (k % 60000)) for k in range(n)))
    for i, n in enumerate(ns):
        want_split = [int(x) for x in out[3 * i].split(',')] if out[3 * i] != '-' else []
        len4, len2 = int(out[3 * i + 1]), int(out[3 * i + 2])
        must_accept = len4 + 4 + 23 + 4 + 160 <= 65535
        must_refuse = len4 + 4 + 23 + 4 + 12 > 65535
        case = Case(spec, spec.count(n), n, 'in-range' if must_accept else ('over-range' if must_refuse else 'room-depends-on-session'), 'count')
        res = run_entries(rig, 'route', case.text, ('text', 'api', 'handler'))
        case.out = res
        ctx.evaluations += 1
        ctx.count('aspath-count')
        bad = [(name, sw.st(res, name)) for name in res if sw.st(res, name) in ('raised', 'hangs')]
        if bad:
            name = bad[0][0]
            sw.fail(case, 'all', 'raises' if bad[0][1] == 'raised' else 'hangs', f'as-path with {n} AS numbers: {name}: {res[name][2] if name == "handler" else res[name].detail}')
            continue
        routes = accepted_routes(res)
        if routes is None:
            if must_accept and n > 0:
                sw.fail(case, 'all', 'refused-fits', f'as-path with {n} AS numbers ({len4} bytes with 4-byte AS numbers) refused although it can be sent on every session')
            elif n > 0:
                ctx.count('agree:refused-unfit')
            continue
        results = []
        for sh in rig.shapes[::2]:
            try:
                msgs = rig.encode(sh, routes)
            except Exception as e:  # noqa: BLE001
                results.append((sh, 'raises', fr._exc(e)))
                continue
            if not msgs:
                results.append((sh, 'nothing', ''))
                continue
            wd, attrs, nlri = fr.split_update(msgs[0][19:])
            v = fr.attr(attrs, 2)
            got = [len(es) for t, es in fr.path_segments(v, 4 if sh.asn4 else 2)] if v else []
            results.append((sh, 'sent', got))
        raised = [r for r in results if r[1] == 'raises']
        nothing65 = [r for r in results if r[1] == 'nothing' and r[0].size == 65535]
        ctx.count('dropped-on-small-session(C09)', sum(1 for r in results if r[1] == 'nothing' and r[0].size != 65535))
        if raised:
            sh, _, exc = raised[0]
            kinds = {r[0].kind for r in raised}
            sw.fail(case, 'all' if len(kinds) == 2 else kinds.pop(), 'accepted-unfit' if not must_accept else 'encode-raises', f'as-path with {n} AS numbers ({len4} / {len2} bytes with 4- / 2-byte AS numbers) accepted; messages() raises {exc} on {sh.name}')
            continue
        if nothing65 and (must_refuse or must_accept):
            sh = nothing65[0][0]
            kinds = {r[0].kind for r in nothing65}
            sw.fail(case, 'all' if len(kinds) == 2 else kinds.pop(), 'accepted-unfit' if must_refuse else 'nothing-sent', f'as-path with {n} AS numbers ({len4} / {len2} bytes) accepted; no UPDATE at all is produced for it on {sh.name}: silently dropped')
            continue
        wrong = [r for r in results if r[1] == 'sent' and n > 0 and (any(x > 255 or x == 0 for x in r[2]) or sum(r[2]) != n)]
        if wrong:
            sw.fail(case, 'all', 'value-differs', f'as-path with {n} AS numbers sent as segments {wrong[0][2][:6]}… on {wrong[0][0].name}')
            continue
        for sh, what, got in results:
            if what != 'sent' or n == 0:
                continue
            if got != want_split:
                if len(ctx.disagreements) < 20:
                    ctx.disagreements.append(Disagreement('fields-segsplit', {'n': n, 'shape': sh.name}, want_split, got))
            else:
                ctx.count('agree:segsplit')
                ctx.nontrivial({'aspath-count': n, 'asn4': sh.asn4, 'ibgp': sh.ibgp})


def history_cases(ctx: Ctx, sw: Sweep) -> None:
    """A flow definition must be judged on its own text, not on which static route was parsed before it."""
    rig = sw.rig
    flows = {
        'flow6': ('flow route { match { destination 2001:db8::/32; next-header 6; } then { discard; } }', 'flowNextHeader'),
        'flow': ('flow route { match { destination 10.0.0.0/24; protocol 6; } then { discard; } }', 'flowProtocol'),
    }
    for kind, (text, fname) in flows.items():
        verdicts = {}
        for before, route in (('after-ipv4-route', 'route 10.9.9.0/24 next-hop 1.2.3.4'), ('after-ipv6-route', 'route 2001:db8::/64 next-hop ::1')):
            rig.api_call('route', route)
            o = rig.api_call(kind, text)
            verdicts[before] = o.short() + ((': ' + o.detail[:80]) if o.status != 'ok' else '')
            ctx.evaluations += 1
            ctx.count('history')
        if len({v.split(':')[0] for v in verdicts.values()}) > 1:
            canon = {'field': fname, 'class': 'in-range', 'session': 'all', 'fault': 'depends-on-previous-command'}
            key = json.dumps(canon, sort_keys=True)
            if key not in sw.seen_fail:
                f = Failure('text-field', canon, {'kind': kind, 'text': text, 'stream': 'history'}, f'"{text}" is accepted or refused depending on the static route parsed before it: {verdicts}')
                sw.seen_fail[key] = f
                ctx.failures.append(f)
        else:
            ctx.nontrivial({'history': text})


FLOW_ACTIONS = ['discard', 'rate-limit 9600', 'redirect 65000:12', 'redirect-to-nexthop', 'copy 10.0.0.9', 'mark 17', 'action sample', 'action terminal', 'action sample-terminal',
                'community [ 65000:1 ]', 'large-community [ 65000:1:2 ]', 'extended-community [ target:65000:7 ]', 'extended-community [ origin:65000:8 ]']
ROUTE_ATTRS = ['community [ 65000:1 65000:2 ]', 'extended-community [ target:65000:7 ]', 'extended-community [ origin:1.2.3.4:8 ]', 'large-community [ 65000:1:2 ]', 'med 7',
               'local-preference 70', 'as-path [ 65001 65002 ]', 'aggregator ( 65001:10.9.9.9 )', 'originator-id 10.1.1.1', 'cluster-list [ 10.2.2.2 ]', 'atomic-aggregate', 'origin egp']


def independence_cases(ctx: Ctx, sw: Sweep) -> None:
    """What an accepted definition sends is a function of its own text: it does not depend on which other
    definitions were accepted before it in the same process.  Every single action / attribute alone, then every
    ordered pair, each parsed by the real API parser and encoded; then all of them again, the other way round —
    the bytes of a definition must be the same both times."""
    rig = sw.rig
    sh = rig.shapes[0]
    defs: list[tuple[str, str]] = []
    for a in FLOW_ACTIONS:
        defs.append(('flow', f'flow route {{ match {{ destination 10.1.0.0/24; }} then {{ {a}; }} }}'))
    for a in ROUTE_ATTRS:
        defs.append(('route', f'route 10.2.0.0/24 next-hop 1.2.3.4 {a}'))
    for i, a in enumerate(FLOW_ACTIONS):
        for b in FLOW_ACTIONS:
            if a != b:
                defs.append(('flow', f'flow route {{ match {{ destination 10.1.{i + 1}.0/24; }} then {{ {a}; {b}; }} }}'))
    for i, a in enumerate(ROUTE_ATTRS):
        for b in ROUTE_ATTRS:
            if a.split(' ')[0] != b.split(' ')[0]:
                defs.append(('route', f'route 10.2.{i + 1}.0/24 next-hop 1.2.3.4 {a} {b}'))

    def sent(kind: str, text: str) -> str:
        o = rig.api_call(kind, text)
        if o.status != 'ok':
            return o.short()
        try:
            return b''.join(rig.encode(sh, o.routes)).hex()
        except Exception as e:  # noqa: BLE001
            return 'encode-raises:' + fr._exc(e).split(':')[0]

    first = {}
    for kind, text in defs:
        if ctx.time_left() < 12:
            ctx.notes.append('independence stream cut by the budget')
            return
        first[text] = sent(kind, text)
        ctx.evaluations += 1
        ctx.count('independence:first-pass')
    differ = []
    for kind, text in reversed(defs):
        if ctx.time_left() < 8:
            break
        again = sent(kind, text)
        ctx.count('independence:second-pass')
        if again != first[text]:
            differ.append((kind, text, first[text], again))
        elif again not in ('refused',) and not again.startswith(('raised', 'encode-raises')):
            ctx.nontrivial({'independence': text})
    if differ:
        kind, text, a, b = min(differ, key=lambda d: len(d[1]))
        word = text.split('{')[-2].split(';')[0].strip().split(' ')[0] if kind == 'flow' else text.split(' ')[5]
        canon = {'field': 'structure:' + word, 'class': 'history', 'session': 'all', 'fault': 'depends-on-earlier-definitions'}
        key = json.dumps(canon, sort_keys=True)
        ctx.count('oracle-fail:depends-on-earlier-definitions')
        if key not in sw.seen_fail:
            f = Failure('text-field', canon, {'kind': kind, 'text': text, 'stream': 'independence', 'n_differ': len(differ)},
                        f'"{text}" is sent as {a[:120]} when parsed before the other definitions and as {b[:120]} after them ({len(differ)} definition(s) differ)')
            sw.seen_fail[key] = f
            ctx.failures.append(f)


def file_line_case(ctx: Ctx, sw: Sweep) -> None:
    """The refusal of a definition in a file names the line of the file the definition is on."""
    import os
    import tempfile

    from exabgp.configuration.configuration import Configuration
    from exabgp.rib import RIB

    body = (
        'neighbor 127.0.0.2 {\n'
        '    # a comment line\n'
        '\n'
        '    router-id 1.1.1.1;\n'
        '    local-address 127.0.0.1;\n'
        '    local-as 65000; peer-as 65001;\n'
        '    family { ipv4 unicast; }\n'
        '    static {\n'
        '        route 10.0.0.0/24 next-hop 1.2.3.4 med 5;\n'
        '        route 10.0.1.0/24 next-hop 1.2.3.4 med 4294967296;\n'
        '    }\n'
        '}\n'
    )
    bad_line = 10
    RIB._cache.clear()
    fd, path = tempfile.mkstemp(suffix='.conf', prefix='c18-line-')
    try:
        with os.fdopen(fd, 'w') as f:
            f.write(body)
        c = Configuration([path])
        ok = c.reload()
        msg = str(c.error)
    except Exception as e:  # noqa: BLE001
        ok, msg = False, 'raised ' + fr._exc(e)
    finally:
        os.unlink(path)
        RIB._cache.clear()
    ctx.evaluations += 1
    ctx.count('file-line')
    m = re.search(r'line (\d+)', msg)
    ctx.extra['file_line'] = {'expected': bad_line, 'reported': int(m.group(1)) if m else None, 'message': msg[:200]}
    if ok is True or not m:
        canon = {'field': 'med', 'class': 'over-range', 'session': 'all', 'fault': 'file-error-without-line'}
        ctx.failures.append(Failure('text-field', canon, {'file': body, 'stream': 'file-line'}, f'file with med 4294967296 on line {bad_line}: reload -> {ok}, message {msg[:160]!r}'))
    elif int(m.group(1)) != bad_line:
        canon = {'field': 'file-line', 'class': 'comment-blank-or-two-statements-per-line', 'session': 'all', 'fault': 'file-error-wrong-line'}
        ctx.failures.append(Failure('text-field', canon, {'file': body, 'stream': 'file-line'}, f'the refused definition is on line {bad_line} of the file; the error says line {m.group(1)} (a statement counter, not a file line): {msg[:160]!r}'))
    else:
        ctx.nontrivial({'file-line': bad_line})


# ---------------------------------------------------------------------------------------------


def replay(path: str) -> int:
    """Re-execute one recorded case on the current tree; exit status 1 when the oracle still fails on it."""
    import random

    data = json.loads(open(path).read())
    rp = data['replay']
    rig = fr.Rig()
    ctx = Ctx(prop=PROP, tier='quick', seed=0, rng=random.Random(0))
    ctx.deadline = time.time() + 600
    sw = Sweep(ctx, rig)
    sw.load_limits()
    stream = rp.get('stream', 'grid')
    print('recorded:', data.get('canon'))
    print('          ', data.get('what'))
    if stream in ('junk', 'soup'):
        verdict, detail = junk_outcome(rig, rp['kind'], rp['text'])
        print('text    :', rp['text'])
        print('now     :', verdict, detail)
        return 0 if verdict in ('ok', 'refused') else 1
    if stream == 'history':
        history_cases(ctx, sw)
    elif stream == 'independence':
        independence_cases(ctx, sw)
    elif stream == 'file-line':
        file_line_case(ctx, sw)
        print('file_line:', ctx.extra.get('file_line'))
    elif rp.get('field') == 'asPathCount':
        aspath_counts(ctx, sw)
    else:
        spec = next(s for s in fr.FIELDS if s.template == rp['template'])
        vtext = spec.count(rp['count']) if rp.get('count') is not None and spec.count else rp['vtext']
        case = Case(spec, vtext, rp.get('value'), rp['class'], 'replay')
        sw.run_case(case, ('text', 'api', 'handler', 'file'))
        print('text    :', case.text[:300])
        for name, o in case.out.items():
            if name == 'handler':
                print(f'{name:8s}:', o[0], o[2][:200])
            else:
                oc = o[0] if name == 'file' else o
                print(f'{name:8s}:', oc.short(), oc.detail[:200].replace('\n', ' / '))
        for r in case.shapes:
            print(f'  {r["shape"]:26s}', {k: v for k, v in r.items() if k not in ("shape", "kind", "present", "sizes")})
        sw.judge(case, lean_batch([case], sw))
    for f in ctx.failures:
        print('now     :', f.canon, '|', f.what)
    if not ctx.failures:
        print('now     : the oracle holds on this case')
    return 1 if ctx.failures else 0
