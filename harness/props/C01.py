"""C01 — Sent UPDATEs say exactly what the operator asked for.

Correspondence: routes generated from the static-route TEXT grammar → the real
`Configuration.parse_route_text` → `Neighbor.resolve_self` → `UpdateCollection.messages(negotiated)`
for session shapes negotiated from two real OPENs, byte-compared with the Lean model of that
encoder (`drv_wireexa encode`); the `exabgp encode` command on a subset.
Oracle (independent of ExaBGP's decoder and of the model): the RFC reference decoder `drv_wire decode`
on the implementation's bytes, compared with the request as written in the text."""

from __future__ import annotations

import ipaddress
import json
from typing import Any

from harness import common, encoderig
from harness.common import Ctx, Disagreement, Failure
from harness.encoderig import Session

THEOREM_MODULES = ['ExaModel.Props.C01']
DRIVERS = ['drv_wireexa', 'drv_wire']
TABLES = ['exaenc']
PROP = 'C01'
ASSUMPTIONS = [
    'routes of AFI 1/2 x SAFI unicast, multicast, nlri-mpls, mpls-vpn with the eleven attribute keywords origin, as-path, med, local-preference, atomic-aggregate, aggregator, community, large-community, extended-community, originator-id, cluster-list (generic attribute[], aigp, prefix-sid and the other families: C15)',
    'one route per UpdateCollection (several routes / splitting over messages: C09)',
    'LOCAL_PREF asked for on an eBGP session is not sent: RFC 4271 5.1.5 forbids it, the check follows the RFC (the property text lists "no LOCAL_PREF at all on eBGP")',
    'communities, extended and large communities are compared as sets (ExaBGP sends them sorted, large communities without duplicates); an AS_PATH segment of more than 255 AS numbers is compared after the RFC 4271 split into segments of 255',
    'a NEXT_HOP attribute next to MP_REACH_NLRI is accepted when it carries the requested next hop (RFC 4760 section 3: the receiver ignores it)',
    'an extended-community keyword appears at most once per route in the theorem (the parser merges repeated keywords; the correspondence covers the merge)',
    'AS numbers above 65535 inside as-path cannot be written in text on the unchanged tree (finding F23, struct.error in the parser): that part of the property is exercised with the AS path attached as an object (AS2Path.make_aspath(..., asn4=True)) to a route parsed from text',
    'local address known from configuration (no auto-discovery)',
]

V4_POOL = ['10.0.0.0', '10.1.2.0', '192.168.0.0', '172.16.5.4', '8.8.8.8', '100.64.0.0', '223.255.255.255', '128.0.0.0', '1.0.0.0']
V4_MCAST = ['224.0.0.0', '232.1.2.0', '239.255.255.255']
V6_POOL = ['2001:db8::', '2001:db8:1:2::', '2a00:1450:4009:81f::200e', 'fc00::', '2000::', 'ff02::1', '::1']
NH4 = ['1.2.3.4', '10.0.0.1', '255.255.255.254', '192.0.2.1']
NH6 = ['2001:db8::1', '2001::1', 'fd00::ffff', '2a00:1:2:3:4:5:6:7']
NH6_LL = ['fe80::5', 'febf::1']
ASNS_SMALL = [1, 2, 100, 23456, 64512, 65000, 65534, 65535]
ASNS_BIG = [65536, 70000, 4200000000, 4294967295]
U32 = [0, 1, 100, 65535, 65536, 2147483648, 4294967294, 4294967295]
COMM = ['0:0', '65535:65535', '65000:1', '1:2', '65000:65535', 'no-export', 'no-advertise', 'no-export-subconfed', 'nopeer', 'blackhole', '0x10', '77', '4294967295']
LARGE = ['0:0:0', '4294967295:4294967295:4294967295', '1:2:3', '65000:1:2', '4200000000:0:1', '1:4294967295:0']
EXT = ['target:65000:1', 'target:1.2.3.4:5', 'origin:65535:4294967295', '65000:1', 'origin:10.0.0.1:65535', '0x0002fde800000001', '0x0003000100000002', '0x4300000000000005', 'target:0:0']
LABELS = [0, 3, 15, 16, 100, 524288, 1048575]


def mask_net(addr: str, plen: int) -> str:
    if ':' in addr:
        n = int(ipaddress.IPv6Address(addr))
        n &= ((1 << 128) - 1) ^ ((1 << (128 - plen)) - 1)
        return str(ipaddress.IPv6Address(n))
    n = int(ipaddress.IPv4Address(addr))
    n &= ((1 << 32) - 1) ^ ((1 << (32 - plen)) - 1)
    return str(ipaddress.IPv4Address(n))


def realistic(shape: dict) -> bool:
    """RFC 6793: a speaker whose AS number needs four octets announces the 4-octet AS capability
    (without it nothing on the wire carries its number)."""
    return (shape['las'] <= 65535 or bool(shape['asn4'])) and (shape['pas'] <= 65535 or bool(shape['peer_asn4']))


def gen_shape(rng) -> dict:
    las_big = rng.random() < 0.25
    ibgp = rng.random() < 0.5
    las = rng.choice([70000, 4200000001]) if las_big else rng.choice([65000, 64512, 1])
    pas = las if ibgp else (rng.choice([80000, 65001]) if las_big else rng.choice([65001, 2, 90000]))
    a4 = rng.random() < 0.6
    side = rng.random()
    shape = {
        'las': las,
        'pas': pas,
        'asn4': int(a4 or side < 0.5),
        'peer_asn4': int(a4 or side >= 0.5),
        'ap': int(rng.random() < 0.4),
        'xnh': int(rng.random() < 0.4),
        'em': int(rng.random() < 0.5),
        'll': int(rng.random() < 0.12),
        'v6': int(rng.random() < 0.12),
    }
    if rng.random() < 0.95:  # mostly sessions that can exist; the rest only feeds the model/code comparison
        if shape['las'] > 65535:
            shape['asn4'] = 1
        if shape['pas'] > 65535:
            shape['peer_asn4'] = 1
    return shape


def gen_aspath(rng, big: bool) -> list:
    pool = ASNS_SMALL + (ASNS_BIG if big else [])
    segs = []
    for _ in range(rng.choice([0, 1, 1, 1, 2, 3])):
        n = rng.choice([1, 1, 2, 3, 5]) if rng.random() < 0.97 else rng.choice([254, 255, 256, 300])
        segs.append([rng.choice([2, 2, 2, 1]), [rng.choice(pool) for _ in range(n)]])
    if big and segs and not any(a > 65535 for _, l in segs for a in l) and rng.random() < 0.8:
        segs[rng.randrange(len(segs))][1][0] = rng.choice(ASNS_BIG)
    if big and rng.random() < 0.2:
        # confederation segments lead the path (RFC 5065); on a 2-octet session they are not in AS4_PATH (RFC 6793 3)
        segs = [[rng.choice([3, 3, 4]), [rng.choice(pool) for _ in range(rng.choice([1, 2, 3]))]] for _ in range(rng.choice([1, 1, 2]))] + segs
    return segs


def gen_list(rng, pool: list, big_share: float = 0.03) -> list:
    x = rng.random()
    if x < big_share:
        n = rng.choice([63, 64, 65, 300])
        return [rng.choice(pool) if rng.random() < 0.3 else f'{rng.randrange(65536)}:{rng.randrange(65536)}' + (f':{rng.randrange(9)}' if pool is LARGE else '') for _ in range(n)] if pool is not EXT else [f'target:{rng.randrange(65536)}:{rng.randrange(1 << 32)}' for _ in range(n)]
    if x < 0.06:
        return []
    return [rng.choice(pool) for _ in range(rng.choice([1, 1, 2, 3, 5]))]


def gen_req(rng, shape: dict, mismatch: float = 0.04) -> dict:
    fam = rng.choices(encoderig.FAMILIES, weights=[25, 6, 12, 12, 20, 3, 10, 12])[0]
    afi, safi = fam
    maxbits = 32 if afi == 1 else 128
    plen = rng.choice([0, 1, 7, 8, 9, 16, 24, 31, 32] if afi == 1 else [0, 1, 7, 8, 32, 48, 63, 64, 65, 127, 128])
    if safi == 2:
        if afi == 1:
            plen = rng.choice([4, 8, 24, 32])
            addr = rng.choice(V4_MCAST)
        else:
            plen = rng.choice([100, 104, 128])
            addr = '::ffff:' + rng.choice(V4_MCAST)
    else:
        addr = rng.choice(V4_POOL if afi == 1 else V6_POOL)
    plen = min(plen, maxbits)
    prefix = mask_net(addr, plen)
    if afi == 2 and safi == 2:
        prefix = '::ffff:' + str(ipaddress.IPv4Address(int(ipaddress.IPv6Address(prefix)) & 0xFFFFFFFF))
    if safi != 2 and afi == 1 and 224 <= int(prefix.split('.')[0]) <= 239:
        prefix = '10.0.0.0'
    req: dict[str, Any] = {'prefix': prefix, 'plen': plen, 'pathinfo': None, 'labels': None, 'rd': None, 'attrs': []}
    if rng.random() < 0.45:
        req['pathinfo'] = rng.choice([0, 1, 7, 65536, 4294967295])
        req['pi_dotted'] = rng.random() < 0.4
    if safi in (4, 128):
        depth = rng.choice([1, 1, 1, 2, 3])
        if afi == 2 and plen > 64 and safi == 128:
            depth = min(depth, 2 if plen <= 120 else 2)
        req['labels'] = [rng.choice(LABELS) for _ in range(depth)]
        req['label_bare'] = rng.random() < 0.5
        while safi == 128 and 24 * len(req['labels']) + 64 + plen > 255 or safi == 4 and 24 * len(req['labels']) + plen > 255:
            req['labels'].pop()
    if safi == 128:
        req['rd'] = rng.choice([['asn2', rng.choice([0, 1, 65000, 65535]), rng.choice(U32)], ['ip', rng.choice(NH4), rng.choice([0, 1, 65535])], ['asn4', rng.choice([65536, 70000, 4294967295]), rng.choice([0, 5, 65535])]])
    # next hop
    x = rng.random()
    if x < 0.15:
        req['nh'] = ['self']
    elif afi == 1:
        y = rng.random()
        if shape['xnh'] and y < 0.3 or y < mismatch:
            req['nh'] = ['6', rng.choice(NH6)]
        else:
            req['nh'] = ['4', rng.choice(NH4)]
    else:
        y = rng.random()
        if y < mismatch:
            req['nh'] = ['4', rng.choice(NH4)]
        elif y < 0.12:
            req['nh'] = ['6', rng.choice(NH6_LL)]
        else:
            req['nh'] = ['6', rng.choice(NH6)]
    if rng.random() < 0.2:
        req['field_order'] = rng.sample([0, 1, 2, 3], 4)
    # attributes
    kws = ['origin', 'as-path', 'med', 'local-preference', 'atomic-aggregate', 'aggregator', 'community', 'large-community', 'extended-community', 'originator-id', 'cluster-list']
    density = rng.choice([0.0, 0.15, 0.35, 0.7, 1.0])
    chosen = [k for k in kws if rng.random() < density]
    rng.shuffle(chosen)
    objpath = rng.random() < 0.18
    for kw in chosen:
        if kw == 'origin':
            v: Any = rng.choice(['igp', 'egp', 'incomplete'])
        elif kw == 'as-path':
            if objpath:
                continue
            v = gen_aspath(rng, False)
        elif kw in ('med', 'local-preference'):
            v = rng.choice(U32)
        elif kw == 'atomic-aggregate':
            v = True
        elif kw == 'aggregator':
            v = [rng.choice(ASNS_SMALL + ASNS_BIG), rng.choice(NH4)]
        elif kw == 'community':
            v = gen_list(rng, COMM)
        elif kw == 'large-community':
            v = gen_list(rng, LARGE)
        elif kw == 'extended-community':
            v = gen_list(rng, EXT)
            if not v:
                v = [rng.choice(EXT)]
        elif kw == 'originator-id':
            v = rng.choice(NH4)
        else:
            v = [rng.choice(NH4) for _ in range(rng.choice([1, 2, 4]))]
        req['attrs'].append([kw, v])
    if rng.random() < 0.04 and req['attrs']:  # a keyword written twice: the first one counts (extended-community: merged)
        kw, v = rng.choice(req['attrs'])
        if kw in ('origin', 'med', 'local-preference', 'extended-community'):
            v2 = {'origin': 'egp', 'med': 4242, 'local-preference': 4242, 'extended-community': ['origin:1:1']}[kw]
            req['attrs'].append([kw, v2])
    if objpath:
        req['obj_aspath'] = gen_aspath(rng, True)
    req['bare_single'] = rng.random() < 0.3
    return req


def malformed_text(rng, shape: dict) -> tuple[dict, str]:
    """A route text the grammar must refuse (one field out of range / misspelt): nothing may be sent."""
    req = gen_req(rng, shape, mismatch=0.0)
    text = encoderig.req_text(req)
    kind = rng.choice(['label', 'mask', 'hostbits', 'origin', 'nexthop', 'med', 'aggregator', 'rd', 'community', 'truncated'])
    if kind == 'label':
        text += ' label 1048576'
    elif kind == 'mask':
        text = text.replace(f'/{req["plen"]}', '/129' if ':' in req['prefix'] else '/33', 1)
    elif kind == 'hostbits':
        text = ('route 10.0.0.1/24' if ':' not in req['prefix'] else 'route 2001:db8::1/32') + text[text.index(' next-hop') if ' next-hop' in text.split('/')[1][:12] else len(text.split(' ')[0]) + 1 + len(text.split(' ')[1]) :]
    elif kind == 'origin':
        text += ' origin sideways'
    elif kind == 'nexthop':
        text = text.replace('next-hop ', 'next-hop 999.1.1.1 next-hop ', 1)
    elif kind == 'med':
        text += ' med minus-one'
    elif kind == 'aggregator':
        text += ' aggregator ( 65000 )'
    elif kind == 'rd':
        text += ' rd 4294967296:4294967296'
    elif kind == 'community':
        text += ' community [ 65536:65536:1 ]'
    else:
        text = text.rsplit(' ', 1)[0] + ' as-path ['
    return req, text


def run_malformed(ctx: Ctx) -> None:
    """The malformed stream: whatever the parser does with a bad text, an UPDATE that comes out of it must
    still decode (it normally refuses and nothing is sent)."""
    from exabgp.bgp.message.update.collection import RoutedNLRI, UpdateCollection

    rng = ctx.rng
    n = 150 if ctx.tier == 'quick' else 3000
    lines, metas = [], []
    for _ in range(n):
        shape = gen_shape(rng)
        sess = Session.get(shape)
        _, text = malformed_text(rng, shape)
        ctx.evaluations += 1
        try:
            routes = sess.cfg.parse_route_text(text)
        except Exception as e:
            ctx.count('malformed:parser-raised-' + type(e).__name__)
            continue
        if not routes:
            ctx.count('malformed:refused')
            continue
        ctx.count('malformed:accepted')
        for route in routes:
            try:
                route = sess.n.resolve_self(route)
                for m in UpdateCollection([RoutedNLRI(route.nlri, route.nexthop)], [], route.attributes).messages(sess.neg):
                    lines.append(f'wire decode {encoderig.wire_params(sess.words)} {bytes(m)[19:].hex()}')
                    metas.append((shape, text, sess.words))
            except Exception as e:
                ctx.count('malformed:pack-raised-' + type(e).__name__)
    for (shape, text, words), out in zip(metas, common.run_driver('drv_wire', lines) if lines else []):
        if out.startswith('ok '):
            ctx.count('malformed:sent-decodable')
        elif realistic(shape):
            ctx.count('malformed:sent-undecodable')
            canon = ['malformed-text-sent-undecodable', out]
            if not any(f.canon == canon for f in ctx.failures):
                ctx.failures.append(Failure('update-class', canon, {'shape': shape, 'text': text, 'session': words, 'decoded': out}, f'a text the grammar should refuse produced an UPDATE the RFC decoder rejects: {out}'))


def run_shared(ctx: Ctx) -> None:
    """State shared between neighbours through the route / attribute objects: ONE Route parsed once goes through
    the real `Configuration.announce_route` for 2-3 neighbours with different local addresses, AS numbers and
    session shapes, one after the other, then again for the first one. Every UPDATE is judged against the request
    for THAT session (oracle) and compared with the model for THAT session; serving a neighbour again must give
    the same bytes."""
    rng = ctx.rng
    n = 300 if ctx.tier == 'quick' else 10000
    cases = []
    d = common.VERIF / 'corpus' / PROP
    for f in sorted(d.glob('*.json')) if d.exists() else []:
        cc = json.loads(f.read_text())
        if cc.get('shared'):
            cases.append(([dict(encoderig.default_shape(), **s) for s in cc['shapes']], cc['req'], cc['order']))
    for _ in range(n):
        k = rng.choice([2, 2, 3])
        las = rng.sample([0, 1, 2, 3], k)
        shapes = []
        for la in las:
            s = gen_shape(rng)
            if rng.random() < 0.8:
                s['v6'] = 0
            s['la'] = la
            shapes.append(s)
        req = gen_req(rng, shapes[0], mismatch=0.0)
        if rng.random() < 0.65:
            req['nh'] = ['self']
            if encoderig.req_afi(req) == 2 and rng.random() < 0.85:  # an IPv6 route needs IPv6 sessions to resolve self
                for s in shapes:
                    s['v6'] = 1
        order = list(range(k)) + [0] + ([rng.randrange(k)] if rng.random() < 0.3 else [])
        cases.append((shapes, req, order))
    entries = []  # (case index, position, shape, sess, outcome)
    for ci, (shapes, req, order) in enumerate(cases):
        if ctx.time_left() < 8:
            ctx.notes.append('shared-route stream cut by the budget')
            break
        sesss = [Session.get(s) for s in shapes]
        outs = encoderig.impl_encode_shared(sesss, req, order)
        ctx.evaluations += 1
        ctx.count('shared:neighbours=%d' % len(shapes))
        ctx.count('shared:nexthop-' + req['nh'][0])
        if isinstance(outs, tuple):
            ctx.count('shared:refused')
            continue
        for pos, (i, o) in enumerate(zip(order, outs)):
            entries.append((ci, pos, shapes[i], sesss[i], o))
        ctx.nontrivial(['shared', [s.words for s in sesss], encoderig.req_model(req), order])
    if not entries:
        return
    mo = common.run_driver('drv_wireexa', [f'wireexa encode {e[3].words} {encoderig.req_model(cases[e[0]][1])}' for e in entries])
    dec_idx = [j for j, e in enumerate(entries) if e[4][0] == 'sent']
    do = common.run_driver('drv_wire', [f'wire decode {encoderig.wire_params(entries[j][3].words)} {entries[j][4][1] or "-"}' for j in dec_idx])
    reports: dict = dict(zip(dec_idx, do))
    first_of: dict = {}
    seen: set = set()
    for j, (ci, pos, shape, sess, o) in enumerate(entries):
        shapes, req, order = cases[ci]
        ctx.count('shared:outcome-' + o[0])
        replay = {'shared': True, 'shapes': shapes, 'req': req, 'order': order, 'position': pos, 'text': encoderig.req_text(req), 'session': sess.words, 'sent': o}
        # a neighbour served again gets the same bytes
        key = (ci, order[pos])
        if key in first_of and first_of[key] != o:
            canon = ['shared-route-state', 'order-dependent', 'nh-' + req['nh'][0]]
            if json.dumps(canon) not in seen:
                seen.add(json.dumps(canon))
                ctx.failures.append(Failure('update-class', canon, replay, f'the same neighbour served again with the same Route object got {o} after {first_of[key]}'))
        first_of.setdefault(key, o)
        model = encoderig.model_outcome(mo[j])
        if o[0] not in ('refused', 'multi') and not encoderig.same_outcome(o, model):
            ctx.count('disagreement')
            if len(ctx.disagreements) < 12:
                ctx.disagreements.append(Disagreement('shared-route', replay, model, o))
        if not realistic(shape):
            continue
        v = encoderig.judge(req, shape, sess.words, o, reports.get(j))
        if v is None:
            continue
        ctx.count('oracle-fail:' + v[0])
        # alone (fresh parse, this session only) the same request is fine: the failure comes from what the
        # neighbours served before left in the shared objects
        alone = one(shape, req)
        if judge_row(alone) is None:
            canon = ['shared-route-state', v[0], 'nh-' + req['nh'][0], 'position-%d' % min(pos, 1)]
        else:
            canon = canon_of(v[0], req, shape, sess.words)
        if json.dumps(canon) in seen:
            continue
        seen.add(json.dumps(canon))
        if not any(f.canon == canon for f in ctx.failures):
            replay['decoded'] = reports.get(j)
            ctx.failures.append(Failure('update-class', canon, replay, v[1] + ' (one Route object announced to several neighbours in turn)'))


def huge_req(rng, shape: dict) -> dict:
    """Attributes sized around the 4096 / 65535 limit."""
    req = gen_req(rng, shape, mismatch=0.0)
    target = 4096 if not shape['em'] else rng.choice([4096, 65535])
    if target == 4096:
        n = rng.choice([990, 1000, 1005, 1008, 1009, 1010, 1011, 1012, 1015, 1030])
        req['attrs'] = [['community', [f'{i // 60000}:{i % 60000}' for i in range(n)]]]
    else:
        req['attrs'] = []
    return req


def canon_of(what: str, req: dict, shape: dict, words: str) -> list:
    """Canonical form of an oracle failure (kind `update-class`): the root cause when it is one of the
    recognised classes (decided from the request and the session only), else what failed and where."""
    afi, safi = encoderig.req_afi(req), encoderig.req_safi(req)
    fam = f'{afi}.{safi}'
    nh = req['nh'][0]
    w = words.split(' ')
    local_v6 = len(w[7]) == 32
    nh_v6 = nh == '6' or (nh == 'self' and local_v6 and afi == 2)
    nh_v4 = nh == '4' or (nh == 'self' and not nh_v6)
    ibgp = 'ibgp' if shape['las'] == shape['pas'] else 'ebgp'
    if what in ('attr:2', 'attr:5') and shape['las'] > 65535:
        return ['local-as-4byte', what, ibgp]
    if what == 'raises:error' and shape['las'] > 65535 and ibgp == 'ebgp' and not any(k == 'as-path' for k, _ in req['attrs']) and req.get('obj_aspath') is None:
        return ['default-as-path-raises', 'local-as-4byte', 'ebgp']
    if fam == '1.2' and nh_v4 and what in ('family-changed', 'undecodable:3/10'):
        return ['ipv4-multicast-in-classic-nlri']
    if what == 'undecodable:3/9' and afi == 1 and nh_v6 and fam not in w[5].split('+'):
        return ['ipv6-nexthop-without-ext-nexthop']
    if what == 'undecodable:3/9' and afi == 2 and nh == '4':
        return ['ipv4-nexthop-for-ipv6-route']
    if what == 'undecodable:3/9' and fam == '2.128' and w[9] != '-':
        return ['link-local-nexthop-vpn']
    if what == 'nexthop-self' and afi == 1 and local_v6:
        return ['self-router-id-on-ipv6-session']
    given = any(k == {'attr:2': 'as-path', 'attr:5': 'local-preference'}.get(what) for k, _ in req['attrs'])
    return [what, fam, 'nh-' + nh, ibgp, 'asn4' if w[3] == '1' else 'asn2', 'given' if given else 'default']


def shrink_req(req: dict, still) -> dict:
    cur = json.loads(json.dumps(req))
    for i in range(len(cur['attrs']) - 1, -1, -1):
        cand = json.loads(json.dumps(cur))
        del cand['attrs'][i]
        if still(cand):
            cur = cand
    for key in ('obj_aspath', 'pathinfo', 'field_order'):
        if cur.get(key) is not None:
            cand = json.loads(json.dumps(cur))
            cand[key] = None
            if still(cand):
                cur = cand
    return cur


def evaluate(cases: list[tuple[dict, dict, str]]) -> list[dict]:
    """Run a batch on the implementation, the model and the reference decoder."""
    rows = []
    for shape, req, origin in cases:
        sess = Session.get(shape)
        impl = encoderig.impl_encode(sess, req)
        rows.append({'shape': shape, 'req': req, 'origin': origin, 'sess': sess, 'impl': impl})
    model_lines = [f'wireexa encode {r["sess"].words} {encoderig.req_model(r["req"])}' for r in rows]
    mo = common.run_driver('drv_wireexa', model_lines)
    dec_idx = [i for i, r in enumerate(rows) if r['impl'][0] == 'sent']
    dec_lines = [f'wire decode {encoderig.wire_params(rows[i]["sess"].words)} {rows[i]["impl"][1] or "-"}' for i in dec_idx]
    do = common.run_driver('drv_wire', dec_lines)
    for r, line, ml in zip(rows, mo, model_lines):
        r['model'] = encoderig.model_outcome(line) if line != 'bad-op' else ('bad-op', ml)
        r['report'] = None
    for i, line in zip(dec_idx, do):
        rows[i]['report'] = line
    return rows


def judge_row(r: dict):
    if not realistic(r['shape']):
        return None
    return encoderig.judge(r['req'], r['shape'], r['sess'].words, r['impl'], r['report'])


def ask(exe: str, line: str) -> str:
    return common.run_driver(exe, [line])[0]


def one(shape: dict, req: dict) -> dict:
    """One case through implementation, model and reference decoder (interactive drivers)."""
    sess = Session.get(shape)
    impl = encoderig.impl_encode(sess, req)
    ml = f'wireexa encode {sess.words} {encoderig.req_model(req)}'
    line = ask('drv_wireexa', ml)
    r = {'shape': shape, 'req': req, 'origin': 'single', 'sess': sess, 'impl': impl, 'report': None}
    r['model'] = encoderig.model_outcome(line) if line != 'bad-op' else ('bad-op', ml)
    if impl[0] == 'sent':
        r['report'] = ask('drv_wire', f'wire decode {encoderig.wire_params(sess.words)} {impl[1] or "-"}')
    return r


def load_corpus() -> list[tuple[dict, dict, str]]:
    d = common.VERIF / 'corpus' / PROP
    out = []
    if d.exists():
        for f in sorted(d.glob('*.json')):
            c = json.loads(f.read_text())
            if c.get('shared'):
                continue
            shape = encoderig.default_shape()
            shape.update(c.get('shape', {}))
            out.append((shape, c['req'], 'corpus:' + f.stem))
    return out


def run(ctx: Ctx) -> None:
    rng = ctx.rng
    n = 2500 if ctx.tier == 'quick' else 120000
    ctx.rule = (
        'routes written in the static-route grammar (prefix x mask x path-information x label x rd x next-hop ip|self x the eleven attribute keywords, boundary values enumerated) '
        'on session shapes from two real OPENs (iBGP/eBGP x ASN4 on/off either side x local AS <=/> 65535 x ADD-PATH x ext-nexthop x 4096/65535 x link-local x IPv6 transport); '
        'a case is non-trivial when the implementation put an UPDATE on the wire and the route is not a bare IPv4 unicast prefix (MP family, path id sent, or at least one attribute keyword); '
        'distinct = distinct (session words, request)'
    )
    cases = load_corpus()
    for _ in range(n):
        shape = gen_shape(rng)
        if rng.random() < 0.01:
            cases.append((shape, huge_req(rng, shape), 'huge'))
        else:
            cases.append((shape, gen_req(rng, shape), 'random'))
    seen_fail: set = set()
    seen_dis = 0
    batch = 500
    for start in range(0, len(cases), batch):
        if ctx.time_left() < 25:
            ctx.notes.append(f'budget reached after {ctx.evaluations} cases')
            break
        rows = evaluate(cases[start : start + batch]) if ctx.driver_ok else []
        for r in rows:
            ctx.evaluations += 1
            req, shape, impl = r['req'], r['shape'], r['impl']
            fam = f'{encoderig.req_afi(req)}.{encoderig.req_safi(req)}'
            ctx.count('family:' + fam)
            ctx.count('nexthop:' + req['nh'][0])
            ctx.count('outcome:' + impl[0])
            ctx.count('session:' + ('ibgp' if shape['las'] == shape['pas'] else 'ebgp') + ('/asn4' if r['sess'].words.split(' ')[3] == '1' else '/asn2') + ('/las4' if shape['las'] > 65535 else ''))
            ctx.count(f'session:ap={shape["ap"]} xnh={shape["xnh"]} size={4096 if not shape["em"] else 65535}')
            if shape['v6']:
                ctx.count('session:ipv6-transport')
            if shape['ll']:
                ctx.count('session:link-local')
            if not realistic(shape):
                ctx.count('session:unrealistic (4-octet AS without the capability; compared, not judged)')
            for kw, _ in req['attrs']:
                ctx.count('attr:' + kw)
            if req.get('obj_aspath') is not None:
                ctx.count('attr:as-path(object, 4-byte ASNs)')
            if req.get('pathinfo') is not None:
                ctx.count('nlri:path-information')
            if req.get('labels'):
                ctx.count(f'nlri:labels={len(req["labels"])}')
            if impl[0] == 'sent':
                ln = len(impl[1]) // 2 + 19
                ctx.count('size:' + ('<=255' if ln <= 255 else '<=4096' if ln <= 4096 else '>4096'))
                if fam != '1.1' or req['attrs'] or req.get('obj_aspath') is not None or (req.get('pathinfo') is not None and shape['ap']):
                    ctx.nontrivial([r['sess'].words, encoderig.req_model(req)])
            ctx.sample({'session': r['sess'].words, 'text': encoderig.req_text(req)[:300], 'impl': [impl[0], (impl[1][:160] if len(impl) > 1 and isinstance(impl[1], str) else '')], 'decoded': (r['report'] or '')[:300]}, cap=4)
            # correspondence
            if impl[0] in ('refused', 'multi'):
                ctx.count('not-compared:' + impl[0])
            elif not encoderig.same_outcome(impl, r['model']):
                ctx.count('disagreement')
                seen_dis += 1
                if len(ctx.disagreements) < 12:
                    small = shrink_req(req, lambda c: (lambda x: x['impl'][0] not in ('refused', 'multi') and not encoderig.same_outcome(x['impl'], x['model']))(one(shape, c))) if seen_dis <= 4 else req
                    rr = one(shape, small)
                    ctx.disagreements.append(Disagreement('encode', {'shape': shape, 'req': small, 'text': encoderig.req_text(small), 'session': rr['sess'].words, 'model_req': encoderig.req_model(small)}, rr['model'], rr['impl']))
            # oracle
            v = judge_row(r)
            if v is not None:
                ctx.count('oracle-fail:' + v[0])
                canon0 = canon_of(v[0], req, shape, r['sess'].words)
                key = json.dumps(canon0)
                if key in seen_fail:
                    continue
                seen_fail.add(key)
                what0 = v[0]
                small = shrink_req(req, lambda c: (lambda j: j is not None and j[0] == what0)(judge_row(one(shape, c))))
                rr = one(shape, small)
                vv = judge_row(rr) or v
                ctx.failures.append(
                    Failure(
                        'update-class',
                        canon_of(vv[0], small, shape, rr['sess'].words),
                        {'shape': shape, 'req': small, 'text': encoderig.req_text(small), 'session': rr['sess'].words, 'sent': rr['impl'], 'decoded': rr['report']},
                        vv[1],
                    )
                )
    if ctx.driver_ok:
        run_shared(ctx)
        run_malformed(ctx)
        run_cli(ctx)


CLI_FAMILY = {(1, 1): 'ipv4 unicast', (1, 2): 'ipv4 multicast', (1, 4): 'ipv4 nlri-mpls', (1, 128): 'ipv4 mpls-vpn', (2, 1): 'ipv6 unicast', (2, 4): 'ipv6 nlri-mpls', (2, 128): 'ipv6 mpls-vpn', (2, 2): 'ipv6 multicast'}


def run_cli(ctx: Ctx) -> None:
    """The `exabgp encode` command (application/encode.py) on a subset, against the model."""
    rng = ctx.rng
    n = 40 if ctx.tier == 'quick' else 400
    rows = []
    for _ in range(n):
        if ctx.time_left() < 2:
            break
        las = rng.choice([65000, 65533, 70000])
        pas = rng.choice([las, 65001])
        ap = rng.random() < 0.4
        shape = encoderig.default_shape()
        shape.update({'las': las, 'pas': pas, 'ap': int(ap)})
        req = gen_req(rng, shape, mismatch=0.0)
        if req['nh'][0] == 'self' or req.get('obj_aspath') is not None:
            req['nh'] = ['4', '1.2.3.4'] if encoderig.req_afi(req) == 1 else ['6', '2001:db8::1']
            req['obj_aspath'] = None
        fam = CLI_FAMILY[(encoderig.req_afi(req), encoderig.req_safi(req))]
        text = encoderig.req_text(req)
        got = encoderig.cli_encode(text, fam, las, pas, ap)
        words = encoderig.cli_session_words(fam, las, pas, ap)
        rows.append((req, text, fam, words, got))
    if not rows:
        return
    mo = common.run_driver('drv_wireexa', [f'wireexa encode {w} {encoderig.req_model(req)}' for req, _, _, w, _ in rows])
    for (req, text, fam, words, got), line in zip(rows, mo):
        ctx.evaluations += 1
        ctx.count('cli:' + got[0])
        model = encoderig.model_outcome(line)
        if got[0] == 'refused':
            continue
        if not encoderig.same_outcome(got, model):
            ctx.count('disagreement')
            if len(ctx.disagreements) < 12:
                ctx.disagreements.append(Disagreement('cli-encode', {'text': text, 'family': fam, 'session': words}, model, got))


def replay(path: str) -> int:
    data = json.loads(open(path).read())
    rp = data.get('replay', data)
    if rp.get('shared'):
        sesss = [Session.get(dict(encoderig.default_shape(), **s)) for s in rp['shapes']]
        outs = encoderig.impl_encode_shared(sesss, rp['req'], rp['order'])
        ok = True
        print('text    :', encoderig.req_text(rp['req']))
        for pos, (i, o) in enumerate(zip(rp['order'], outs)):
            shape = dict(encoderig.default_shape(), **rp['shapes'][i])
            rep = ask('drv_wire', f'wire decode {encoderig.wire_params(sesss[i].words)} {o[1] or "-"}') if o[0] == 'sent' else None
            v = encoderig.judge(rp['req'], shape, sesss[i].words, o, rep)
            first = [outs[q] for q in range(pos) if rp['order'][q] == i]
            same = not first or first[0] == o
            print(f'neighbour {i} ({sesss[i].words.split(" ")[7]}): {o[0]} decoded: {rep} holds: {v is None and same}', '' if v is None else v)
            ok = ok and v is None and same
        return 0 if ok else 1
    shape = encoderig.default_shape()
    shape.update(rp.get('shape', {}))
    r = one(shape, rp['req'])
    v = judge_row(r)
    print('session :', r['sess'].words)
    print('text    :', encoderig.req_text(rp['req']))
    print('sent    :', r['impl'])
    print('model   :', r['model'])
    print('decoded :', r['report'])
    print('expected:', encoderig.expected(rp['req'], shape, r['sess'].words))
    print('holds   :', v is None, '' if v is None else v)
    return 0 if v is None else 1
