"""C19 — decoding does not depend on what was decoded before.

Correspondence of M-DecodeCache with the real `AttributeCollection.unpack` / `Attribute.klass` /
`Capability.klass` (observed from outside, see harness/cacherig.py), and the property's own
oracle on the implementation: every message of every generated sequence, decoded in sequence in
a process that started fresh, must render (content, JSON and text API lines, re-packed
attributes) exactly as the same message decoded ALONE in a fresh process on the same session
shape; and every object returned must render the same at the end of the sequence as when it
was returned."""

from __future__ import annotations

import json
import os
import time
from typing import Any

from harness import cacherig as R
from harness import common
from harness.common import Ctx, Disagreement, Failure

THEOREM_MODULES = ['ExaModel.Props.C19']
DRIVERS = ['drv_cache']
TABLES = ['decodecache']
ASSUMPTIONS = [
    'a parse result is opaque to the model (kind + identity); the parse function is a parameter of every theorem',
    'c19_repaired / c19_partial assume Parser.DependsOnlyOn: the stored results of the attribute parse read the negotiated parameters only through (asn4, aigp); tied to /repo by the generated table `reads` (AST of bgp/message/update/attribute/) and by the fresh-process oracle',
    'Python object mutation is outside the model except for the class-level `ID` register; it is checked on the implementation by re-rendering every returned object at the end of each sequence',
    'the application default `Attribute.caching = True` (env.cache.attributes) is in force',
]
TRUSTED_EXTRA = [
    'harness/cacherig.py observes the real code through wrappers around AttributeCollection.unpack, Attribute.klass, Capability.klass that call the originals; "fresh process" = a process of its own per job, forked from a zygote interpreter (python -S) that imported what a worker imports and never decodes anything itself (VERIF_C19_EXEC=1: a brand-new interpreter per job instead); step 0 of the job is decoded before anything else',
]
PROP = 'C19'
REAL_CODES_MAX = 0xFF00


# ---------------------------------------------------------------------------------------------
# material


class Msg:
    __slots__ = ('t', 'body', 'tag', 'origin', 'names', 'nlri')

    def __init__(self, t: int, body: bytes, tag: str, origin: str, names: list[str] | None = None, nlri: str | None = None) -> None:
        self.t, self.body, self.tag, self.origin, self.names, self.nlri = t, body, tag, origin, names, nlri


def hand_updates(rng, nrandom: int = 60) -> list[Msg]:
    out: list[Msg] = []
    base = ['origin-igp', 'aspath-f8', 'nexthop']
    aspaths = [k for k in R.ATTRS if k.startswith('aspath-')]
    optional = ['med-1', 'med-2', 'lp-100', 'lp-200', 'atomic', 'aggregator-2', 'aggregator-4', 'aggregator-4big', 'community', 'community-2',
                'originator', 'cluster', 'extcomm', 'extcomm-2', 'large', 'aigp', 'aigp-b', 'unknown-trans', 'unknown-nontrans', 'as4path',
                'as4path-small', 'as4aggregator']  # fmt: skip
    broken = ['origin-bad', 'med-bad', 'community-bad', 'zero-med', 'mp-reach-badflag']
    mp = ['mp-reach-v6', 'mp-reach-v6-pathid', 'mp-unreach-v6']

    def add(names: list[str], nlri: str, origin: str = 'hand') -> None:
        order = sorted(names, key=lambda x: (R.ATTRS[x][1], x))
        out.append(Msg(2, R.update_body(b'', R.block(order), R.NLRIS[nlri]), '+'.join(order) + '|' + nlri, origin, order, nlri))

    # the enumerated core: every AS_PATH shape alone and with each asn4/aigp-dependent companion
    for ap in aspaths:
        add(['origin-igp', ap, 'nexthop'], '10/24')
    for extra in ['aggregator-2', 'aggregator-4', 'aggregator-4big', 'aigp', 'aigp-b', 'as4path', 'as4path-small', 'as4aggregator']:
        add(['origin-igp', 'aspath-empty', 'nexthop', extra], '10/24')
        add(['origin-igp', 'aspath-f8', 'nexthop', extra], '10/24')
    add(['origin-igp', 'aspath-trans', 'nexthop', 'as4path'], '10/24')
    add(['origin-igp', 'aspath-trans', 'nexthop', 'as4path-small', 'aggregator-2', 'as4aggregator'], '10/24')
    # single-attribute blocks (what the shrinker reduces to)
    for one in ['aspath-f8', 'aggregator-4', 'aggregator-2', 'aigp', 'unknown-nontrans', 'origin-igp']:
        add([one], 'none')
        add([one], '10/24')
    # MP blocks (never stored, reset the cache; their parse depends on families and ADD-PATH)
    for nl in ['none', '10/24']:
        for mpa in mp:
            add(base + [mpa], nl, 'hand-mp')
        add(base + ['med-1', 'mp-reach-v6'], nl, 'hand-mp')
    add(['mp-unreach-v6'], 'none', 'hand-mp')
    add(['mp-unreach-v6-empty'], 'none', 'hand-mp')  # not the 11-byte fast path: parsed, then recognised as End-of-RIB by a second unpack
    add(['mp-reach-v6'], 'none', 'hand-mp')
    add(base + ['mp-reach-v6', 'mp-unreach-v6'], 'none', 'hand-mp')
    # near-identical blocks and NLRI variants
    for nl in ['10/24', '10/24+11/24', '10/24-pathid', '10/24-pathid2', '32bit', 'none']:
        add(base, nl)
        add(base + ['med-1'], nl)
        add(base + ['med-2'], nl)
    # random mostly-valid blocks
    for _ in range(nrandom):
        names = ['origin-igp' if rng.random() < 0.8 else 'origin-egp', rng.choice(aspaths), rng.choice(['nexthop', 'nexthop-b'])]
        for o in rng.sample(optional, rng.randrange(0, 5)):
            if not any(R.ATTRS[o][1] == R.ATTRS[x][1] for x in names):
                names.append(o)
        x = rng.random()
        origin = 'hand'
        if x < 0.15:
            names.append(rng.choice(broken))
            origin = 'hand-broken'
        elif x < 0.35:
            names.append(rng.choice(mp))
            origin = 'hand-mp'
        # two attributes with the same code make a duplicate: wanted now and then
        add(names, rng.choice(list(R.NLRIS)), origin)
    # one attribute block (with NEXT_HOP, no MP: the collection object is shared by the cache), many message shapes:
    # what is rendered around it, and how, differs (withdrawn routes make the encoders ask for NEXT_HOP among the attributes)
    ctx_blocks = [base, base + ['med-1'], base + ['med-1', 'community', 'lp-100'], ['origin-igp', 'aspath-empty', 'nexthop-b', 'atomic', 'aggregator-4'],
                  ['origin-egp', 'aspath-4only-b', 'nexthop', 'extcomm', 'large', 'unknown-trans']]  # fmt: skip
    shapes = [('', '10/24'), ('', '10/24+11/24'), ('10/24', '32bit'), ('10/24+11/24', ''), ('32bit', '10/24'), ('', ''), ('', '32bit'), ('10/24', '')]
    for bi, names in enumerate(ctx_blocks):
        order = sorted(names, key=lambda x: (R.ATTRS[x][1], x))
        for wd, nl in shapes:
            body = R.update_body(R.NLRIS[wd] if wd else b'', R.block(order), R.NLRIS[nl] if nl else b'')
            out.append(Msg(2, body, f'ctx{bi}:w={wd or "-"}:a={nl or "-"}', 'hand-ctx', order, nl))
    # withdraw-only, attribute-less
    out.append(Msg(2, R.update_body(R.NLRIS['10/24'], b'', b''), 'withdraw|10/24', 'hand'))
    out.append(Msg(2, R.update_body(R.NLRIS['10/24'], R.block(base), R.NLRIS['32bit']), 'withdraw+announce', 'hand'))
    return out


def other_messages() -> list[Msg]:
    out: list[Msg] = []
    for b in R.EORS:
        out.append(Msg(2, b, 'eor:' + b.hex(), 'eor'))
    capsets = [['rr'], ['rr-cisco'], ['rr', 'rr-cisco'], ['rr-cisco', 'rr'], ['ms'], ['ms-cisco'], ['ms', 'ms-cisco'], ['mp-v4', 'asn4', 'rr'],
               ['mp-v4', 'mp-v6', 'asn4', 'rr-cisco', 'err', 'extmsg'], ['mp-v4', 'rr', 'hostname', 'software'], ['mp-v4', 'addpath', 'graceful', 'unknown'], []]  # fmt: skip
    for cs in capsets:
        out.append(Msg(1, R.open_body([R.CAPS[c] for c in cs]), 'open:' + ','.join(cs), 'open'))
    for b in R.NOTIFICATIONS:
        out.append(Msg(3, b, 'notification:' + b.hex(), 'notification'))
    for b in R.REFRESHES:
        out.append(Msg(5, b, 'refresh:' + b.hex(), 'refresh'))
    out.append(Msg(4, b'', 'keepalive', 'keepalive'))
    return out


def malformed(rng, pool: list[Msg], n: int) -> list[Msg]:
    out = []
    for _ in range(n):
        m = rng.choice(pool)
        b = bytearray(m.body)
        if not b:
            continue
        x = rng.random()
        if x < 0.4:
            b[rng.randrange(len(b))] ^= 1 << rng.randrange(8)
            kind = 'bitflip'
        elif x < 0.7:
            del b[rng.randrange(len(b)) :]
            kind = 'truncate'
        elif x < 0.85:
            b += bytes([rng.randrange(256) for _ in range(rng.randrange(1, 4))])
            kind = 'overrun'
        else:
            b = bytearray(rng.randrange(256) for _ in range(rng.randrange(4, 40)))
            kind = 'random'
        out.append(Msg(m.t, bytes(b), f'{kind}:{m.tag[:40]}', 'malformed'))
    return out


def build_pool(rng, tier: str) -> list[Msg]:
    pool = hand_updates(rng, 60 if tier == 'quick' else 700) + other_messages()
    for spec in R.SPECS[:5]:
        for t, b, tag in R.encoded_messages(spec):
            pool.append(Msg(t, b, tag, 'encoder'))
    qa = [Msg(t, b, tag, 'qa') for t, b, tag in R.qa_samples()]
    pool += qa if tier == 'thorough' else rng.sample(qa, min(len(qa), 40))
    # the real OPENs of the session shapes themselves
    from harness import sessions

    for spec in R.SPECS:
        n, neg = R.build_session(spec)
        raw = sessions.open_of(n).pack_message(neg)
        pool.append(Msg(1, bytes(raw[19:]), 'open:own:' + spec['name'], 'open'))
    seen = set()
    uniq = []
    for m in pool:
        k = (m.t, m.body)
        if k not in seen:
            seen.add(k)
            uniq.append(m)
    uniq += malformed(rng, uniq, len(uniq) // (7 if tier == 'quick' else 4))
    return uniq


# ---------------------------------------------------------------------------------------------
# jobs


def step_key(spec: dict, st: dict) -> str:
    return R.spec_key(spec) + '|' + str(st['t']) + '|' + st['body'] + '|' + st.get('entry', 'message')


def step_of(d: tuple[int, int, str], pool: list[Msg]) -> dict:
    s, m, entry = d
    st = {'s': s, 't': pool[m].t, 'body': pool[m].body.hex()}
    if entry != 'message':
        st['entry'] = entry
    return st


def diff_fields(a: dict | None, b: dict | None) -> list[str]:
    if a is None or b is None:
        return ['missing']
    return sorted(k for k in set(a) | set(b) if a.get(k) != b.get(k))


def differing_attr_codes(a: dict, b: dict) -> list[int]:
    ra = {r[0]: r for r in a.get('attributes', [])}
    rb = {r[0]: r for r in b.get('attributes', [])}
    return sorted(c for c in set(ra) | set(rb) if ra.get(c) != rb.get(c))


class Runner:
    """Submits sequence jobs; step 0 of every finished job is the fresh-process twin of its message."""

    def __init__(self, pool: 'R.Pool') -> None:
        self.pool = pool
        self.next_id = 0
        self.jobs: dict[int, dict] = {}  # id -> {'specs','steps'}
        self.starter: dict[str, int] = {}  # step key -> id of a job that starts with it
        self.rig_errors: list[str] = []
        self._errored: set = set()

    def submit(self, specs: list[dict], steps: list[dict]) -> int:
        self.next_id += 1
        jid = self.next_id
        self.jobs[jid] = {'specs': specs, 'steps': steps}
        if not steps[0].get('ord'):  # a fresh twin is rendered in the canonical order
            self.starter.setdefault(step_key(specs[steps[0]['s']], steps[0]), jid)
        self.pool.submit({'id': jid, 'specs': specs, 'steps': steps, 'rerender': True})
        return jid

    def ensure_twins(self, specs: list[dict], steps: list[dict]) -> list[int]:
        ids = []
        for st in steps:
            k = step_key(specs[st['s']], st)
            jid = self.starter.get(k)
            if jid is None or (self.pool.results.get(jid) or {}).get('skipped'):
                self.starter.pop(k, None)
                jid = self.submit([specs[st['s']]], [{k: v for k, v in dict(st, s=0).items() if k != 'ord'}])
            ids.append(jid)
        return ids

    def ok(self, jid: int) -> dict | None:
        r = self.pool.results.get(jid)
        if r is None or r.get('skipped'):
            return None
        if 'rig_error' in r:
            if jid not in self._errored:
                self._errored.add(jid)
                self.rig_errors.append(str(r['rig_error']))
            return None
        return r

    def twin(self, spec: dict, st: dict) -> dict | None:
        """The step record of this message decoded alone in a fresh process, if that job is done."""
        jid = self.starter.get(step_key(spec, st))
        r = self.ok(jid) if jid is not None else None
        return r['steps'][0] if r else None

    def run_case(self, specs: list[dict], steps: list[dict], timeout: float = 120.0) -> tuple[dict, list[dict]] | None:
        """Blocking: the sequence and the twin of each of its steps (shrinker / replay)."""
        sj = self.submit(specs, steps)
        ids = self.ensure_twins(specs, steps)
        if not self.pool.wait([sj] + ids, timeout):
            return None
        seq = self.ok(sj)
        twins = [self.twin(specs[st['s']], st) for st in steps]
        if seq is None or any(t is None for t in twins):
            return None
        return seq, twins  # type: ignore[return-value]


def failures_of(seq: dict, twins: list[dict | None]) -> list[dict]:
    """The oracle: where does the sequence differ from the fresh decodes / from its own first rendering."""
    out = []
    for i, st in enumerate(seq['steps']):
        tw = twins[i]
        if tw is not None and st['render'] != tw['render']:
            out.append({'kind': 'history', 'step': i, 'fields': diff_fields(st['render'], tw['render']), 'attrs': differing_attr_codes(st['render'], tw['render']),
                        'hit': any(c['hit'] for c in st['calls'])})  # fmt: skip
        again = seq['again'][i] if i < len(seq['again']) else None
        if again is not None and again != st['render']:
            out.append({'kind': 'altered', 'step': i, 'fields': diff_fields(st['render'], again)})
    return out


def field_families(fields: list[str]) -> list[str]:
    fam = {'json6': 'json', 'json6c': 'json', 'json6g': 'json', 'json4': 'json', 'text6': 'text', 'text4': 'text', 'coll': 'collection-methods',
           'attributes': 'content', 'announces': 'content', 'withdraws': 'content', 'nlris': 'content', 'caps': 'content', 'str': 'content'}  # fmt: skip
    return sorted({fam.get(f, f) for f in fields})


def has(fails: list[dict], kind: str, step: int) -> bool:
    return any(x['kind'] == kind and x['step'] == step for x in fails)


# ---------------------------------------------------------------------------------------------
# canonical forms


def _tlvs_of_update(body: bytes) -> tuple[bytes, list[tuple[bytes, int]], bytes] | None:
    """(withdrawn, [(TLV bytes, code)], nlri) of an UPDATE body; a truncated last attribute is kept as it is."""
    try:
        wl = int.from_bytes(body[0:2], 'big')
        wd = body[2 : 2 + wl]
        al = int.from_bytes(body[2 + wl : 4 + wl], 'big')
        attrs = body[4 + wl : 4 + wl + al]
        nlri = body[4 + wl + al :]
        if len(body) < 4 + wl or len(attrs) != al:
            return None
        out = []
        while attrs:
            if len(attrs) < 3:
                out.append((attrs, attrs[1] if len(attrs) > 1 else 0))
                break
            flag, code = attrs[0], attrs[1]
            if flag & 0x10:
                ln = int.from_bytes(attrs[2:4], 'big')
                hd = 4
            else:
                ln = attrs[2]
                hd = 3
            out.append((attrs[: hd + ln], code))
            attrs = attrs[hd + ln :]
        return wd, out, nlri
    except IndexError:
        return None


def _attr_rows(render: dict, codes: list[int]) -> list:
    if render.get('class') == 'error':
        return [render.get('error')]
    return [[r[0], r[2], r[3]] for r in render.get('attributes', []) if r[0] in codes or r[0] >= REAL_CODES_MAX]


def storing_step(seq: dict, i: int) -> int | None:
    """The step whose parse the cache hit of step i served: the last earlier parse of the same block that was stored."""
    calls = seq['steps'][i]['calls']
    if not calls or not calls[0]['hit']:
        return None
    data = calls[0]['data']
    return max((k for k in range(i) if any(c['data'] == data and not c['hit'] and c['kind'] in ('plain', 'empty') for c in seq['steps'][k]['calls'])), default=None)


def stale_what(X: dict, Y: dict, data: str, params: list, attrs: list, got: dict, fresh: dict) -> str:
    return (
        f'attribute block {data[:60]} parsed on session shape {X["name"]} is served from the process-wide cache to shape {Y["name"]} '
        f'(differs in {params}); attribute(s) {attrs}: in sequence {_attr_rows(got, attrs)} / alone in a fresh process {_attr_rows(fresh, attrs)}'
    )


def _verification(p: str, vx: int, vy: int, tlv: bytes) -> tuple[list[dict], list[dict]]:
    base = R.SPECS[0]
    Xs = dict(base, name=f'{p}={vx}', **{p: bool(vx)})
    Ys = dict(base, name=f'{p}={vy}', **{p: bool(vy)})
    body = R.update_body(b'', tlv, R.NLRIS['10/24']).hex()
    return [Xs, Ys], [{'s': 0, 't': 2, 'body': body}, {'s': 1, 't': 2, 'body': body}]


def verified_stale(run: Runner, memo: dict, p: str, vx: int, vy: int, tlv: bytes, may_run: bool) -> tuple[dict, str] | None | bool:
    """Is this attribute alone, parsed on the base shape with p=vx, served stale to the base shape with p=vy?
    Asked of the real code once per (p, direction, TLV); (replay, what) | False | None (= not known, no budget)."""
    key = (p, vx, vy, tlv.hex())
    if key in memo:
        return memo[key]
    if not may_run:
        return None
    specs, steps = _verification(p, vx, vy, tlv)
    r = run.run_case(specs, steps)
    if r is None:
        return None
    seq, twins = r
    if has(failures_of(seq, twins), 'history', 1) and seq['steps'][1]['calls'] and seq['steps'][1]['calls'][0]['hit']:
        code = tlv[1] if len(tlv) > 1 else 0
        memo[key] = ({'specs': specs, 'steps': steps}, stale_what(specs[0], specs[1], tlv.hex(), [p], [code], seq['steps'][1]['render'], twins[1]['render']))
    else:
        memo[key] = False
    return memo[key]


def prefetch_verifications(run: Runner, cases: list[dict], pending: list[tuple[int, dict]], codes: set, limit: int) -> int:
    """Submit at once (they run in parallel) the verifications the canonical forms below will ask for: the attributes
    of the failing blocks whose code already has a reported class."""
    wanted: dict = {}
    for ci, f in pending:
        if f['kind'] != 'history' or len(wanted) >= limit:
            continue
        c = cases[ci]
        seq = run.ok(c['id'])
        i = f['step']
        j = storing_step(seq, i) if seq else None
        if j is None or c['steps'][i]['t'] != 2:
            continue
        pX, pY = seq['steps'][j]['params'], seq['steps'][i]['params']
        t2 = _tlvs_of_update(bytes.fromhex(c['steps'][i]['body']))
        if t2 is None:
            continue
        for prm in (k for k in pX if pX[k] != pY[k]):
            for tlv, code in t2[1]:
                if code in codes:
                    wanted.setdefault((prm, pX[prm], pY[prm], bytes(tlv).hex()), None)
    for prm, vx, vy, tlvhex in wanted:
        specs, steps = _verification(prm, vx, vy, bytes.fromhex(tlvhex))
        run.submit(specs, steps)
        run.ensure_twins(specs, steps)
    return len(wanted)


def canon_history(run: Runner, specs: list[dict], steps: list[dict], seq: dict, twins: list[dict], f: dict, reported: set, may_shrink: bool, memo: dict) -> tuple[Any, dict, str] | None:
    """(canon, replay, what) for an in-sequence result that differs from the fresh one."""
    i = f['step']
    st = steps[i]
    fresh = twins[i]['render']
    got = seq['steps'][i]['render']
    real = [c for c in f['attrs'] if c < REAL_CODES_MAX]
    fallback = ({'what': 'history-dependent-decode', 'type': st['t'], 'fields': field_families(f['fields']), 'attrs': real}, {'specs': specs, 'steps': steps[: i + 1]},
                f'step {i} of the sequence renders differently from the same message decoded alone in a fresh process: fields {f["fields"]}')  # fmt: skip
    j = storing_step(seq, i)
    fam = field_families(f['fields'])

    def seen(c: dict) -> bool:
        return json.dumps(c, sort_keys=True) in reported

    if j is None:
        if st.get('ord') and seen({'what': 'rendering-depends-on-the-order-of-the-encoders', 'type': st['t'], 'fields': fam}):
            return None
        if not may_shrink:
            return fallback
        r = run.run_case(specs, [st])  # alone, but rendered in this step's order: is it the order within the message?
        if r and has(failures_of(*r), 'history', 0):
            f0 = [x for x in failures_of(*r) if x['kind'] == 'history' and x['step'] == 0][0]
            return ({'what': 'rendering-depends-on-the-order-of-the-encoders', 'type': st['t'], 'fields': field_families(f0['fields'])}, {'specs': specs, 'steps': [st]},
                    f'the same message alone in a fresh process renders differently when its renderings are asked for in another order: fields {f0["fields"]}')  # fmt: skip
        for k in range(i - 1, max(-1, i - 10), -1):  # is one earlier step enough?
            r = run.run_case(specs, [steps[k], st])
            if r and has(failures_of(*r), 'history', 1):
                return fallback[0], {'specs': specs, 'steps': [steps[k], st]}, fallback[2]
        return fallback
    X, Y = specs[steps[j]['s']], specs[st['s']]
    pX, pY = seq['steps'][j]['params'], seq['steps'][i]['params']
    pdiff = sorted(k for k in pX if pX[k] != pY[k])
    data = seq['steps'][i]['calls'][0]['data']
    sdiff = [k for k in R.SPEC_FIELDS if X.get(k) != Y.get(k)]
    t2 = _tlvs_of_update(bytes.fromhex(st['body'])) if st['t'] == 2 else None
    # already minimal (corpus form): two steps, same message, shapes differing in one field, one TLV
    if len(steps) == 2 and steps[0]['body'] == steps[1]['body'] and len(sdiff) == 1 and t2 is not None and len(t2[1]) == 1:
        canon = {'what': 'stale-attribute-parse', 'params': sdiff, 'attrs': [t2[1][0][1]]}
        return canon, {'specs': specs, 'steps': steps}, stale_what(X, Y, data, sdiff, canon['attrs'], got, fresh)
    # the stale collection was parsed under other parameters: which attribute of the block, alone, is served stale
    # between two shapes that differ in that parameter only?  (asked of the real code, once per attribute value)
    if pdiff and t2 is not None:
        known_codes = {a for c in reported for a in json.loads(c).get('attrs', [])}
        tlvs = sorted(t2[1], key=lambda x: (x[1] not in known_codes, x[1] not in real, x[1]))
        unknown = False
        for prm in pdiff:
            for tlv, code in tlvs:
                v = verified_stale(run, memo, prm, pX[prm], pY[prm], bytes(tlv), may_shrink)
                if v is None:
                    unknown = True
                elif v:
                    return {'what': 'stale-attribute-parse', 'params': [prm], 'attrs': [code]}, v[0], v[1]
        if unknown:
            return {'what': 'stale-attribute-parse', 'params': pdiff, 'attrs': real}, {'specs': [X, Y], 'steps': [dict(steps[j], s=0), dict(st, s=1)]}, stale_what(X, Y, data, pdiff, real, got, fresh) + ' (not reduced to one attribute: budget)'
    if not pdiff and seen({'what': 'shared-collection-rendering-depends-on-earlier-rendering', 'fields': fam}):
        return None
    if not pdiff:
        # served under the very same parameters: the parse is right, the shared collection renders differently
        # (a rendering memoised on it by whoever rendered it first)
        canon = {'what': 'shared-collection-rendering-depends-on-earlier-rendering', 'fields': field_families(f['fields'])}
        pair_specs, pair = [X, Y], [dict(steps[j], s=0), dict(st, s=1)]
        replay = {'specs': specs, 'steps': steps[: i + 1]}
        if may_shrink:
            r = run.run_case(pair_specs, pair)
            if r and has(failures_of(*r), 'history', 1):
                replay = {'specs': pair_specs, 'steps': pair}
                f2 = [x for x in failures_of(*r) if x['kind'] == 'history' and x['step'] == 1][0]
                canon['fields'] = field_families(f2['fields'])
                got, fresh = r[0]['steps'][1]['render'], r[1][1]['render']
        k0 = (f['fields'] or ['?'])[0]
        return canon, replay, (f'UPDATE with attribute block {data[:60]} is handed the collection object of an earlier UPDATE with the same bytes on shape {X["name"]}; '
                               f'its renderings {f["fields"]} differ from the fresh process, e.g. {k0}: in sequence {json.dumps(got.get(k0))[:300]} / alone in a fresh process {json.dumps(fresh.get(k0))[:300]}')  # fmt: skip
    # no single attribute explains it: the pair of messages as it is
    pair_specs, pair = [X, Y], [dict(steps[j], s=0), dict(st, s=1)]
    if may_shrink:
        r = run.run_case(pair_specs, pair)
        if not r or not has(failures_of(*r), 'history', 1):
            return fallback
    return {'what': 'stale-attribute-parse', 'params': pdiff or sdiff, 'attrs': real}, {'specs': pair_specs, 'steps': pair}, stale_what(X, Y, data, pdiff or sdiff, real, got, fresh)


def canon_altered(run: Runner, specs: list[dict], steps: list[dict], seq: dict, f: dict, reported: set, may_shrink: bool) -> list[tuple[Any, dict, str]]:
    j = f['step']
    first = seq['steps'][j]['render']
    again = seq['again'][j]
    out = []
    if first.get('class') == 'Open':
        changed = sorted({c[1] for c, d in zip(first.get('caps', []), again.get('caps', [])) if c != d})
        canons = [{'what': 'object-altered-by-later-decode', 'object': 'open-capability', 'classes': [k]} for k in changed]
        canons = [c for c in canons if json.dumps(c, sort_keys=True) not in reported]
        if changed and not canons:
            return []
        replay = {'specs': specs, 'steps': steps}
        if len(steps) > 2 and may_shrink:
            for i in range(j + 1, min(len(steps), j + 30)):
                if steps[i]['t'] != 1:
                    continue
                r = run.run_case(specs, [steps[j], steps[i]])
                if r and has(failures_of(*r), 'altered', 0):
                    replay = {'specs': specs, 'steps': [steps[j], steps[i]]}
                    break
        for c in canons:
            out.append((c, replay, f'capability objects of an OPEN decoded earlier change when a later OPEN is decoded (class-level ID rewritten by Capability.klass): '
                        f'when returned {first.get("caps")} ; at the end of the sequence {again.get("caps")}'))  # fmt: skip
        if out:
            return out
    canon = {'what': 'object-altered-by-later-decode', 'object': first.get('class'), 'fields': field_families(f['fields'])}
    if json.dumps(canon, sort_keys=True) in reported:
        return []
    return [(canon, {'specs': specs, 'steps': steps}, f'the object returned for step {j} ({first.get("class")}) renders differently at the end of the sequence: fields {f["fields"]}')]


# ---------------------------------------------------------------------------------------------
# the model side


def registries() -> dict:
    """class names exactly as the generated table numbers them."""
    import exabgp.reactor.protocol  # noqa: F401
    from exabgp.bgp.message.open.capability.capability import Capability
    from exabgp.bgp.message.update.attribute.attribute import Attribute

    def names(reg: dict) -> list[str]:
        return sorted({f'{k.__module__}.{k.__qualname__}' for k in reg.values()})

    return {'attr': names(Attribute.registered_attributes), 'cap': names(Capability.registered_capability)}


def model_lines(seq: dict, twins: list[dict], keyed: bool, with_ids: bool, regs: dict) -> tuple[list[str], list[tuple[str, Any, Any]]]:
    """Driver script for one sequence and, per line, (what, expected-from-implementation, context)."""
    lines = ['cache reset']
    expect: list[tuple[str, Any, Any]] = [('ok', 'ok', None)]
    touched: dict[tuple[str, int], str] = {}
    for i, st in enumerate(seq['steps']):
        p = st['params']
        fresh_calls = {c['data']: c for c in twins[i]['calls']}
        for c in st['calls']:
            fc = fresh_calls.get(c['data'])
            if fc is None:  # cannot happen: the first call is made on the message bytes alone
                lines.append('cache unpack - - error 0')
                expect.append(('nocall', None, (i, c['data'][:40])))
                continue
            kp = f'{p["asn4"]},{p["aigp"]}' if keyed else '-'
            lines.append(f'cache unpack {kp} {c["data"] or "-"} {fc["kind"]} {fc["rid"]}')
            expect.append(('unpack', ('hit ' if c['hit'] else 'miss ') + str(c['rid']), (i, c['data'][:40], fc['kind'])))
        for which, code, name in st['klass']:
            lines.append(f'cache klass {which} {code}')
            idx = regs[which].index(name) if name in regs[which] else None
            expect.append(('klass', f'cls {idx}' if idx is not None else 'none', (i, which, code, name)))
            if idx is not None:
                touched[(which, idx)] = name
    if with_ids:
        for (which, idx), name in sorted(touched.items()):
            lines.append(f'cache id {which} {idx}')
            expect.append(('id', str(seq['class_ids'].get(name)), (which, name)))
    return lines, expect


# ---------------------------------------------------------------------------------------------
# generation of deliveries and sequences


def gen_deliveries(rng, pool: list[Msg], cap: int) -> list[tuple[int, int, str]]:
    """(shape, message, entry point) triples; the same message on two shapes are neighbours in the list."""
    ns = len(R.SPECS)
    groups: list[list[tuple[int, int, str]]] = []
    by_origin: dict[str, list[int]] = {}
    for i, m in enumerate(pool):
        by_origin.setdefault(m.origin, []).append(i)
    pairs = [(0, 1), (0, 4), (0, 2), (1, 3), (0, 5), (0, 7), (6, 8), (0, 6)]
    quota = {'hand': 0.36, 'ctx': 0.16, 'mp': 0.08, 'encoder': 0.10, 'qa': 0.06, 'other': 0.16, 'malformed': 0.08}

    def take(idxs: list[int], share: float, both: float) -> None:
        idxs = list(idxs)
        rng.shuffle(idxs)
        n = 0
        for m in idxs:
            if n >= cap * share:
                break
            a, b = rng.choice(pairs[:4]) if rng.random() < 0.7 else rng.choice(pairs)
            if rng.random() < 0.5:
                a, b = b, a
            g = [(a, m, 'message')]
            if rng.random() < both:
                g.append((b, m, 'message'))
            if rng.random() < 0.1:
                g.append((rng.randrange(ns), m, 'message'))
            groups.append(g)
            n += len(g)

    take(by_origin.get('hand', []) + by_origin.get('hand-broken', []), quota['hand'], 0.9)
    take(by_origin.get('hand-mp', []), quota['mp'], 0.9)
    fam: dict[str, list[int]] = {}
    for m in by_origin.get('hand-ctx', []):
        fam.setdefault(pool[m].tag.split(':')[0], []).append(m)
    n = 0
    for name in rng.sample(sorted(fam), len(fam)):
        if n >= cap * quota['ctx']:
            break
        a = rng.choice([0, 0, 1, 6])
        members = rng.sample(fam[name], rng.randrange(3, len(fam[name]) + 1))
        g = [(a, m, 'message') for m in members]
        if rng.random() < 0.4:
            g += [(5 if a == 0 else a, m, 'message') for m in members[:2]]
        groups.append(g)
        n += len(g)
    take(by_origin.get('encoder', []), quota['encoder'], 0.7)
    take(by_origin.get('qa', []), quota['qa'], 0.5)
    take(by_origin.get('malformed', []), quota['malformed'], 0.5)
    others = [i for o in ('eor', 'open', 'notification', 'refresh', 'keepalive') for i in by_origin.get(o, [])]
    rng.shuffle(others)
    n = 0
    for m in others:
        if n >= cap * quota['other']:
            break
        g = [(rng.choice([0, 0, 1, 2, 6]), m, 'message')]
        if pool[m].origin == 'open' and rng.random() < 0.5:
            g.append((rng.choice([1, 2, 4]), m, 'message'))
        if pool[m].origin == 'eor':
            g.append((rng.choice([0, 6]), m, 'collection'))
        groups.append(g)
        n += len(g)
    rng.shuffle(groups)
    out: list[tuple[int, int, str]] = []
    seen = set()
    for g in groups:
        for d in g:
            if d not in seen and len(out) < cap:
                seen.add(d)
                out.append(d)
    return out


def gen_sequence(rng, k: int, deliveries: list[tuple[int, int, str]], length: int, blocks: list | None = None) -> list[int]:
    """Job k: starts with delivery k (its fresh twin), then a walk over deliveries 0..k: a small working
    set that contains the same block on several shapes, repeated, with an occasional stranger."""
    by_msg: dict[int, list[int]] = {}
    by_block: dict[tuple, list[int]] = {}
    for i in range(k + 1):
        by_msg.setdefault(deliveries[i][1], []).append(i)
        if blocks is not None and blocks[deliveries[i][1]] is not None:
            by_block.setdefault((deliveries[i][0], blocks[deliveries[i][1]]), []).append(i)
    multi = [m for m, ds in by_msg.items() if len(ds) >= 2]
    multib = [b for b, ds in by_block.items() if len(ds) >= 2]
    work: list[int] = list(by_msg[deliveries[k][1]])
    for _ in range(rng.randrange(1, 4)):
        if multi:
            work += by_msg[rng.choice(multi)]
    for _ in range(rng.randrange(0, 3)):
        if multib:  # the same attribute bytes in differently shaped UPDATEs on one session shape
            work += by_block[rng.choice(multib)]
    work += [rng.randrange(k + 1) for _ in range(rng.randrange(1, 5))]
    seq = [k]
    for _ in range(length - 1):
        x = rng.random()
        if x < 0.12:
            seq.append(seq[-1])  # the very same message again (repeated End-of-RIB, OPEN, NOTIFICATION, UPDATE)
        else:
            seq.append(rng.choice(work) if x < 0.82 else rng.randrange(k + 1))
    return seq


# ---------------------------------------------------------------------------------------------


def shape_circuit(rng, n: int) -> list[int]:
    """A closed walk over the n session shapes in which every ordered pair (a, b), a != b, is adjacent once
    (an Eulerian circuit of the complete digraph, Hierholzer): n * (n - 1) + 1 shapes."""
    out_edges = {a: [b for b in range(n) if b != a] for a in range(n)}
    for a in out_edges:
        rng.shuffle(out_edges[a])
    stack, walk = [rng.randrange(n)], []
    while stack:
        v = stack[-1]
        if out_edges[v]:
            stack.append(out_edges[v].pop())
        else:
            walk.append(stack.pop())
    return walk[::-1]


def pairwise_cases(rng, pool: list[Msg], how_many: int) -> list[dict]:
    """One message, every session shape right after every other one (the last-block cache holds ONE entry, so
    adjacency is what a stale answer needs; a cache with more entries is reached as well): a decision of the
    decoder that depends on a session parameter the key of a cache does not hold shows on the pair of shapes
    that differ in that parameter only (asn4/asn2, aigp on/off, eBGP/iBGP, ADD-PATH, families)."""
    core = [i for i, m in enumerate(pool) if m.origin == 'hand' and m.names is not None and m.nlri == '10/24' and
            (len(m.names) == 1 or (len(m.names) == 4 and m.names[1] in ('aspath-empty', 'aspath-f8')))]  # fmt: skip
    always = [i for i in core if pool[i].names in (['aigp'], ['origin-igp', 'aspath-f8', 'nexthop', 'aigp'])]
    rest = [i for i in core if i not in always]
    rng.shuffle(rest)
    cases = []
    for mi in (always + rest)[:how_many]:
        m = pool[mi]
        steps = [{'s': sh, 't': m.t, 'body': m.body.hex()} for sh in shape_circuit(rng, len(R.SPECS))]
        cases.append({'specs': R.SPECS, 'steps': steps, 'origin': 'pairwise'})
    return cases


def flag_order_cases(quick: bool) -> list[dict]:
    """The same attribute with one flag bit the other way round (Partial on a well-known attribute, Optional or
    Transitive flipped, Extended Length on a short value), BEFORE and AFTER the UPDATE that carries it as the RFC says,
    on one session and on two: what a process decides about one occurrence of an attribute code must not be what it
    decides about the next one (whatever it remembers per code, per flags, per class)."""
    base = ['origin-igp', 'aspath-f8', 'nexthop']
    names = ['origin-igp', 'aspath-f8', 'nexthop', 'lp-100', 'atomic', 'med-1', 'community'] if quick else ['origin-igp', 'aspath-f8', 'nexthop', 'lp-100', 'atomic', 'med-1', 'community', 'aggregator-4', 'extcomm', 'large', 'originator', 'cluster']
    bits = [0x20] if quick else [0x20, 0x80, 0x40, 0x10]
    out = []
    for nm in names:
        t = R.ATTRS[nm]
        flag, code = t[0], t[1]
        val = t[4:] if flag & 0x10 else t[3:]
        full = [x for x in base if R.ATTRS[x][1] != code] + [nm]
        order = sorted(full, key=lambda x: (R.ATTRS[x][1], x))
        normal = R.update_body(b'', R.block(order), R.NLRIS['10/24'])
        for bit in bits:
            f2 = flag ^ bit
            t2 = (bytes([f2, code]) + len(val).to_bytes(2, 'big') + val) if f2 & 0x10 else (bytes([f2, code, len(val)]) + val)
            blk = b''.join(t2 if x == nm else R.ATTRS[x] for x in order)
            variant = R.update_body(b'', blk, R.NLRIS['10/24'])
            V = {'t': 2, 'body': variant.hex()}
            N = {'t': 2, 'body': normal.hex()}
            for steps in ([dict(V, s=0), dict(N, s=0), dict(N, s=1)], [dict(N, s=0), dict(V, s=0), dict(N, s=0), dict(V, s=1), dict(N, s=1)]):
                out.append({'specs': [R.SPECS[0], R.SPECS[7]], 'steps': steps, 'origin': 'flag-order'})
    return out


def load_corpus() -> list[dict]:
    d = common.VERIF / 'corpus' / PROP
    return [dict(json.loads(f.read_text()), file=f.name) for f in sorted(d.glob('*.json'))] if d.exists() else []


def probe_cases() -> list[dict]:
    body = R.update_body(b'', R.block(['aspath-f8']), R.NLRIS['10/24']).hex()
    o1, o2 = R.open_body([R.CAPS['rr']]).hex(), R.open_body([R.CAPS['rr-cisco']]).hex()
    return [
        {'specs': [R.SPECS[0], R.SPECS[1]], 'steps': [{'s': 0, 't': 2, 'body': body}, {'s': 1, 't': 2, 'body': body}, {'s': 1, 't': 2, 'body': body}]},
        {'specs': [R.SPECS[0]], 'steps': [{'s': 0, 't': 1, 'body': o1}, {'s': 0, 't': 1, 'body': o2}]},
    ]


def variants_of(a: dict, b: dict) -> dict:
    """Which key the attribute cache of /repo uses, and whether Capability.klass still rewrites the class."""
    hits = [[c['hit'] for c in st['calls']] for st in a['steps']]
    return {
        'attrcache': 'bytes' if hits[1] == [True] else 'keyed',
        'attrcache_alive': hits[2] == [True],
        'capid': 'class' if b['class_ids'].get('exabgp.bgp.message.open.capability.refresh.RouteRefresh') == 128 else 'instance',
        'probe_hits': hits,
    }


def run(ctx: Ctx) -> None:
    quick = ctx.tier == 'quick'
    ncpu = os.cpu_count() or 4
    wpool = R.Pool(max(2, min(10 if quick else 14, ncpu - 2)))
    try:
        _run(ctx, ctx.rng, quick, wpool)
    finally:
        wpool.close()


def _run(ctx: Ctx, rng, quick: bool, wpool: 'R.Pool') -> None:
    t_start = time.time()
    run = Runner(wpool)
    ctx.rule = (
        'sequences of real UPDATE / OPEN / NOTIFICATION / ROUTE-REFRESH / KEEPALIVE / End-of-RIB messages over 9 session shapes (asn4 on/off, ADD-PATH on/off, AIGP on/off, '
        'ipv4-only / ipv4+ipv6 / all families, eBGP / iBGP), each sequence decoded in order in a process of its own (forked from a zygote that only imported), sessions established (two real OPENs) when their first message arrives; '
        'step 0 of a job is the fresh-process decode of its message. A sequence is non-trivial when at least one attribute block was served from the process-wide cache, '
        'at least one was parsed and stored, messages of at least two session shapes occur and every step has its fresh-process twin; '
        'distinct = distinct (shape, message) sequence with messages renamed by first appearance'
    )
    probes = probe_cases()
    probe_ids = [run.submit(p['specs'], p['steps']) for p in probes]

    cases: list[dict] = []
    for c in load_corpus():
        cases.append({'specs': c['specs'], 'steps': c['steps'], 'origin': 'corpus', 'file': c.get('file')})
    mpool = build_pool(rng, ctx.tier)
    for m in mpool:
        ctx.count('pool:' + m.origin)
    regs = registries()
    ndeliv = int(os.environ.get('VERIF_C19_JOBS', '64' if quick else '900'))
    deliveries = gen_deliveries(rng, mpool, ndeliv)
    blocks: list = []
    for m in mpool:
        t = _tlvs_of_update(m.body) if m.t == 2 else None
        blocks.append(b''.join(x for x, _ in t[1]) if t and t[1] else None)
    for k in range(len(deliveries)):
        length = rng.randrange(20, 70) if quick else rng.choice([rng.randrange(20, 80), rng.randrange(80, 200), rng.randrange(200, 400)])
        idxs = gen_sequence(rng, k, deliveries, length, blocks)
        steps = [step_of(deliveries[i], mpool) for i in idxs]
        for st in steps[1:]:  # step 0 is the fresh twin: always rendered in the canonical order
            if rng.random() < 0.7:
                st['ord'] = rng.randrange(1, 1000)
        cases.append({'specs': R.SPECS, 'steps': steps, 'origin': 'random'})
    cases += pairwise_cases(rng, mpool, int(os.environ.get('VERIF_C19_PAIRWISE', '8' if quick else '200')))
    cases += flag_order_cases(quick)
    for c in cases:  # corpus, the pairwise walks and the flag orders first, each with the fresh twins of its steps
        if c['origin'] in ('corpus', 'pairwise', 'flag-order'):
            c['id'] = run.submit(c['specs'], c['steps'])
            run.ensure_twins(c['specs'], c['steps'])
    for c in cases:
        if c['origin'] not in ('corpus', 'pairwise', 'flag-order'):
            c['id'] = run.submit(c['specs'], c['steps'])
    ctx.count('jobs:submitted', run.next_id)
    timing = {'generate_s': round(time.time() - t_start, 1)}

    reserve = 14 if quick else 150  # for the model and for shrinking
    wpool.wait(None, timeout=max(5.0, min(ctx.time_left() - reserve, 50.0 if quick else 520.0)))
    wpool.drop_pending()
    wpool.wait(None, timeout=20.0 if quick else 60.0)  # the interpreters in flight
    ctx.count('jobs:done-in-time', sum(1 for r in wpool.results.values() if not r.get('skipped')))
    timing['jobs_s'] = round(time.time() - t_start - timing['generate_s'], 1)

    pa, pb = run.ok(probe_ids[0]), run.ok(probe_ids[1])
    if pa is None or pb is None:
        raise common.Infra(f'C19: the probe jobs did not complete: {run.rig_errors[:2]}')
    variants = variants_of(pa, pb)
    ctx.extra['code_variant'] = variants
    keyed = variants['attrcache'] == 'keyed'
    with_ids = variants['capid'] == 'class'
    ctx.notes.append(f'attribute cache key of /repo: {"bytes + (asn4, aigp) [repaired]" if keyed else "bytes only [F8]"}; Capability.klass rewrites the class ID: {with_ids}')
    if not variants['attrcache_alive']:
        ctx.notes.append('the attribute cache did not serve an identical block on the same session shape: it is no longer a cache (the model predicts hits: disagreement)')

    script: list[str] = []
    expects: list[tuple[int, tuple[str, Any, Any]]] = []
    pending_fail: list[tuple[int, dict]] = []
    # determinism of the fresh decodes themselves: every job that starts with the same (shape, message) must agree
    first_by_key: dict[str, dict] = {}
    for jid, job in run.jobs.items():
        r = run.ok(jid)
        if r is None:
            continue
        k = step_key(job['specs'][job['steps'][0]['s']], job['steps'][0])
        if k in first_by_key and first_by_key[k] != r['steps'][0]['render']:
            raise common.Infra('C19 rig: two fresh interpreters rendered the same message on the same session shape differently')
        first_by_key[k] = r['steps'][0]['render']
    ctx.count('fresh-twins', len(first_by_key))

    for ci, c in enumerate(cases):
        seq = run.ok(c['id'])
        if seq is None:
            ctx.count('case:unfinished')
            continue
        twins = [run.twin(c['specs'][st['s']], st) for st in c['steps']]
        complete = all(t is not None for t in twins)
        ctx.evaluations += 1
        ctx.count('case:' + c['origin'])
        ctx.count('case:complete' if complete else 'case:some-fresh-twin-missing')
        ctx.count('len:%d-%d' % (len(c['steps']) // 20 * 20, len(c['steps']) // 20 * 20 + 19))
        shapes = set()
        hits = stores = 0
        last_store: dict[str, int] = {}
        for si, (st_in, st_out) in enumerate(zip(c['steps'], seq['steps'])):
            shapes.add(st_in['s'])
            ctx.count('step:type-%d' % st_in['t'])
            ctx.count('step:twin-' + ('yes' if twins[si] is not None else 'no'))
            cls = st_out['render'].get('class')
            ctx.count('step:result-' + (cls if cls != 'error' else 'error-' + str(st_out['render']['error'][0])))
            for call in st_out['calls']:
                ctx.count('unpack:' + ('served' if call['hit'] else 'parsed-' + call['kind']))
                if call['hit']:
                    hits += 1
                    src = last_store.get(call['data'])
                    if src is not None and src != si and c['steps'][src]['s'] != st_in['s']:
                        ctx.count('unpack:served-across-shapes')
                        if seq['steps'][src]['params'] != st_out['params']:
                            ctx.count('unpack:served-across-shapes-with-different-(asn4,aigp)')
                elif call['kind'] in ('plain', 'empty'):
                    stores += 1
                    last_store[call['data']] = si
        if complete and hits and stores and len(shapes) >= 2:
            ren: dict = {}
            shape = [[st['s'], ren.setdefault((st['t'], st['body'], st.get('entry', 'message')), len(ren))] for st in c['steps']]
            ctx.nontrivial(shape)
            if c['origin'] == 'random' or not ctx.samples:
                ctx.sample({'shapes': [c['specs'][s]['name'] for s, _ in shape][:14], 'messages': [m for _, m in shape][:14],
                            'served': [[call['hit'] for call in st['calls']] for st in seq['steps']][:14], 'classes': [st['render'].get('class') for st in seq['steps']][:14]}, cap=4)  # fmt: skip
        if seq['attr_cache'][0] != seq['attr_cache'][1]:
            ctx.count('disagreement')
            if len(ctx.disagreements) < 10:
                ctx.disagreements.append(Disagreement('decode-cache', {'case': ci, 'origin': c['origin']}, 'Attribute.cache (per attribute id) is not used on the decode path',
                                                      f'its size went from {seq["attr_cache"][0]} to {seq["attr_cache"][1]} entries during the sequence'))  # fmt: skip
        for f in failures_of(seq, twins):
            ctx.count('oracle-fail:' + f['kind'])
            pending_fail.append((ci, f))
        if ctx.driver_ok and complete:
            lines, exp = model_lines(seq, twins, keyed, with_ids, regs)  # type: ignore[arg-type]
            script += lines
            expects += [(ci, e) for e in exp]
    if run.rig_errors:
        raise common.Infra(f'C19: {len(run.rig_errors)} jobs failed inside the rig: {run.rig_errors[0]}')

    # correspondence
    if ctx.driver_ok and script:
        out = common.run_driver('drv_cache', script)
        bad_cases = set()
        for line, got, (ci, (what, want, info)) in zip(script, out, expects):
            ctx.count('model:' + what)
            ok = got == want if what in ('ok', 'klass', 'id') else (what == 'unpack' and got.rsplit(' slots=', 1)[0] == want)
            if not ok and ci not in bad_cases:
                bad_cases.add(ci)
                ctx.count('disagreement')
                if len(ctx.disagreements) < 10:
                    ctx.disagreements.append(Disagreement('decode-cache', {'case': ci, 'line': line[:200], 'info': info, 'origin': cases[ci]['origin']}, got, want))

    timing['evaluate_and_model_s'] = round(time.time() - t_start - timing['generate_s'] - timing['jobs_s'], 1)
    # the oracle failures: canonical form, each class once (corpus cases come first and are already minimal)
    reported: set = set()
    memo: dict = {}
    main_jobs = run.next_id
    unshrunk = 0
    prefetched = False
    for ci, f in pending_fail:
        c = cases[ci]
        if c['origin'] != 'corpus' and not prefetched:
            prefetched = True
            codes = {a for k in reported for a in json.loads(k).get('attrs', [])}
            if codes and ctx.time_left() > 10:
                n = prefetch_verifications(run, cases, pending_fail, codes, 40 if quick else 300)
                wpool.wait(None, timeout=max(1.0, min(ctx.time_left() - 8, 60.0 if quick else 300.0)))
                ctx.count('verifications-prefetched', n)
        seq = run.ok(c['id'])
        twins = [run.twin(c['specs'][st['s']], st) for st in c['steps']]
        may_shrink = ctx.time_left() > 6 and run.next_id - main_jobs < (60 if quick else 400)
        try:
            if f['kind'] == 'history':
                res = canon_history(run, c['specs'], c['steps'], seq, twins, f, reported, may_shrink, memo)  # type: ignore[arg-type]
                results = [res] if res else []
            else:
                results = canon_altered(run, c['specs'], c['steps'], seq, f, reported, may_shrink)  # type: ignore[arg-type]
        except Exception as e:  # noqa: BLE001
            results = [({'what': f['kind'], 'fields': f['fields']}, {'specs': c['specs'], 'steps': c['steps']}, f'unshrunk ({type(e).__name__}: {e})')]
        if not results:
            ctx.count('oracle-fail:of-a-class-already-reported')
        for canon, replay, what in results:
            key = json.dumps(canon, sort_keys=True)
            if key in reported:
                ctx.count('oracle-fail:of-a-class-already-reported')
                continue
            reported.add(key)
            if not may_shrink:
                unshrunk += 1
            ctx.failures.append(Failure('update-class', canon, replay, what))
    if unshrunk:
        ctx.notes.append(f'{unshrunk} oracle failure classes reported without shrinking (budget)')
    steps_total = sum(len(c['steps']) for c in cases if run.ok(c['id']) is not None)
    ctx.extra['rate_per_s'] = round(steps_total / max(time.time() - t_start, 0.1), 1)
    timing['canonical_forms_s'] = round(time.time() - t_start - sum(timing.values()), 1)
    ctx.extra['timing'] = timing
    ctx.extra['jobs'] = {'submitted': run.next_id, 'interpreters_in_parallel': wpool.k, 'decoded_in_sequence': steps_total}


def replay(path: str) -> int:
    data = json.loads(open(path).read())
    rep = data['replay'] if 'replay' in data else data
    specs, steps = rep['specs'], rep['steps']
    seq = R.oneshot({'id': 'replay', 'specs': specs, 'steps': steps, 'rerender': True})
    if 'rig_error' in seq:
        print('rig error:', seq['rig_error'])
        return 2
    bad = False
    for i, st in enumerate(steps):
        single = R.oneshot({'id': f'single{i}', 'specs': [specs[st['s']]], 'steps': [dict(st, s=0)], 'rerender': True})
        got, fresh = seq['steps'][i]['render'], single['steps'][0]['render']
        print(f'step {i}: shape={specs[st["s"]]["name"]} type={st["t"]} body={st["body"][:80]} served={[c["hit"] for c in seq["steps"][i]["calls"]]}')
        if got != fresh:
            bad = True
            for k in diff_fields(got, fresh):
                print(f'   {k}: in sequence     : {json.dumps(got.get(k))[:600]}')
                print(f'   {k}: alone, fresh    : {json.dumps(fresh.get(k))[:600]}')
        again = seq['again'][i]
        if again is not None and again != got:
            bad = True
            for k in diff_fields(got, again):
                print(f'   {k}: when returned    : {json.dumps(got.get(k))[:600]}')
                print(f'   {k}: at the end       : {json.dumps(again.get(k))[:600]}')
    print('holds :', not bad)
    return 1 if bad else 0
