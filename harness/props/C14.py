"""C14 — API commands: same order, one acknowledgement each, no side effects on error.

Correspondence of M-Api with the real reader (`Processes._async_reader_callback` on an os.pipe
written in arbitrary pieces), `received_async`, `API.process` (v4 and v6 dispatch), the command
handlers and the real per-neighbor OutgoingRIBs inside a real Reactor main loop (harness/apirig.py),
plus the property oracle evaluated on the implementation alone:

  order      the commands executed are the lines written, in order (whitespace-insensitive compare)
  chunking   two different chunkings of the same bytes give the same commands, replies and RIBs
  one ack    with acknowledgements on, every command gets exactly one terminal `done`/`error` line
  no effect  a command that is unknown, or whose route text the real parser refused, changes no RIB
  selector   a command with a selector changes only neighbors that match every term of one of its
             definitions (predicate `allowed`, computed from the neighbor specifications)
"""

from __future__ import annotations

import copy
import json
import re
import time
from typing import Any

from harness import apirig, common
from harness.common import Ctx, Disagreement, Failure

THEOREM_MODULES = ['ExaModel.Props.C14']
DRIVERS = ['drv_api']
TABLES = ['api']
ASSUMPTIONS = [
    'command bytes are ASCII (a byte >= 128 makes the reader drop the whole read and kill the helper: which earlier lines of that read were queued then depends on the chunking)',
    'no BGP session is established in the rig (sync mode never waits; teardown/eor/route-refresh find no established peer)',
    'the route/flow text grammar is an uninterpreted function in the model (Env.parse); its values are the results of the real API.api_* calls recorded during the run',
    'crash / system crash (fault injection: answers done, then the injected exception is reported as error) is excluded from the one-acknowledgement claim',
    'silence-ack is the command that switches acknowledgements off: it is itself not acknowledged (documented behaviour), the claim applies to commands processed with acknowledgements on',
    'commands contain no control whitespace other than tab / CR / LF (str.split() and split(" ") then agree)',
    'selector matching is modelled on whole words: Neighbor.name() is twelve words joined by single spaces, none of which contains white space or a comma (addresses, AS numbers, router-id, in-open or a /-joined family list), and a selector term is one or two such words; on such names the regex (^|\\s)term($|\\s|,) is "the words of the term occur as consecutive whole words of the name" (Exa.Api.infixOf). That equivalence is not proved: it is carried by the correspondence, whose neighbor sets contain values that are textual prefixes / suffixes / continuations (with a digit, ":" "." "/") of one another in every key, and whose selectors use those values and truncated / continued look-alikes of them',
    'long tail of handlers (show, list, create, delete, routes, operational) is outside the model: oracle only',
]
PROP = 'C14'
MAX = 1024 * 1024

# ---------------------------------------------------------------------------------------------
# universe

V4_ROUTES = ['10.0.1.0/24', '10.0.2.0/24', '10.0.3.0/25', '10.4.0.0/16', '10.0.5.5/32']
V6_ROUTES = ['2001:db8:6::/48', '2001:db8:7::/64']
ATTRS = ['', ' med 1', ' med 2 community [ 65000:2 ]', ' med 3 local-preference 50', ' community [65000:1 65000:2]', ' as-path [ 65001 65002 ]']
NH4 = ['192.0.2.1', '192.0.2.2']
NH6 = ['2001:db8::1', '2001:db8::2']
FIELD = {'local-ip': 'local_ip', 'local-as': 'local_as', 'peer-as': 'peer_as', 'router-id': 'router_id'}
MISS = {'local-ip': '192.0.2.250', 'local-as': '64999', 'peer-as': '64998', 'router-id': '9.9.9.9', 'family-allowed': 'ipv4-unicast'}
MISS_IP = '10.99.99.99'

NBR_SETS = {
    'default': apirig.DEFAULT_NBRS,
    'two': [apirig.DEFAULT_NBRS[0], apirig.DEFAULT_NBRS[1]],
    'same-as': [
        {'peer': '10.0.0.1', 'local_ip': '192.0.2.1', 'local_as': 65000, 'peer_as': 65001, 'router_id': '1.1.1.1', 'families': ['ipv4 unicast'], 'attached': True, 'watchdog': []},
        {'peer': '10.0.0.11', 'local_ip': '192.0.2.1', 'local_as': 65000, 'peer_as': 65001, 'router_id': '1.1.1.1', 'families': ['ipv4 unicast', 'ipv6 unicast'], 'attached': True, 'watchdog': [(9, 'dog', False)]},
        {'peer': '10.0.0.111', 'local_ip': '192.0.2.11', 'local_as': 65001, 'peer_as': 65000, 'router_id': '1.1.1.11', 'families': ['ipv6 unicast'], 'attached': True, 'watchdog': []},
    ],
    # look-alikes: in every selector key one neighbor's value is a textual prefix / suffix /
    # continuation of another's (addresses continued with ':' or a digit, AS numbers 6500 / 65001 /
    # 165001, router-ids 1.1.1.1 / 1.1.1.11 / 11.1.1.1, family lists continued with '/')
    'lookalike-v6': [
        {'peer': '2001:db8::1', 'local_ip': '2001:db8::a', 'local_as': 6500, 'peer_as': 65001, 'router_id': '1.1.1.1', 'families': ['ipv4 unicast'], 'multi_session': True, 'family_allowed': 'ipv4-unicast', 'attached': True, 'watchdog': []},
        {'peer': '2001:db8::1:2', 'local_ip': '2001:db8::a:b', 'local_as': 65001, 'peer_as': 165001, 'router_id': '1.1.1.11', 'families': ['ipv4 unicast', 'ipv6 unicast'], 'multi_session': True, 'family_allowed': 'ipv4-unicast/ipv6-unicast', 'attached': True, 'watchdog': [(9, 'dog', True)]},
        {'peer': '::1', 'local_ip': '::11', 'local_as': 65001, 'peer_as': 6500, 'router_id': '11.1.1.1', 'families': ['ipv4 unicast', 'ipv6 unicast'], 'attached': True, 'watchdog': []},
        {'peer': '::11', 'local_ip': '::1', 'local_as': 165001, 'peer_as': 6500, 'router_id': '1.1.1.1', 'families': ['ipv4 unicast', 'ipv6 unicast'], 'attached': True, 'watchdog': []},
    ],
    'lookalike-v4': [
        {'peer': '10.0.0.1', 'local_ip': '192.0.2.1', 'local_as': 65001, 'peer_as': 6500, 'router_id': '1.1.1.1', 'families': ['ipv4 unicast', 'ipv6 unicast'], 'attached': True, 'watchdog': []},
        {'peer': '10.0.0.12', 'local_ip': '192.0.2.12', 'local_as': 6500, 'peer_as': 65001, 'router_id': '1.1.1.11', 'families': ['ipv4 unicast', 'ipv6 unicast'], 'attached': True, 'watchdog': [(9, 'dog', True)]},
        {'peer': '110.0.0.1', 'local_ip': '92.0.2.1', 'local_as': 165001, 'peer_as': 165001, 'router_id': '11.1.1.1', 'families': ['ipv4 unicast'], 'multi_session': True, 'family_allowed': 'ipv4-unicast', 'attached': True, 'watchdog': []},
        {'peer': '10.0.0.123', 'local_ip': '192.0.2.1', 'local_as': 65001, 'peer_as': 650, 'router_id': '1.1.1.1', 'families': ['ipv4 unicast', 'ipv6 unicast'], 'multi_session': True, 'family_allowed': 'ipv4-unicast/ipv6-unicast', 'attached': True, 'watchdog': []},
    ],
    'one-foreign': [
        {'peer': '10.0.0.1', 'local_ip': '192.0.2.1', 'local_as': 65000, 'peer_as': 65001, 'router_id': '1.1.1.1', 'families': ['ipv4 unicast'], 'attached': True, 'watchdog': []},
        {'peer': '10.0.0.2', 'local_ip': '192.0.2.1', 'local_as': 65000, 'peer_as': 65001, 'router_id': '1.1.1.1', 'families': ['ipv4 unicast'], 'attached': False, 'watchdog': []},
    ],
}


def spec_value(spec: dict, key: str) -> str:
    return spec.get('family_allowed', 'in-open') if key == 'family-allowed' else str(spec[FIELD[key]])


def allowed(specs: list[dict], sel: list[dict]) -> set[int]:
    """The independent predicate: neighbors of the service matching every term of one definition."""
    return {
        i
        for i, s in enumerate(specs)
        if s['attached'] and any((d['ip'] == '*' or d['ip'] == s['peer']) and all(spec_value(s, k) == v for k, v in d['terms']) for d in sel)
    }


# ---------------------------------------------------------------------------------------------
# generator


def gen_route_body(rng, ok: bool = True) -> str:
    if not ok:
        return rng.choice(
            [
                'route 10.0.0.0/33 next-hop 192.0.2.1',
                'route 10.0.1.0/24 next-hop',
                'route',
                'route foo next-hop 192.0.2.1',
                'route 10.0.1.0/24 next-hop 192.0.2.1 med x',
                'route 10.0.1.0/24 next-hop 192.0.2.1 community [ 1:2',
                'route 10.0.1.0/24 next-hop 192.0.2.1 local-preference',
                'ipv4 unicast',
                'ipv6 unicast 2001:db8::/129 next-hop 2001:db8::1',
                'flow route { match',
                'route 10.0.1.0/24 next-hop 192.0.2.1 bogus-attribute 7',
                # several statements on one line, a later one refused: nothing of the line may stay anywhere
                f'route {rng.choice(V4_ROUTES)} next-hop {rng.choice(NH4)} ; route {rng.choice(V4_ROUTES)} next-hop bogus',
                f'route {rng.choice(V4_ROUTES)} next-hop {rng.choice(NH4)}{rng.choice(ATTRS)} ; route 10.0.0.0/33 next-hop 192.0.2.1',
                f'route {rng.choice(V4_ROUTES)} next-hop {rng.choice(NH4)} ; route {rng.choice(V6_ROUTES)} next-hop {rng.choice(NH6)} ; bogus',
            ]
        )
    x = rng.random()
    if x < 0.57:
        return f'route {rng.choice(V4_ROUTES)} next-hop {rng.choice(NH4)}{rng.choice(ATTRS)}'
    if x < 0.62:  # two statements on one line, both accepted
        return f'route {rng.choice(V4_ROUTES)} next-hop {rng.choice(NH4)}{rng.choice(ATTRS)} ; route {rng.choice(V4_ROUTES + V6_ROUTES[:0])} next-hop {rng.choice(NH4)}'
    if x < 0.78:
        return f'route {rng.choice(V6_ROUTES)} next-hop {rng.choice(NH6)}{rng.choice(ATTRS)}'
    if x < 0.88:
        return f'ipv4 unicast {rng.choice(V4_ROUTES)} next-hop {rng.choice(NH4)}{rng.choice(ATTRS[:4])}'
    if x < 0.93:
        return f'ipv6 unicast {rng.choice(V6_ROUTES)} next-hop {rng.choice(NH6)}'
    if x < 0.96:
        return f'attributes next-hop {rng.choice(NH4)}{rng.choice(ATTRS[1:4])} nlri {rng.choice(V4_ROUTES)} {rng.choice(V4_ROUTES)}'
    if x < 0.98:
        # a family no neighbor of the rig is configured for: parsed, then refused neighbor by neighbor
        return 'flow route { match { source 10.0.0.1/32; destination-port =80; } then { discard; } }'
    return f'route {rng.choice(V4_ROUTES)}'  # no next hop: validate_announce refuses the announce


def near(rng, value: str) -> str:
    """A look-alike of a real value: truncated, or continued, at either end (never the value itself)."""
    digit = rng.choice('0123456789')
    cands = [value[:-1], value[1:], value + digit, digit + value, value + ':' + digit, value + '.' + digit, value + '/' + value]
    cands = [c for c in cands if c and c != value and ' ' not in c]
    return rng.choice(cands)


def gen_selector(rng, specs: list[dict]) -> list[dict]:
    defs = []
    for _ in range(rng.choice([1, 1, 1, 2, 2, 3])):
        x = rng.random()
        if x < 0.2:
            ip = '*'
        elif x < 0.28:
            ip = MISS_IP
        elif x < 0.36:
            ip = near(rng, rng.choice(specs)['peer'])
        else:
            ip = rng.choice(specs)['peer']
        terms = []
        for _ in range(rng.choice([0, 0, 1, 1, 2, 3])):
            key = rng.choice(['local-ip', 'local-as', 'peer-as', 'router-id', 'family-allowed'])
            y = rng.random()
            val = MISS[key] if y < 0.15 else near(rng, spec_value(rng.choice(specs), key)) if y < 0.3 else spec_value(rng.choice(specs), key)
            terms.append([key, val])
        defs.append({'ip': ip, 'terms': terms})
    return defs


def render_selector(rng, sel: list[dict], syntax: str) -> str:
    term = lambda d: ' '.join([d['ip']] + [f'{k} {v}' for k, v in d['terms']])
    if syntax == 'neighbor':
        sep = rng.choice([', ', ' , ', ','])
        return sep.join('neighbor ' + term(d) for d in sel)
    if syntax == 'peer':
        return 'peer ' + term(sel[0])
    word = 'neighbor' if syntax == 'neighbor-bracket' else 'peer'
    sep = rng.choice([', ', ' , ', ','])
    lb, rb = rng.choice([('[', ']'), ('[ ', ' ]')])
    return f'{word} {lb}{sep.join(term(d) for d in sel)}{rb}'


def syntaxes_for(version: int, sel: list[dict]) -> list[str]:
    out = ['peer-bracket']
    if len(sel) == 1 and not (sel[0]['ip'] == '*' and sel[0]['terms']):
        out.append('peer')
    if version == 4:
        out += ['neighbor', 'neighbor', 'neighbor-bracket']
    return out


class Gen:
    """Generates the lines of one case, tracking what a correct daemon would be doing (API version,
    acknowledgement state) so that every line carries the expectations of the oracle."""

    def __init__(self, rng, version: int, specs: list[dict]) -> None:
        self.rng, self.version, self.specs = rng, version, specs
        self.ack = True
        self.grouping = False

    def line(self, text: str, **tag: Any) -> dict:
        tag.setdefault('ack_on', self.ack)
        tag.setdefault('version', self.version)
        return {'text': text, 'tag': tag}

    def suffix(self) -> str:
        """the trailing keywords `parse_sync_mode` strips"""
        return self.rng.choice(['', '', '', '', ' json', ' text', ' sync', ' async', ' sync json', ' json async', ' text text text'])

    def selected(self, action_text: str, kind: str, **tag: Any) -> dict:
        rng = self.rng
        sel = gen_selector(rng, self.specs)
        syntax = rng.choice(syntaxes_for(self.version, sel))
        if syntax == 'peer':
            sel = sel[:1]
        return self.line(f'{render_selector(rng, sel, syntax)} {action_text}', kind=kind, sel=sel, syntax=syntax, action=action_text, **tag)

    def one(self) -> list[dict]:
        rng, v = self.rng, self.version
        x = rng.random()
        act = rng.choice(['announce', 'announce', 'withdraw'])
        if x < 0.30:  # selector + route
            ok = rng.random() < 0.85
            return [self.selected(f'{act} {gen_route_body(rng, ok)}{self.suffix()}', 'sel-route')]
        if x < 0.42:  # no selector
            ok = rng.random() < 0.85
            body = gen_route_body(rng, ok) + self.suffix()
            if v == 4:
                return [self.line(f'{act} {body}', kind='route')]
            return [self.line(f'peer * {act} {body}', kind='route')]
        if x < 0.49:
            return [self.selected(f'{act} watchdog {rng.choice(["dog", "cat", "bird"])}', 'sel-watchdog')]
        if x < 0.51:
            return [self.selected(f'teardown {rng.choice(["6", "2", "x", "", "6 7"])}'.rstrip(), 'sel-teardown')]
        if x < 0.52:
            return [self.selected(rng.choice(['announce eor ipv4 unicast', 'announce eor', 'announce route-refresh ipv4 unicast', 'announce route-refresh bogus']), 'sel-eor', nochange=True)]
        if x < 0.56:
            w = rng.choice(['flush adj-rib out', 'clear adj-rib out', 'clear adj-rib in']) if v == 4 else rng.choice(['rib flush out', 'rib clear out', 'rib clear in'])
            return [self.line(w, kind='rib')]
        if x < 0.575 and not self.grouping:
            return [self.line('group end', kind='unknown', nochange=True)]  # not in a group (or v4): refused
        if x < 0.64:  # unknown
            w = rng.choice(
                ['bogus', 'announce', 'announce bogus 1', 'neighbor 10.0.0.1 frobnicate', 'peer 10.0.0.1', 'peer announce route 10.0.1.0/24 next-hop 192.0.2.1', 'neighbor', 'peer', 'rib', 'session ack', 'withdraw', 'neighbor 10.0.0.1', 'peer * local-as 65000 announce route 10.0.1.0/24 next-hop 192.0.2.1', 'peer [ 10.0.0.1 peer-as', 'show', 'announce route-refresh', 'daemon', 'x' * rng.choice([1, 50, 300])]
            )
            return [self.line(w, kind='unknown', nochange=True)]
        if x < 0.70:
            return [self.line(rng.choice(['', '', '#', '# a comment', '#announce route 10.0.1.0/24 next-hop 192.0.2.1', '   ', '\t']), kind='comment', nochange=True)]
        if x < 0.74:
            return [self.line(rng.choice(['debug hello', 'debug announce route 10.0.1.0/24 next-hop 192.0.2.1', 'debug ']) + rng.choice(['', 'x']), kind='debug', skipped=True)]
        if x < 0.80:  # ack toggles
            which = rng.choice(['enable', 'disable', 'silence'])
            text = f'session ack {which}' if (v == 6 or rng.random() < 0.4) else f'{which}-ack'
            l = self.line(text, kind='ack-' + which, nochange=True)
            self.ack = which == 'enable'
            return [l]
        if x < 0.84:
            w = rng.choice(['version', 'ping', 'help', 'queue-status', 'status', 'reset', 'enable-sync', 'disable-sync', 'bye']) if v == 4 else rng.choice(['system version', 'session ping', 'system help', 'system queue-status', 'daemon status', 'session reset', 'session sync enable', 'session sync disable', 'session bye'])
            return [self.line(w, kind='simple', nochange=True)]
        if x < 0.87:  # api version switch
            nv = rng.choice([4, 6, 6, 5])
            text = f'system api version {nv}' if (v == 6 or rng.random() < 0.5) else f'api version {nv}'
            l = self.line(text, kind='api-version', nochange=True)
            if nv in (4, 6):
                self.version = nv
            return [l]
        if x < 0.93:  # multi-line group (the v4 dispatcher does not know `group`: the lines are then ordinary commands)
            grp = v == 6 or self.grouping
            out = [self.line('group start', kind='group-start', nochange=True)]
            if v == 6:
                self.grouping = True
            for _ in range(rng.randrange(0, 4)):
                ok = rng.random() < 0.8
                body = f'{rng.choice(["announce", "withdraw"])} {gen_route_body(rng, ok)}'
                out.append(self.line(body, kind='group-item', nochange=True) if grp else self.line(body, kind='route'))
            if rng.random() < 0.2:
                out.append(self.selected(f'announce {gen_route_body(rng)}', 'sel-route'))
            if rng.random() < 0.9:
                out.append(self.line('group end', kind='group-end', **({} if v == 6 else {'nochange': True})))
                if v == 6:
                    self.grouping = False
            elif rng.random() < 0.3 and v == 6:
                out.append(self.line('group start', kind='group-start', nochange=True))  # nested: refused
            return out
        if x < 0.97:  # inline group
            parts = '; '.join(f'{rng.choice(["announce", "withdraw"])} {gen_route_body(rng, rng.random() < 0.85)}' for _ in range(rng.randrange(1, 4)))
            l = self.selected(f'group {parts}', 'sel-group')
            return [l]
        w = rng.choice(['announce eor ipv4 unicast', 'announce route-refresh ipv4 unicast', 'show neighbor summary', 'show adj-rib out', 'peer list', 'peer show'])
        if v == 6 and w.startswith('announce'):
            w = 'peer * ' + w
        return [self.line(w, kind='tail')]


def decorate(rng, text: str) -> str:
    """Whitespace noise that `rstrip`/`formated` must absorb."""
    x = rng.random()
    if x < 0.70:
        return text
    if x < 0.80:
        return text + rng.choice([' ', '  ', '\t', ' \t '])
    if x < 0.88:
        return rng.choice([' ', '\t', '  ']) + text
    if x < 0.96:
        return text.replace(' ', rng.choice(['  ', '\t', ' \t']), rng.choice([1, 2, 99]))
    return text.replace(' ', '   ')


def gen_cuts(rng, n: int) -> list[int]:
    if n <= 1:
        return []
    x = rng.random()
    if x < 0.12:
        return []
    if x < 0.22:
        return list(range(1, n)) if n <= 400 else sorted(rng.sample(range(1, n), 400))
    k = rng.choice([1, 2, 3, 5, 8, 13, 30])
    return sorted(set(rng.randrange(1, n) for _ in range(k)))


def gen_burst(rng, n: int) -> dict:
    """A helper that writes a whole table at once: `n` lines in one burst, read 16384 bytes at a time while the reactor
    takes one command per turn — the backlog between the reader and the reactor is as long as the burst."""
    version = rng.choice([4, 6])
    g = Gen(rng, version, NBR_SETS['default'])
    lines: list[dict] = []
    while len(lines) < n:
        lines += g.one()
    for l in lines:
        l['eol'] = '\n'
    return {'version': version, 'ack': True, 'nbrs': 'default', 'lines': lines, 'tail': '', 'cuts': [], 'cuts2': [], 'spin': 0, 'stall': 0}


def gen_case(rng, tier: str) -> dict:
    version = rng.choice([4, 6])
    nbrs = rng.choice(['default', 'default', 'default', 'two', 'same-as', 'one-foreign', 'lookalike-v6', 'lookalike-v6', 'lookalike-v4', 'lookalike-v4'])
    specs = NBR_SETS[nbrs]
    g = Gen(rng, version, specs)
    lines: list[dict] = []
    for _ in range(rng.choice([1, 2, 3, 5, 8, 12] if tier == 'quick' else [1, 3, 8, 12, 20, 40])):
        lines += g.one()
    for l in lines:
        l['text'] = decorate(rng, l['text'])
        l['eol'] = '\r\n' if rng.random() < 0.15 else '\n'
    tail = rng.choice(['', '', '', 'announce rou', 'peer 10.0.0.1 ann'])
    data = ''.join(l['text'] + l['eol'] for l in lines) + tail
    n = len(data.encode())
    cuts = gen_cuts(rng, n)
    # make sure some cuts sit exactly around a newline
    nl = [i + 1 for i, c in enumerate(data) if c == '\n' and i + 1 < n]
    if nl and rng.random() < 0.5:
        p = rng.choice(nl)
        cuts = sorted(set(cuts + [p] + ([p - 1] if p > 1 and rng.random() < 0.5 else [])))
    return {'version': version, 'ack': True, 'nbrs': nbrs, 'lines': lines, 'tail': tail, 'cuts': cuts, 'cuts2': gen_cuts(rng, n), 'spin': rng.choice([0, 0, 1, 3, 9]), 'stall': rng.choice([0, 0, 0, 8, 40])}


# ---------------------------------------------------------------------------------------------
# execution on the real code


def case_bytes(case: dict) -> bytes:
    if 'raw_hex' in case:
        return bytes.fromhex(case['raw_hex'])
    return (''.join(l['text'] + l.get('eol', '\n') for l in case['lines']) + case.get('tail', '')).encode('latin-1')


def chunks_of(data: bytes, cuts: list[int]) -> list[bytes]:
    pts = [0] + [c for c in sorted(set(cuts)) if 0 < c < len(data)] + [len(data)]
    return [data[a:b] for a, b in zip(pts, pts[1:]) if b > a]


def specs_of(case: dict) -> list[dict]:
    n = case.get('nbrs', 'default')
    return NBR_SETS[n] if isinstance(n, str) else n


def run_real(case: dict, cuts: list[int]) -> dict:
    rig = apirig.ApiRig(case['version'], specs_of(case), ack=case.get('ack', True), max_command=case.get('max'))
    try:
        data = case_bytes(case)
        sched: list = []
        if case.get('stall'):
            sched.append(('stall', None))  # the helper is slow to read its stdin: acknowledgements queue up behind a full pipe
        # one os.read returns at most 16384 bytes: larger pieces are written (and read) in 16384 steps
        for ch in chunks_of(data, cuts):
            for i in range(0, len(ch), 16384):
                sched.append(('chunk', ch[i : i + 16384]))
                if case.get('spin'):
                    sched.append(('spin', case['spin']))
        if case.get('stall'):
            sched += [('spin', int(case['stall'])), ('unstall', None)]
        res = rig.run(sched)
        res['chunks'] = [c for k, c in sched if k == 'chunk']
        res['nbr_lines'] = rig.nbr_lines()
        res['watchdogs'] = rig.initial_watchdogs
        res['wdnames'] = dict(rig.ids.wd)
        res['initial'] = res['before'][0] if res['before'] else res['after'][-1] if res['after'] else rig.snapshot()
        return res
    finally:
        rig.close()


def terminal(lines: list[str]) -> str:
    return ''.join('d' if l == 'done' else 'e' for l in lines if l in ('done', 'error')) or '-'


# ---------------------------------------------------------------------------------------------
# the property oracle (implementation only)

_ws = re.compile(r'\s+')


def nospace(s: str) -> str:
    return _ws.sub('', s)


def expected_commands(case: dict) -> list[tuple[int, str]]:
    """(line index, line) of the lines a correct reader hands over: every complete line except
    `debug …` ones.  Independent of the model: compared modulo whitespace."""
    out = []
    for i, l in enumerate(case['lines']):
        t = l['text'].rstrip()
        if t.startswith('debug '):
            continue
        out.append((i, l['text']))
    return out


def same_outcome(res: dict, res2: dict) -> bool:
    """Two deliveries of the same bytes: same commands, same replies, same RIBs after every command.
    Once the helper has been killed nobody reads the replies (and which of them were still written
    depends on the scheduling): then the commands, the verdict and the final RIBs are compared."""
    if res['commands'] != res2['commands'] or res['dead'] != res2['dead']:
        return False
    if res['dead']:
        return res['after'][-1:] == res2['after'][-1:]
    return [terminal(r) for r in res['replies']] == [terminal(r) for r in res2['replies']] and res['after'] == res2['after']


def changed(before: list[str], after: list[str]) -> set[int]:
    return {i for i, (b, a) in enumerate(zip(before, after)) if b != a}


def oracle(case: dict, res: dict) -> list[dict]:
    """Failures of the property on one real run: dicts {what, line, detail}."""
    fails: list[dict] = []
    if 'lines' not in case:
        return fails
    exp = expected_commands(case)
    got = res['commands']
    if [nospace(t) for _, t in exp] != [nospace(c) for c in got]:
        fails.append({'what': 'order', 'line': -1, 'detail': f'executed {got!r} for lines {[t for _, t in exp]!r}'})
        return fails
    specs = specs_of(case)
    for k, (i, _) in enumerate(exp):
        tag = case['lines'][i]['tag']
        reps = terminal(res['replies'][k])
        ch = changed(res['before'][k], res['after'][k])
        if tag.get('ack_on') and tag['kind'] not in ('ack-silence',) and not nospace(case['lines'][i]['text']).endswith('crash'):
            if len(reps.replace('-', '')) != 1:
                fails.append({'what': 'ack', 'line': i, 'detail': f'{len(reps.replace("-", ""))} terminal replies {res["replies"][k]!r}'})
        if tag.get('nochange') and ch:
            fails.append({'what': 'nochange', 'line': i, 'detail': f'neighbors {sorted(ch)} changed'})
        if tag.get('sel') is not None:
            extra = ch - allowed(specs, tag['sel'])
            if extra:
                fails.append({'what': 'selector', 'line': i, 'detail': f'changed {sorted(ch)}, selector allows {sorted(allowed(specs, tag["sel"]))}'})
    # a command whose route text the real parser refused changes nothing (whatever the generator meant)
    return fails


def unparsed_changes(res: dict) -> list[int]:
    """Executed commands during which the real route parser was called, refused every text it was
    given (no route / exception), and a RIB changed nevertheless."""
    calls: dict[int, list] = {}
    for fn, act, words, result, k in res['parse_log']:
        calls.setdefault(k, []).append(result)
    return [k for k, rs in calls.items() if 0 <= k < len(res['commands']) and not any(rs) and changed(res['before'][k], res['after'][k])]


_ALONE: dict[str, Any] = {}


def _all_fails(case: dict, res: dict) -> list[dict]:
    return oracle(case, res) + parse_history_fails(case, res)


def parse_history_fails(case: dict, res: dict) -> list[dict]:
    """What the parser returned for a command text is what a daemon that parsed nothing before returns for
    the same text: a command changes the RIBs by ITS routes, not by what an earlier (refused) line left behind."""
    out = []
    for (fn, act, words, _result, k), content in zip(res['parse_log'], res.get('parse_content', [])):
        if fn == 5 or not 0 <= k < len(res['commands']):  # api_attributes takes the peers of the command: outside this oracle
            continue
        key = json.dumps([case['version'] if fn == 6 else 0, fn, act, words])
        if key not in _ALONE:
            _ALONE[key] = apirig.parse_alone(case['version'], specs_of(case), fn, act, words)
        if content != _ALONE[key] and (content or _ALONE[key]):
            out.append({'what': 'parse-history', 'line': -1, 'detail': f'command {res["commands"][k]!r}: the parser returned {len(content or [])} route(s) {content}, the same text parsed by a daemon that parsed nothing before gives {_ALONE[key]}'})
    return out


# ---------------------------------------------------------------------------------------------
# the model


def hexs(s: str | bytes) -> str:
    b = s.encode('latin-1') if isinstance(s, str) else s
    return b.hex() or 'e'


def probe_quirks() -> dict:
    """Which of the known defects the tree under test shows (so that the model is run with the same)."""
    specs = NBR_SETS['default']

    def run(version: int, text: str) -> dict:
        return run_real({'version': version, 'nbrs': 'default', 'lines': [{'text': text, 'eol': '\n', 'tag': {'kind': 'probe'}}], 'tail': ''}, [])

    r = run(4, f'neighbor * peer-as {MISS["peer-as"]} announce route 10.0.1.0/24 next-hop 192.0.2.1')
    f13 = bool(changed(r['before'][0], r['after'][0]))
    r = run(6, f'peer {MISS_IP} announce route 10.0.1.0/24 next-hop 192.0.2.1')
    f21 = bool(changed(r['before'][0], r['after'][0]))
    r = run(6, f'peer {specs[1]["peer"]} announce watchdog dog')
    wd = bool(changed(r['before'][0], r['after'][0]) - {1})
    c = oversize_probe(16)
    a, b = run_real(c, c['cuts']), run_real(c, c['cuts2'])
    strict = a['commands'] == b['commands'] and a['dead'] == b['dead']
    return {'wildcardShort': f13, 'v6Fallback': f21, 'watchdogAll': wd, 'strictReader': strict}


def model_lines(case: dict, res: dict, quirks: dict, nexec: int) -> list[str]:
    q = ''.join('1' if quirks[k] else '0' for k in ('wildcardShort', 'v6Fallback', 'watchdogAll', 'strictReader'))
    lines = [f'api init {case["version"]} {int(case.get("ack", True))} {q} {case.get("max", MAX)} {hexs(apirig.SERVICE)}']
    lines += res['nbr_lines']
    for name, i in res['wdnames'].items():
        lines.append(f'api wdname {hexs(name)} {i}')
    for idx, rows in enumerate(res['watchdogs']):
        for (n, f, a, h), wid, w in rows:
            lines.append(f'api wdadd {idx} {n}:{f}:{a}:{h}:{a} {wid} {int(w)}')
    seen: dict = {}
    for fn, act, words, result, _k in res['parse_log']:
        key = (fn, act, tuple(words))
        val = 'none' if result is None else (','.join(':'.join(str(x) for x in r) for r in result) or '-')
        if key in seen:
            # the same words parsed to something else later in the stream: the parser is not a function of its
            # arguments on this tree — `parse_history_fails` reports that with the case; the model is given the first
            continue
        seen[key] = val
        lines.append(f'api parse {fn} {act} {",".join(hexs(w) for w in words) or "-"} {val}')
    return lines


def model_script(case: dict, res: dict, quirks: dict) -> list[str]:
    n = len(res['commands'])
    lines = model_lines(case, res, quirks, n)
    lines += [f'api feed {c.hex() or "-"}' for c in res['chunks']]
    lines.append('api ribs')
    for _ in range(n + 1):
        lines += ['api exec', 'api ribs']
    return lines


def model_result(res: dict, lines: list[str], out: list[str]) -> dict:
    bad = [(l, o) for l, o in zip(lines, out) if o == 'bad-op']
    if bad:
        raise common.Infra(f'driver refused: {bad[0][0]}')
    n = len(res['commands'])
    k = len(lines) - (len(res['chunks']) + 1 + 2 * (n + 1))
    feeds = out[k : k + len(res['chunks'])]
    k += len(res['chunks'])
    initial = out[k].split(' | ') if out[k] != '-' else []
    k += 1
    cmds: list[str] = []
    dead = False
    for f in feeds:
        w = f.split(' ')
        dead = w[0] == 'dead'
        cmds += ['' if x == 'e' else bytes.fromhex(x).decode('latin-1') for x in w[2:]]
    execs = []
    for j in range(n + 1):
        e, r = out[k + 2 * j], out[k + 2 * j + 1]
        if e == 'none':
            execs.append(None)
            continue
        w = e.split(' ')
        execs.append({'cmd': '' if w[0] == 'e' else bytes.fromhex(w[0]).decode('latin-1'), 'replies': w[1], 'modelled': w[2] == '1', 'version': int(w[3]), 'ack': w[4] == '1', 'group': w[5], 'ribs': r.split(' | ')})
    return {'commands': cmds, 'dead': dead, 'initial': initial, 'execs': execs}


def run_model(case: dict, res: dict, quirks: dict) -> dict:
    lines = model_script(case, res, quirks)
    return model_result(res, lines, common.run_driver('drv_api', lines))


def run_models(batch: list[tuple[dict, dict]], quirks: dict) -> list[dict]:
    """One driver process for a batch of cases (`api init` resets the driver state)."""
    scripts = [model_script(c, r, quirks) for c, r in batch]
    out = common.run_driver('drv_api', [l for sc in scripts for l in sc])
    mods, k = [], 0
    for (c, r), sc in zip(batch, scripts):
        mods.append(model_result(r, sc, out[k : k + len(sc)]))
        k += len(sc)
    return mods


def compare(case: dict, res: dict, mod: dict) -> str | None:
    if mod['commands'] != res['commands']:
        return f'command sequence: impl {res["commands"]!r} model {mod["commands"]!r}'
    if mod['dead'] != res['dead']:
        return f'helper killed: impl {res["dead"]} model {mod["dead"]}'
    if res['commands'] and mod['initial'] != res['before'][0]:
        return f'initial RIBs: impl {res["before"][0]} model {mod["initial"]}'
    modelled = True
    for k, c in enumerate(res['commands']):
        e = mod['execs'][k]
        if e is None or e['cmd'] != c:
            return f'command {k}: impl {c!r} model {e and e["cmd"]!r}'
        if res['dead']:
            # the helper was killed (oversized line): which of the already queued commands still get
            # their replies written, and whether a group buffer survives, depends on the scheduling
            continue
        if not e['modelled']:
            modelled = False
        if not modelled:
            continue
        if e['replies'] != terminal(res['replies'][k]):
            return f'replies to command {k} {c!r}: impl {terminal(res["replies"][k])} {res["replies"][k]!r} model {e["replies"]}'
        if e['ribs'] != res['after'][k]:
            d = [(i, a, b) for i, (a, b) in enumerate(zip(res['after'][k], e['ribs'])) if a != b]
            return f'RIBs after command {k} {c!r}: (neighbor, impl, model) {d}'
    if mod['execs'][len(res['commands'])] is not None:
        return 'model has more commands queued than the implementation executed'
    if modelled and res['commands'] and not res['dead']:
        last = mod['execs'][len(res['commands']) - 1]
        if last['version'] != res['version_after'] or last['ack'] != bool(res['ack_after']):
            return f'final api version / ack: impl {res["version_after"]}/{res["ack_after"]} model {last["version"]}/{last["ack"]}'
    return None


# ---------------------------------------------------------------------------------------------
# shrinking and canonical forms


def single_line_case(version: int, nbrs: Any, sel: list[dict], syntax: str, action: str) -> dict:
    import random

    text = f'{render_selector(random.Random(0), sel, syntax)} {action}'
    return {'version': version, 'ack': True, 'nbrs': nbrs, 'lines': [{'text': text, 'eol': '\n', 'tag': {'kind': 'sel', 'sel': sel, 'syntax': syntax, 'action': action, 'ack_on': True, 'version': version}}], 'tail': '', 'cuts': [], 'cuts2': [], 'spin': 0}


def selector_fails(case: dict) -> bool:
    try:
        res = run_real(case, [])
    except Exception:
        return False
    return any(f['what'] == 'selector' for f in oracle(case, res))


def selector_shape(specs: list[dict], sel: list[dict]) -> list:
    """Addresses and values abstracted: IP+ an address some neighbor has, IP- nobody's, K+/K- a term
    that some / no neighbor (with that address) matches."""
    addrs = {s['peer'] for s in specs}
    shape = []
    for d in sel:
        row = ['*' if d['ip'] == '*' else 'IP+' if d['ip'] in addrs else 'IP-']
        for k, v in d['terms']:
            hit = any((d['ip'] == '*' or d['ip'] == s['peer']) and spec_value(s, k) == v for s in specs)
            row.append('K+' if hit else 'K-')
        shape.append(row)
    return shape


_shrunk: dict = {}


def shrink_selector(case: dict, line: int) -> tuple[dict, dict]:
    """Minimal single-command case that still changes a neighbor outside the selector; its canonical form."""
    tag = case['lines'][line]['tag']
    version, nbrs = tag['version'], case.get('nbrs', 'default')
    specs = specs_of(case)
    sel, syntax, action = copy.deepcopy(tag['sel']), tag['syntax'], tag['action']
    mk = lambda s, sy, a, v=version: single_line_case(v, nbrs, s, sy, a)
    # 1. the action: the watchdog handlers are a class of their own (they ignore the selection),
    #    everything else that changes a RIB is a route command; take the plainest one that fails on
    #    a fresh daemon (the original may depend on what earlier commands did, e.g. a watchdog
    #    that had been withdrawn before)
    action_class = 'watchdog' if 'watchdog' in action else 'route'
    if action_class == 'watchdog':
        candidates = ['announce watchdog dog', 'withdraw watchdog dog', 'announce watchdog cat', 'withdraw watchdog cat']
    else:
        candidates = ['announce route 10.0.1.0/24 next-hop 192.0.2.1', 'announce route 2001:db8:6::/48 next-hop 2001:db8::1']
    for a in candidates + [action]:
        if selector_fails(mk(sel, syntax, a)):
            action = a
            break
    else:
        # not reproducible as a single command on a fresh daemon (depends on earlier commands): the
        # whole case is the replay; the canonical form keeps the class of the command only
        if action_class == 'watchdog':
            return case, {'action': 'watchdog'}
        return case, {'selector': selector_shape(specs, sel), 'action': 'route', 'needs-history': True}
    progress = True
    while progress:
        progress = False
        for i in range(len(sel)):  # drop a definition
            if len(sel) > 1:
                cand = sel[:i] + sel[i + 1 :]
                if selector_fails(mk(cand, syntax, action)):
                    sel, progress = cand, True
                    break
        if progress:
            continue
        for i, d in enumerate(sel):  # drop a term / make a term match nobody
            for j in range(len(d['terms'])):
                cand = copy.deepcopy(sel)
                del cand[i]['terms'][j]
                if not (cand[i]['ip'] == '*' and syntax == 'peer' and cand[i]['terms']) and selector_fails(mk(cand, syntax, action)):
                    sel, progress = cand, True
                    break
                cand = copy.deepcopy(sel)
                if cand[i]['terms'][j][1] != MISS[cand[i]['terms'][j][0]]:
                    cand[i]['terms'][j][1] = MISS[cand[i]['terms'][j][0]]
                    if selector_fails(mk(cand, syntax, action)):
                        sel, progress = cand, True
                        break
            if progress:
                break
        if progress:
            continue
        if action_class == 'route':
            for i, d in enumerate(sel):  # an address nobody has
                if d['ip'] not in ('*', MISS_IP):
                    cand = copy.deepcopy(sel)
                    cand[i]['ip'] = MISS_IP
                    if selector_fails(mk(cand, syntax, action)):
                        sel, progress = cand, True
                        break
    # 2. simplest syntax that still fails
    for sy in (['neighbor'] if syntax.startswith('neighbor') else ['peer']):
        if sy != syntax and not (sy == 'peer' and (len(sel) > 1 or (sel[0]['ip'] == '*' and sel[0]['terms']))) and selector_fails(mk(sel, sy, action)):
            syntax = sy
    # 3. default neighbor set when possible
    small = mk(sel, syntax, action)
    if nbrs != 'default':
        cand = copy.deepcopy(small)
        cand['nbrs'] = 'default'
        if selector_fails(cand):
            small = cand
            specs = NBR_SETS['default']
    shape = selector_shape(specs, sel)
    canon = {'action': action_class} if action_class == 'watchdog' else {'selector': shape, 'action': action_class}
    return small, canon


def shrink_lines(case: dict, bad) -> dict:
    """Delta debugging over the lines of a case, then the coarsest chunking that still shows it.  A failure that needs
    a long stream (a burst of a thousand lines) is costly to re-run: the search stops after 25 s and reports what it has."""
    cur = copy.deepcopy(case)
    n = 2
    stop = time.time() + 25
    while len(cur['lines']) >= 2 and time.time() < stop:
        chunk = max(1, len(cur['lines']) // n)
        reduced = False
        for i in range(0, len(cur['lines']), chunk):
            cand = copy.deepcopy(cur)
            cand['lines'] = cur['lines'][:i] + cur['lines'][i + chunk :]
            cand['cuts'], cand['cuts2'] = [], []
            if time.time() > stop:
                break
            if cand['lines'] and bad(cand):
                cur, reduced = cand, True
                n = max(n - 1, 2)
                break
        if not reduced:
            if chunk == 1:
                break
            n = min(n * 2, len(cur['lines']))
    for key, val in (('cuts', []), ('tail', ''), ('spin', 0)):
        cand = copy.deepcopy(cur)
        cand[key] = val
        if bad(cand):
            cur = cand
    return cur


# ---------------------------------------------------------------------------------------------
# reader probes (boundary lengths around MAX_COMMAND_SIZE; malformed streams)


def raw_case(version: int, data: bytes, cuts: list[int], cuts2: list[int] | None = None, why: str = '', mx: int | None = None) -> dict:
    c = {'version': version, 'ack': True, 'nbrs': 'two', 'raw_hex': data.hex(), 'cuts': cuts, 'cuts2': cuts2 or [], 'spin': 0, 'why': why}
    if mx is not None:
        c['max'] = mx
    return c


def oversize_probe(mx: int = MAX, read: int = 16384) -> dict:
    """One line of MAX + read/3 bytes between two commands, delivered (cuts) so that the buffer
    holds exactly MAX bytes when the read bringing the newline arrives, and (cuts2) so that it
    holds MAX + 1 bytes before the newline is seen."""
    extra = max(2, read // 3)
    line = b'#' + b'x' * (mx + extra - 1)
    data = b'# first\n' + line + b'\n# after\n'
    return raw_case(6, data, [8, 8 + mx], [8, 8 + mx + 1], why='oversize', mx=None if mx == MAX else mx)


def gen_raw(rng) -> dict:
    """Malformed / adversarial byte streams for the reader alone (ASCII), some with a small
    MAX_COMMAND_SIZE (set on the Processes instance) so that the oversize rule is exercised."""
    x = rng.random()
    mx = rng.choice([None, None, 16, 64, 200])
    if x < 0.4:
        n = rng.randrange(1, 400)
        data = bytes(rng.choice([10, 10, 13, 32, 9, 35, 91, 93, 40, 41, 44, 59] + list(range(33, 127))) for _ in range(n))
    elif x < 0.7:
        parts = []
        for _ in range(rng.randrange(1, 8)):
            parts.append(rng.choice([b'', b' ', b'debug x', b'debug', b' debug y', b'#', b'\r', b'a[b]c(d)e,f', b'[[', b',,', b'\x0b', b'\x0c \x1c', b'x' * rng.choice([1, 15, 16, 17, 63, 64, 65, 100, 199, 200, 201, 5000])]))
        data = rng.choice([b'\n', b'\r\n']).join(parts) + rng.choice([b'', b'\n'])
    elif x < 0.8 and mx:
        return {**oversize_probe(mx, rng.choice([8, 16, 40])), 'version': rng.choice([4, 6])}
    else:
        data = bytes(rng.randrange(0, 128) for _ in range(rng.randrange(1, 200)))
    n = len(data)
    return raw_case(rng.choice([4, 6]), data, gen_cuts(rng, n), gen_cuts(rng, n), why='raw', mx=mx)


# ---------------------------------------------------------------------------------------------
# run


def load_corpus() -> list[dict]:
    d = common.VERIF / 'corpus' / PROP
    return [json.loads(f.read_text()) for f in sorted(d.glob('*.json'))] if d.exists() else []


def shape_of(case: dict) -> list:
    if 'lines' not in case:
        return ['raw', len(case['raw_hex']) // 2, len(case['cuts'])]
    return [case['version'], case.get('nbrs'), [(l['tag']['kind'], l['tag'].get('syntax'), len(l['tag'].get('sel') or [])) for l in case['lines']], len(case['cuts'])]


def eval_case(ctx: Ctx, case: dict, quirks: dict, seen: set, origin: str, pending: list) -> None:
    data = case_bytes(case)
    res = run_real(case, case.get('cuts', []))
    ctx.evaluations += 1
    ctx.count('origin:' + origin)
    ctx.count(f'api-v{case["version"]}')
    ctx.count('chunks:%s' % ('1' if len(res['chunks']) == 1 else '2-9' if len(res['chunks']) < 10 else '10+'))
    for l in case.get('lines', []):
        ctx.count('line:' + l['tag']['kind'])
        if l['tag'].get('syntax'):
            ctx.count('syntax:' + l['tag']['syntax'])
    # --- chunking independence on the implementation
    res2 = run_real(case, case.get('cuts2', []))
    same = same_outcome(res, res2)
    if not same:
        ctx.count('oracle-fail:chunking')
        lens = [len(x) for x in data.split(b'\n')]
        non_ascii = any(b >= 128 for b in data)
        if max(lens) > case.get('max', MAX):
            canon = {'what': 'line longer than MAX_COMMAND_SIZE'}
        elif non_ascii:
            canon = {'what': 'non-ascii'}
        else:
            canon = {'what': 'other', 'case': shape_of(case)}
        key = json.dumps(canon, sort_keys=True)
        if key not in seen and not non_ascii:
            seen.add(key)
            ctx.failures.append(Failure('reader-chunking', canon, {'case': case}, f'same bytes, two chunkings: commands executed {len(res["commands"])} vs {len(res2["commands"])}, helper killed {res["dead"]} vs {res2["dead"]}'))
    # --- the other clauses
    fails = oracle(case, res)
    if not res['dead'] and res['stream'] != [w for w in res['written'] if w]:
        # what the helper reads from its pipe is what was written for it, line by line, in that order
        got, want = res['stream'], [w for w in res['written'] if w]
        i = next((k for k, (a, b) in enumerate(zip(got, want)) if a != b), min(len(got), len(want)))
        fails.append({'what': 'order', 'line': -1, 'detail': f'the helper reads {got[i:i+4]} where ExaBGP answered {want[i:i+4]} (line {i} of {len(want)}; helper stalled: {bool(case.get("stall"))})'})
    fails += parse_history_fails(case, res)
    for k in unparsed_changes(res):
        fails.append({'what': 'nochange', 'line': -1, 'detail': f'command {res["commands"][k]!r}: the parser refused it, yet a RIB changed'})
    nontrivial = bool(res['commands']) and len(res['chunks']) >= 2 and any(changed(b, a) for b, a in zip(res['before'], res['after'])) and any('e' in terminal(r) for r in res['replies'])
    if nontrivial:
        ctx.nontrivial(shape_of(case))
    if any(changed(b, a) for b, a in zip(res['before'], res['after'])):
        ctx.count('case-with-rib-change')
    ctx.sample({'version': case['version'], 'chunks': [c.decode('latin-1') for c in res['chunks']][:6], 'commands': res['commands'][:6], 'replies': [terminal(r) for r in res['replies']][:6], 'changed': [sorted(changed(b, a)) for b, a in zip(res['before'], res['after'])][:6]}, cap=3)
    for f in fails:
        ctx.count('oracle-fail:' + f['what'])
        if f['what'] == 'selector' and f['line'] >= 0:
            tag = case['lines'][f['line']]['tag']
            pre = json.dumps([tag['version'], case.get('nbrs'), tag['syntax'], selector_shape(specs_of(case), tag['sel']), tag['action'].split(' ')[:2]])
            if pre not in _shrunk:
                _shrunk[pre] = shrink_selector(case, f['line'])
            small, canon = _shrunk[pre]
            kind = 'selector'
            again = [g for g in oracle(small, run_real(small, [])) if g['what'] == 'selector'] if small is not case else []
            if again:
                f = dict(f, detail=f'{small["lines"][0]["text"]!r}: ' + again[0]['detail'])
        else:
            small, canon, kind = case, {'what': f['what'], 'line': case['lines'][f['line']]['text'] if f['line'] >= 0 else '', 'version': case['version']}, 'api-' + f['what']
            if f['what'] in ('ack', 'nochange', 'order', 'parse-history') and 'lines' in case:
                what = f['what']
                small = shrink_lines(case, lambda c: any(g['what'] == what for g in _all_fails(c, run_real(c, c.get('cuts', [])))))
                canon = {'what': what, 'lines': [nospace(l['text']) for l in small['lines']], 'version': small['version']}
        key = json.dumps([kind, canon], sort_keys=True)
        if key in seen:
            continue
        seen.add(key)
        ctx.failures.append(Failure(kind, canon, {'case': small}, f'{f["what"]}: {f["detail"]}'))
    # --- correspondence with the model: batched by the caller
    if ctx.driver_ok and case.get('model', True):
        pending.append((case, res))


def flush_models(ctx: Ctx, pending: list, quirks: dict) -> None:
    if not pending:
        return
    mods = run_models(pending, quirks)
    for (case, res), mod in zip(pending, mods):
        diff = compare(case, res, mod)
        if any(e is not None and not e['modelled'] for e in mod['execs']):
            ctx.count('case-with-unmodelled-command')
        if diff:
            ctx.count('disagreement')
            small = case
            if len(ctx.disagreements) < 3 and 'lines' in case:

                def bad(c: dict) -> bool:
                    r = run_real(c, c.get('cuts', []))
                    return compare(c, r, run_model(c, r, quirks)) is not None

                small = shrink_lines(case, bad)
                r = run_real(small, small.get('cuts', []))
                diff = compare(small, r, run_model(small, r, quirks)) or diff
            ctx.disagreements.append(Disagreement('api', small, None, diff))
    pending.clear()


def run(ctx: Ctx) -> None:
    rng = ctx.rng
    quirks = probe_quirks()
    ctx.extra['quirks_of_the_tree'] = quirks
    ctx.notes.append(f'defects present in the tree (probed on the real code, the model is run with the same switches): {quirks}')
    ctx.rule = (
        'a case is a byte stream of API lines (v4 and v6 syntax, selectors in 4 syntaxes over 4 neighbor sets, groups, ack toggles, api version switches, '
        'unknown and unparsable commands, whitespace noise, CRLF, debug lines, partial last line) written into the pipe of a real Reactor under two chunkings; '
        'non-trivial = at least one command executed, the stream cut into >= 2 reads, at least one RIB changed and at least one error reply; '
        'distinct = distinct (api version, neighbor set, per-line (kind, selector syntax, number of definitions), number of cuts)'
    )
    seen: set = set()
    cases: list[tuple[dict, str]] = [(c, 'corpus') for c in load_corpus()]
    cases.append(({**oversize_probe(), 'model': ctx.tier == 'thorough'}, 'oversize-probe'))
    for n in ((1500,) if ctx.tier == 'quick' else (1001, 2500, 6000)):
        cases.append((gen_burst(rng, n), 'burst'))
    nrandom = 1400 if ctx.tier == 'quick' else 20000
    nraw = 350 if ctx.tier == 'quick' else 4000
    for i in range(nrandom):
        cases.append((gen_case(rng, ctx.tier), 'random'))
        if i % max(1, nrandom // nraw) == 0:
            cases.append((gen_raw(rng), 'raw'))
    pending: list = []
    stop = time.time() + (75 if ctx.tier == 'quick' else 780)  # leave room for build, audit and leanchecker
    for case, origin in cases:
        if ctx.time_left() < 5 or time.time() > stop:
            ctx.notes.append(f'budget reached after {ctx.evaluations} cases')
            break
        eval_case(ctx, case, quirks, seen, origin, pending)
        if len(pending) >= 40:
            flush_models(ctx, pending, quirks)
    flush_models(ctx, pending, quirks)


def replay(path: str) -> int:
    data = json.loads(open(path).read())
    case = data['replay']['case'] if 'replay' in data else data
    res = run_real(case, case.get('cuts', []))
    print('api version:', case['version'], ' neighbors:', [s['peer'] + ('' if s['attached'] else ' (other process)') for s in specs_of(case)])
    for k, c in enumerate(res['commands']):
        print(f'{k}: {c[:200]!r}\n    replies {res["replies"][k]!r}\n    changed neighbors {sorted(changed(res["before"][k], res["after"][k]))}')
    fails = _all_fails(case, res)
    res2 = run_real(case, case.get('cuts2', []))
    if not same_outcome(res, res2):
        fails.append({'what': 'chunking', 'line': -1, 'detail': f'{len(res["commands"])} commands / killed={res["dead"]} under the first chunking, {len(res2["commands"])} / killed={res2["dead"]} under the second'})
    for f in fails:
        print('FAILS', f)
    print('holds :', not fails)
    return 1 if fails else 0
