"""C13 - API events stay well-formed whatever a peer sends.

(a) function correspondence: the real escaping helpers (`json.dumps` as `Response.JSON._string`
    uses it, `text.oneline`) against the Lean model on arbitrary code points, and the Lean string
    lexer against Python's `json.loads`;
(b) THE VERIFIED PARSER IS RUN ON THE IMPLEMENTATION'S OUTPUT: messages that decode (seeds from
    qa/encoding, qa/decoding and every route of etc/exabgp/*.conf; every registry; hostile
    content in every peer-chosen string / opaque field) go through the real
    `Message.unpack -> Processes.message/... -> Response.* -> Processes.write` chain; every JSON
    record read from the pipe must be accepted by `drv_json` (Lean `parseLine`: one line, strict
    RFC 8259, no duplicate key at any depth), carry the documented envelope, and have the key
    skeleton of its benign twin; every text record must have the expected number of lines, all of
    them printable ASCII;
(c) marker strings placed in hostile fields may only come back inside string leaves.
"""

from __future__ import annotations

import json
import os
import struct
import subprocess
import threading
import time
from typing import Any, Callable, Iterable

from harness import common
from harness.common import Ctx, Disagreement, Failure
from harness import jsonrig as R

THEOREM_MODULES = ['ExaModel.Props.C13']
DRIVERS = ['drv_json']
TABLES = ['printable']
PROP = 'C13'
ASSUMPTIONS = [
    'the ~140 hand-written json() producers of /repo are not modelled: they are covered by running the verified parser on their output for the generated messages (sampled, not proved)',
    'JSON numbers are compared as literals; "time", "pid", "ppid", "counter" and "host" are checked for presence and type only',
    'str.isprintable is the table of the CPython that runs the check (Unicode 15.0), regenerated on every run',
    'a message "decodes" when Message.unpack returns without raising under one of the session shapes of the rig (all families with/without ADD-PATH, 2-byte ASN, iBGP, the neighbor of each configuration file)',
    'the reason of a down event is composed by ExaBGP (codes and its own words): it is exercised with hostile ASCII only (control characters, quotes, line breaks)',
    'text records: the property is read as line count + printable ASCII + expected line prefix; spaces and brackets inside peer text are not escaped by the text format and are not counted as forging',
]
TRUSTED_EXTRA = [
    'Python json.loads is used only to diff against the Lean parser and to name the path of a duplicate key; acceptance is decided by the Lean parser',
]

EVENT_OF = {1: 'open', 2: 'update', 3: 'notification', 4: 'keepalive', 5: 'refresh', 6: 'operational'}


# ---------------------------------------------------------------------------------------------
# Lean driver (own runner: large records need a deep stack in the recursive descent)


class LeanProc:
    """One `drv_json` process for the whole run (started before the heap grows; stack limit raised
    by the shell so that records of any size fit the recursive descent)."""

    def __init__(self) -> None:
        path = common.BIN / 'drv_json'
        if not path.exists():
            raise common.Infra(f'driver not built: {path}')
        self.p = subprocess.Popen(['/bin/sh', '-c', 'ulimit -s $(ulimit -H -s) 2>/dev/null; exec "$0"', str(path)], stdin=subprocess.PIPE, stdout=subprocess.PIPE, text=True, bufsize=1 << 16)

    def ask(self, lines: list[str]) -> list[str]:
        if not lines:
            return []

        def feed() -> None:
            try:
                self.p.stdin.write('\n'.join(lines) + '\n')
                self.p.stdin.flush()
            except (BrokenPipeError, ValueError):
                pass

        t = threading.Thread(target=feed, daemon=True)
        t.start()
        out = []
        for _ in lines:
            o = self.p.stdout.readline()
            if not o:
                raise common.Infra(f'drv_json died after {len(out)} of {len(lines)} answers (rc={self.p.poll()})')
            out.append(o.rstrip('\n'))
        t.join()
        return out

    def close(self) -> None:
        try:
            self.p.stdin.close()
            self.p.wait(timeout=5)
        except Exception:  # noqa: BLE001
            self.p.kill()


_LEAN: LeanProc | None = None


def lean(lines: list[str]) -> list[str]:
    global _LEAN
    if _LEAN is None or _LEAN.p.poll() is not None:
        _LEAN = LeanProc()
    return _LEAN.ask(lines)


def hx(b: bytes) -> str:
    return b.hex() or '-'


def cps(s: Iterable[int]) -> str:
    l = [str(c) for c in s]
    return ','.join(l) if l else '-'


# ---------------------------------------------------------------------------------------------
# (a) escaping helpers against the model


def _parses_to(text: str, want: str) -> bool:
    try:
        return json.loads(text) == want
    except Exception:  # noqa: BLE001
        return False


def corr_escapers(ctx: Ctx) -> None:
    from exabgp.reactor.api.response.json import JSON
    from exabgp.reactor.api.response.text import oneline

    enc = JSON('6.0.0')
    rng = ctx.rng
    strings: list[str] = []
    # every code point of U+0000..U+00FF alone, then the whole code space in runs
    strings += [chr(c) for c in range(0x100)]
    step = 4096
    top = 0x110000 if ctx.tier == 'thorough' else 0x30000
    for lo in range(0, top, step):
        strings.append(''.join(chr(c) for c in range(lo, min(lo + step, 0x110000))))
    if ctx.tier != 'thorough':
        for lo in (0xE0000, 0xF0000, 0x10F000):
            strings.append(''.join(chr(c) for c in range(lo, lo + step)))
    # surrogates as Python allows them: lone, reversed, a proper pair as two code points
    strings += ['\ud800', '\udfff', '\udc00\ud800', '😀', 'a\ud83d', '\ude00b', '\ud83d😀\ude00']
    strings += R.HOSTILE_TEXT
    pool = [0, 8, 9, 10, 12, 13, 0x1F, 0x20, 0x22, 0x27, 0x2F, 0x5C, 0x7E, 0x7F, 0x80, 0x85, 0x9F, 0xA0, 0xAD, 0xE9, 0x2028, 0x2029, 0xD7FF, 0xD800, 0xDBFF, 0xDC00, 0xDFFF, 0xE000, 0xFFFD, 0xFFFF, 0x10000, 0x1F600, 0xE0001, 0x10FFFF]
    for _ in range(300 if ctx.tier == 'quick' else 5000):
        n = rng.randrange(0, 24)
        strings.append(''.join(chr(rng.choice(pool) if rng.random() < 0.7 else rng.randrange(0x110000)) for _ in range(n)))
    queries: list[str] = []
    for s in strings:
        c = cps(ord(ch) for ch in s)
        queries += [f'json quote {c}', f'json oneline {c}', f'json onelinefixed {c}']
    t0 = time.time()
    out = lean(queries)
    which_oneline = {'code': 0, 'fixed': 0}
    unq: list[tuple[str, str]] = []
    for i, s in enumerate(strings):
        q, o, of = out[3 * i : 3 * i + 3]
        ctx.evaluations += 1
        ctx.count('escaper-strings')
        real_q = enc._string(s)  # the very call the encoder makes for every string value
        if real_q != json.dumps(s):
            # the model's `quote` is proved equal to what json.dumps writes (ASCII, every control character escaped): a
            # string value written any other way is a record the consumer may not be able to read or the writer to send
            canon = {'stream': 'escaper', 'ascii': real_q.isascii(), 'parses': _parses_to(real_q, s)}
            if not any(f.canon == canon for f in ctx.failures):
                ctx.failures.append(Failure('escaper', canon, {'escaper': True, 'cps': [ord(ch) for ch in s][:64]}, f'JSON._string({s[:24]!r}) = {real_q[:60]!r}, json.dumps gives {json.dumps(s)[:60]!r}' + ('' if real_q.isascii() else ': not ASCII, Processes.write() encodes every event as ASCII')))
            continue
        if q != hx(real_q.encode('ascii')):
            ctx.disagreements.append(Disagreement('quote', {'cps': [ord(ch) for ch in s][:40]}, q[:200], hx(real_q.encode('ascii'))[:200]))
        real_o = cps(ord(ch) for ch in oneline(s))
        if real_o == o:
            which_oneline['code'] += 1
        if real_o == of:
            which_oneline['fixed'] += 1
        if real_o != o and real_o != of:
            ctx.disagreements.append(Disagreement('oneline', {'cps': [ord(ch) for ch in s][:40]}, o[:200], real_o[:200]))
        unq.append((real_q, s))
        if len(s) <= 24 and any(ord(ch) < 0x20 or ord(ch) > 0x7E or ch in '"\\' for ch in s):
            ctx.nontrivial(['esc', [ord(ch) for ch in s]])
    # the lexer against Python's reader, on what json.dumps wrote and on hand-made escapes
    extra = ['"\\u00e9\\ud83d\\ude00"', '"\\ud83d"', '"\\ude00\\ud83d"', '"\\/\\b\\f\\n\\r\\t"', '"\\u0000"', '"\\uD83D\\uDE00"', '"a\\u005Cb"', '"\\x41"', '"\\u12"', '"\\"', '"a\nb"', '"\t"', '"\\u00E9\\u00e9"']
    for _ in range(200 if ctx.tier == 'quick' else 3000):
        n = rng.randrange(0, 8)
        body = ''.join(rng.choice(['\\u%04x' % rng.choice([0xD800, 0xDBFF, 0xDC00, 0xDFFF, 0x41, 0x22, 0x5C, 0x0A, rng.randrange(0x10000)]), '\\n', '\\"', '\\\\', 'a', 'é', '\\/', '\\u00']) for _ in range(n))
        extra.append('"' + body + '"')
    uq = [f'json unquote {hx(q.encode("utf-8"))}' for q, _ in unq] + [f'json unquote {hx(e.encode("utf-8"))}' for e in extra]
    # the driver takes code points below 256 as bytes: feed only ASCII-clean tokens through it
    res = lean([u for u in uq])
    k = 0
    for q, s in unq:
        r = res[k]
        k += 1
        want = 'ok ' + cps(ord(ch) for ch in json.loads(q))
        if r != want:
            ctx.disagreements.append(Disagreement('unquote', {'token': q[:80]}, r[:200], want[:200]))
    for e in extra:
        r = res[k]
        k += 1
        ctx.evaluations += 1
        ctx.count('lexer-tokens')
        if any(ord(ch) > 0x7F for ch in e):
            continue  # bytes of UTF-8 are not code points: not comparable through the byte interface
        try:
            want = 'ok ' + cps(ord(ch) for ch in json.loads(e))
        except ValueError:
            want = 'bad'
        if r != want:
            ctx.disagreements.append(Disagreement('unquote', {'token': e[:80]}, r[:200], want[:200]))
    ctx.extra['oneline_model_matched'] = which_oneline
    ctx.extra['escaper_strings'] = len(strings)
    ctx.notes.append(f'escapers: {len(strings)} strings ({sum(len(s) for s in strings)} code points) in {time.time() - t0:.1f}s; text.oneline agrees with the model of the code on {which_oneline["code"]} and with the repaired model on {which_oneline["fixed"]}')


# ---------------------------------------------------------------------------------------------
# (b) cases


class Case:
    """One input of the chain. `body`/`twin` are message bodies (the twin has the hostile content
    replaced by `x`); `ev`: message | packets | notify | state."""

    def __init__(self, gen: str, sess: str, ev: str, msg_id: int = 0, body: bytes = b'', twin: bytes | None = None, hole: str = '', arg: Any = None, twin_arg: Any = None, consolidate: bool = False, note: str = '', encs: list[str] | None = None) -> None:
        self.gen, self.sess, self.ev, self.msg_id, self.body, self.twin = gen, sess, ev, msg_id, body, twin
        self.hole, self.arg, self.twin_arg, self.consolidate, self.note = hole, arg, twin_arg, consolidate, note
        self.encs = list(encs) if encs else list(R.ENCODERS)
        self.shape: Any = None
        self.twin_shape: Any = None

    def to_json(self) -> dict:
        return {'gen': self.gen, 'sess': self.sess, 'ev': self.ev, 'msg_id': self.msg_id, 'body': self.body.hex(), 'twin': None if self.twin is None else self.twin.hex(), 'hole': self.hole, 'arg': self.arg, 'twin_arg': self.twin_arg, 'consolidate': self.consolidate, 'note': self.note, 'encs': self.encs}

    @staticmethod
    def from_json(d: dict) -> 'Case':
        return Case(d['gen'], d['sess'], d['ev'], d.get('msg_id', 0), bytes.fromhex(d.get('body', '')), None if d.get('twin') is None else bytes.fromhex(d['twin']), d.get('hole', ''), d.get('arg'), d.get('twin_arg'), d.get('consolidate', False), d.get('note', ''), d.get('encs'))


class Seeds:
    def __init__(self, rig: R.Rig, ctx: Ctx | None) -> None:
        self.rig = rig
        self.msgs: list[tuple[str, str, int, bytes]] = []  # (origin, session, msg_id, body)
        self.attr_samples: dict[int, list[tuple[int, bytes]]] = {}
        self.mp_samples: dict[tuple[int, int], list[bytes]] = {}
        self.ls_samples: dict[int, list[bytes]] = {}
        self.cap_samples: dict[int, list[bytes]] = {}
        stats = {'ci': 0, 'decoding': 0, 'conf': 0, 'undecodable': 0}
        for origin, mid, body in R.seeds_ci() + R.seeds_decoding():
            placed = False
            for sess in ('all', 'all-addpath', 'asn2'):
                try:
                    rig.decode(sess, mid, body)
                except Exception:  # noqa: BLE001
                    continue
                self.msgs.append((origin, sess, mid, body))
                placed = True
            stats['ci' if origin.endswith('.ci') else 'decoding'] += 1
            if not placed:
                stats['undecodable'] += 1
        conf, cstats = R.seeds_conf()
        for i, (origin, nb, neg, body) in enumerate(conf):
            name = f'conf:{origin}:{i}'
            rig.add_session(name, nb, neg)
            try:
                rig.decode(name, 2, body)
            except Exception:  # noqa: BLE001
                stats['undecodable'] += 1
                continue
            self.msgs.append((origin, name, 2, body))
            stats['conf'] += 1
        stats.update(cstats)
        self.stats = stats
        for origin, sess, mid, body in self.msgs:
            if mid == 2:
                sp = R.split_attributes(body)
                if not sp:
                    continue
                for flag, code, val in sp[1]:
                    l = self.attr_samples.setdefault(code, [])
                    if (flag, val) not in l:
                        l.append((flag, val))
                    if code in (14, 15) and len(val) >= 3:
                        afi, safi = struct.unpack('!HB', val[:3])
                        m = self.mp_samples.setdefault((afi, safi), [])
                        if val not in m:
                            m.append(val)
                    if code == 29:
                        for t, p in R.split_tlvs(val) or []:
                            ls = self.ls_samples.setdefault(t, [])
                            if p not in ls:
                                ls.append(p)
            elif mid == 1 and len(body) > 10:
                params = body[10:]
                while len(params) >= 2:
                    pt, pl = params[0], params[1]
                    blob, params = params[2 : 2 + pl], params[2 + pl :]
                    if pt != 2:
                        continue
                    while len(blob) >= 2:
                        cc, cl = blob[0], blob[1]
                        cv, blob = blob[2 : 2 + cl], blob[2 + cl :]
                        l2 = self.cap_samples.setdefault(cc, [])
                        if cv not in l2:
                            l2.append(bytes(cv))


def mutate(rng, data: bytes) -> bytes:
    b = bytearray(data)
    x = rng.random()
    if not b:
        return bytes([rng.randrange(256)])
    if x < 0.5:
        for _ in range(rng.choice([1, 1, 2, 3])):
            b[rng.randrange(len(b))] = rng.choice([0, 1, 0x22, 0x5C, 0x0A, 0x7F, 0x80, 0xFF, rng.randrange(256)])
    elif x < 0.65:
        i = rng.randrange(len(b))
        b[i] ^= 1 << rng.randrange(8)
    elif x < 0.8:
        del b[rng.randrange(len(b)) :]
    elif x < 0.9:
        i = rng.randrange(len(b) + 1)
        b[i:i] = bytes(rng.randrange(256) for _ in range(rng.randrange(1, 6)))
    else:
        i = rng.randrange(len(b))
        j = rng.randrange(i, len(b))
        b[i:i] = b[i : j + 1]
    return bytes(b)


def rnd_bytes(rng, n: int) -> bytes:
    return bytes(rng.randrange(256) for _ in range(n))


STRING_TLVS = (1026, 1098, 1025, 1097, 1157)  # BGP-LS node name, link name, node / link / prefix opaque


def _t2l2(data: bytes):
    return R.split_tlvs(data)


def _join22(items) -> bytes:
    return b''.join(struct.pack('!HH', t, len(v)) + v for t, v in items)


def _t1l2(data: bytes):
    out = []
    while data:
        if len(data) < 3:
            return None
        t, ln = data[0], struct.unpack('!H', data[1:3])[0]
        if len(data) < 3 + ln:
            return None
        out.append((t, bytes(data[3 : 3 + ln])))
        data = data[3 + ln :]
    return out


def _join12(items) -> bytes:
    return b''.join(struct.pack('!BH', t, len(v)) + v for t, v in items)


def _sub9012(data: bytes):
    out = []
    while data:
        t = data[0]
        if t < 128:
            if len(data) < 2:
                return None
            ln, hs = data[1], 2
        else:
            if len(data) < 3:
                return None
            ln, hs = struct.unpack('!H', data[1:3])[0], 3
        if len(data) < hs + ln:
            return None
        out.append((t, bytes(data[hs : hs + ln])))
        data = data[hs + ln :]
    return out


def _join9012(items) -> bytes:
    return b''.join((struct.pack('!BB', t, len(v)) if t < 128 else struct.pack('!BH', t, len(v))) + v for t, v in items)


def _variants(items, join, inner=None):
    """repeat one element, repeat all, reverse, and (one level down) the same inside an element"""
    if not items:
        return
    for i in range(len(items)):
        yield join(items[: i + 1] + [items[i]] + items[i + 1 :])
        # ... and with the bits a sender is told to leave at zero (reserved octets, undefined flags) set, alone and
        # next to the untouched copy: what a renderer prints only for non-zero flags must still nest properly
        t, v = items[i]
        if v:
            for w in (bytes((b | 0x80) if k < 3 else b for k, b in enumerate(v)), bytes([0xFF] * min(len(v), 3)) + v[3:]):
                if w != v:
                    yield join(items[:i] + [(t, w)] + items[i + 1 :])
                    yield join(items[: i + 1] + [(t, w)] + items[i + 1 :])
                    yield join(items[:i] + [(t, w), (t, v)] + items[i + 1 :])
    if len(items) > 1:
        yield join(items + items)
        yield join(list(reversed(items)))
    if inner:
        split, ijoin = inner
        for i, (t, v) in enumerate(items):
            sub = split(v)
            if sub:
                for w in _variants(sub, ijoin):
                    yield join(items[:i] + [(t, w)] + items[i + 1 :])


def gen_cases(ctx: Ctx, rig: R.Rig, seeds: Seeds) -> tuple[list[Iterable[Case]], list[Iterable[Case]]]:
    """(phase 1, phase 2).  Phase 1 is enumerated and runs to the end (seeds, every pair of
    attributes / TLVs, repeated TLVs at every nesting level, hostile content in every text / opaque
    field); phase 2 is the randomised bulk (registries with mutated and random values, whole
    message mutation), interleaved and cut by the time budget."""
    rng = ctx.rng
    quick = ctx.tier == 'quick'
    hostile = R.hostile_payloads()
    short = [h for h in hostile if len(h) <= 100]
    ALL = list(R.ENCODERS)

    def some() -> list[str]:
        return ['json6', rng.choice(['json4', 'text6', 'text4', 'json6c'])]

    def wrap_ls(tlvs: bytes) -> bytes:
        return R.update_body(R.BASE_ATTRS + R.attr(0x80, 29, tlvs), R.NLRI24)

    def with_attr(a: bytes) -> bytes:
        return R.update_body(R.BASE_ATTRS + a, R.NLRI24)

    # ---- phase 1 ---------------------------------------------------------------------------

    def g_seeds():
        seen = set()
        for origin, sess, mid, body in seeds.msgs:
            first = (mid, body) not in seen
            seen.add((mid, body))
            yield Case('seed', sess, 'message', mid, body, consolidate=rng.random() < 0.3, note=origin, encs=ALL if first else some())

    def g_route_layouts():
        """Where the routes of an UPDATE sit: withdrawn-routes field, MP_UNREACH_NLRI, MP_REACH_NLRI, NLRI field, in
        every combination, with well-formed attributes, with one that makes the UPDATE treat-as-withdraw (the
        announced routes join the withdrawn ones, of whatever family, in whatever order) and with one that is
        discarded."""
        v4a, v4b, v4c = bytes([24, 10, 0, 0]), bytes([24, 10, 0, 1]), bytes([16, 172, 16])
        v6a, v6b = bytes([32, 0x20, 1, 0x0D, 0xB8]), bytes([48, 0x20, 1, 0x0D, 0xB8, 0, 1])
        nh6 = bytes([0x20, 1, 0x0D, 0xB8] + [0] * 11 + [1])
        med3 = R.attr(0x80, 4, b'\x00\x00\x01')  # 3-octet MED: treat-as-withdraw (RFC 7606 7.4)
        agg5 = R.attr(0xC0, 7, b'\x00\x01\x02\x03\x04')  # 5-octet AGGREGATOR: attribute discard (RFC 7606 7.7)
        for wd in (b'', v4b, v4b + v4c):
            for unreach in (b'', R.mp_unreach(2, 1, v6b), R.mp_unreach(1, 2, v4c)):
                for reach in (b'', R.mp_reach(2, 1, nh6, v6a)):
                    for nlri in (b'', v4a, v4a + v4c):
                        if not (wd or unreach or reach or nlri):
                            continue
                        for extra, what in ((b'', 'well-formed'), (med3, 'treat-as-withdraw'), (agg5, 'discard')):
                            attrs = (R.BASE_ATTRS if (nlri or reach) else b'') + extra + reach + unreach
                            yield Case('route-layout', 'all', 'message', 2, R.update_body(attrs, nlri, withdrawn=wd), consolidate=rng.random() < 0.3,
                                       note=f'{what}: wd {len(wd)} unreach {len(unreach)} reach {len(reach)} nlri {len(nlri)}', encs=ALL if extra else some())

    def g_attr_pairs():
        codes = sorted(c for c in seeds.attr_samples if c not in (14, 15))
        for i, a in enumerate(codes):
            for b in codes[i:]:
                fa, va = seeds.attr_samples[a][0]
                fb, vb = seeds.attr_samples[b][-1]
                pre = b''.join(x for x, c in zip((R.ORIGIN, R.ASPATH0, R.NEXTHOP), (1, 2, 3)) if c not in (a, b))
                sess_list = ('all', 'asn2') if {a, b} & {2, 7, 17, 18} else ('all',)
                for sess in sess_list:
                    yield Case('attr-pair', sess, 'message', 2, R.update_body(pre + R.attr(fa, a, va) + R.attr(fb, b, vb), R.NLRI24), note=f'attrs {a}+{b}', encs=some())
        ag2 = R.attr(0xC0, 7, struct.pack('!H', 23456) + bytes([1, 1, 1, 1]))
        ag4 = R.attr(0xC0, 7, struct.pack('!L', 65001) + bytes([1, 1, 1, 1]))
        as4ag = R.attr(0xC0, 18, struct.pack('!L', 70000) + bytes([2, 2, 2, 2]))
        as4path = R.attr(0xC0, 17, bytes([2, 1]) + struct.pack('!L', 70000))
        aspath2 = R.attr(0x40, 2, bytes([2, 1]) + struct.pack('!H', 23456))
        yield Case('attr-pair', 'asn2', 'message', 2, with_attr(ag2 + as4ag), note='attrs 7+18', encs=ALL)
        yield Case('attr-pair', 'all', 'message', 2, with_attr(ag4 + as4ag), note='attrs 7+18', encs=ALL)
        yield Case('attr-pair', 'all', 'message', 2, with_attr(as4ag + ag4), note='attrs 18+7', encs=ALL)
        yield Case('attr-pair', 'all', 'message', 2, with_attr(as4ag), note='attr 18 alone', encs=ALL)
        yield Case('attr-pair', 'asn2', 'message', 2, R.update_body(R.ORIGIN + aspath2 + R.NEXTHOP + as4path, R.NLRI24), note='attrs 2+17', encs=ALL)
        yield Case('attr-pair', 'all', 'message', 2, R.update_body(R.ORIGIN + R.ASPATH1 + R.NEXTHOP + as4path, R.NLRI24), note='attrs 2+17', encs=ALL)

    def g_communities():
        from exabgp.bgp.message.update.attribute.community.extended.community import ExtendedCommunity

        reg = sorted(getattr(ExtendedCommunity, 'registered_extended', {}) or {})
        heads = [bytes(k) if not isinstance(k, int) else struct.pack('!H', k) for k in reg]
        heads += [bytes([t, st]) for t in (0x00, 0x01, 0x02, 0x03, 0x06, 0x40, 0x41, 0x42, 0x43, 0x80, 0x81, 0x82, 0x90, 0xFF) for st in (0x00, 0x01, 0x02, 0x03, 0x04, 0x06, 0x07, 0x08, 0x09, 0x0A, 0x0B, 0x0C, 0x0D, 0x10, 0x13, 0x80, 0xFF)]
        seen = set()
        for hd in heads:
            if hd[:2] in seen or len(hd) < 2:
                continue
            seen.add(hd[:2])
            for tail in (bytes(6), b'\x00\x00\x7f\xc0\x00\x00', b'\x00\x00\x7f\x80\x00\x00', b'\xff' * 6, b'"\\\n}{\x00'):
                yield Case('extended-community', 'all', 'message', 2, with_attr(R.attr(0xC0, 16, hd[:2] + tail)), note=f'ext community {hd[:2].hex()}', encs=some())
            yield Case('extended-community-v6', 'all', 'message', 2, with_attr(R.attr(0xC0, 25, hd[:2] + bytes(18))), note=f'ext community {hd[:2].hex()}', encs=some())
        for n in (1, 2, 3):
            yield Case('community', 'all', 'message', 2, with_attr(R.attr(0xC0, 8, b'\xff\xff\xff\x01' * n) + R.attr(0xC0, 32, bytes(12) * n)), note='communities', encs=some())

    def g_tlv_structures():
        plan = {23: (_t2l2, _join22, (_sub9012, _join9012)), 40: (_t1l2, _join12, (_t2l2, _join22)), 29: (_t2l2, _join22, (_t2l2, _join22))}
        for code, (split, join, inner) in plan.items():
            for flag, val in seeds.attr_samples.get(code, [])[: (8 if quick else 80)]:
                items = split(val)
                if not items:
                    continue
                for v in _variants(items, join, inner):
                    yield Case('tlv-repeat', 'all', 'message', 2, with_attr(R.attr(flag, code, v)), note=f'attr {code}', encs=some())
        # every sub-TLV type under every tunnel type, alone and twice, with the first value (zeros,
        # from a fixed list of lengths) that the decoder accepts: deterministic, whatever the seed
        lens = (0, 1, 2, 3, 4, 6, 8, 10, 12, 16, 18, 20, 24, 32, 34)
        for tt in (0, 7, 15, 65535):
            for st in list(range(0, 24)) + [127, 128, 129, 130, 131, 255]:
                for ln in lens:
                    one = _join9012([(st, bytes(ln))])
                    body = with_attr(R.attr(0xC0, 23, _join22([(tt, one)])))
                    try:
                        if 23 not in rig.decode('all', 2, body).data.attributes:
                            continue
                    except Exception:  # noqa: BLE001
                        continue
                    yield Case('tunnel-subtlv', 'all', 'message', 2, body, note=f'tunnel {tt} sub {st}', encs=some())
                    yield Case('tunnel-subtlv-twice', 'all', 'message', 2, with_attr(R.attr(0xC0, 23, _join22([(tt, one + one)]))), note=f'tunnel {tt} sub {st} x2', encs=some())
                    break
            yield Case('tunnel-twice', 'all', 'message', 2, with_attr(R.attr(0xC0, 23, _join22([(tt, b''), (tt, b'')]))), note=f'tunnel {tt} x2', encs=ALL)
        for t in range(0, 10):
            for ln in lens:
                body = with_attr(R.attr(0xC0, 40, _join12([(t, bytes(ln))])))
                try:
                    if 40 not in rig.decode('all', 2, body).data.attributes:
                        continue
                except Exception:  # noqa: BLE001
                    continue
                yield Case('prefixsid-tlv', 'all', 'message', 2, body, note=f'sr tlv {t}', encs=some())
                yield Case('prefixsid-tlv-twice', 'all', 'message', 2, with_attr(R.attr(0xC0, 40, _join12([(t, bytes(ln)), (t, bytes(ln))]))), note=f'sr tlv {t} x2', encs=some())
                break

    def g_nested():
        def t1l2(t: int, v: bytes) -> bytes:
            return struct.pack('!BH', t, len(v)) + v

        # SRv6 service TLVs (attribute 40, TLV 5 / 6): sub-TLVs and sub-sub-TLVs, known and unknown, once and twice
        structure = t1l2(1, bytes([40, 24, 16, 0, 16, 64]))
        unknown_ss = t1l2(9, bytes.fromhex('401810000000'))

        def sidinfo(subsub: bytes) -> bytes:
            return t1l2(1, b'\x00' + bytes.fromhex('20010db8000100010000000000000000') + b'\x00' + struct.pack('!H', 19) + b'\x00' + subsub)

        shapes = [
            ('sid', sidinfo(b'')),
            ('sid+structure', sidinfo(structure)),
            ('sid+structure x2', sidinfo(structure + structure)),
            ('sid+unknown sub-sub', sidinfo(unknown_ss)),
            ('sid+structure+unknown sub-sub', sidinfo(structure + unknown_ss)),
            ('sid+unknown sub-sub x2', sidinfo(unknown_ss + unknown_ss)),
            ('sid x2', sidinfo(structure) + sidinfo(structure)),
            ('unknown sub', t1l2(2, b'\x01\x02')),
            ('unknown sub x2', t1l2(2, b'\x01') + t1l2(2, b'\x02')),
            ('sid+unknown sub', sidinfo(structure) + t1l2(7, b'\x01')),
            ('empty', b''),
        ]
        for t in (5, 6):
            for name, subs in shapes:
                yield Case('srv6-service', 'all', 'message', 2, with_attr(R.attr(0xC0, 40, t1l2(t, b'\x00' + subs))), note=f'sr tlv {t}: {name}', encs=some())
        # SR policy segment list (tunnel 15, sub-TLV 128): every sub-sub-TLV type, once, twice, after a weight
        lens = (0, 1, 2, 4, 6, 8, 10, 12, 16, 18, 20, 22, 24, 26, 34, 36, 38, 42)
        weight = bytes([9, 6, 0, 0, 0, 0, 0, 1])
        for sst in range(0, 20):
            for ln in lens:
                seg = bytes([sst, ln]) + bytes(ln)
                body = with_attr(R.attr(0xC0, 23, _join22([(15, _join9012([(128, b'\x00' + seg)]))])))
                try:
                    if 23 not in rig.decode('all', 2, body).data.attributes:
                        continue
                except Exception:  # noqa: BLE001
                    continue
                for name, inner in (('once', seg), ('twice', seg + seg), ('after weight', weight + seg), ('weight twice', weight + weight + seg)):
                    yield Case('segment-list', 'all', 'message', 2, with_attr(R.attr(0xC0, 23, _join22([(15, _join9012([(128, b'\x00' + inner)]))]))), note=f'segment sub-sub-tlv {sst} {name}', encs=some())
                yield Case('segment-list', 'all', 'message', 2, with_attr(R.attr(0xC0, 23, _join22([(15, _join9012([(128, b'\x00' + seg), (128, b'\x00' + seg)]))]))), note=f'two segment lists {sst}', encs=some())
                break
        # FlowSpec: every component type alone and every pair (the same component twice included)
        c4 = {1: bytes([1, 24, 10, 0, 0]), 2: bytes([2, 24, 10, 1, 0])}
        for t in range(3, 14):
            c4[t] = bytes([t, 0x81, 1])
        c6 = {1: bytes([1, 64, 0]) + bytes(8), 2: bytes([2, 64, 0]) + bytes(8)}
        for t in range(3, 15):
            c6[t] = bytes([t, 0x81, 1])
        for afi, comps in ((1, c4), (2, c6)):
            ks = sorted(comps)
            for i, a in enumerate(ks):
                for b in ks[i:]:
                    for nl in (comps[a] + comps[b], comps[a]):
                        for safi in (133,):
                            yield Case('flow-pair', 'all', 'message', 2, R.update_body(R.ORIGIN + R.ASPATH0 + R.mp_reach(afi, safi, b'', bytes([len(nl)]) + nl)), note=f'flow {afi} components {a}+{b}' if len(nl) > len(comps[a]) else f'flow {afi} component {a}', encs=['json6', 'json4'] if rng.random() < 0.5 else some())

    def g_bgpls_structures():
        from exabgp.bgp.message.update.attribute.bgpls.linkstate import LinkState

        codes = sorted(c for c in LinkState.registered_lsids if c < 60000)
        good: dict[int, bytes] = {}
        for code in codes:
            klass = LinkState.registered_lsids.get(code)
            ln = getattr(klass, 'LEN', 0) or 0
            cands = list(seeds.ls_samples.get(code, []))[:3] + ([bytes(ln)] if ln else []) + [bytes(n) for n in (1, 2, 4, 7, 8, 12, 16, 20, 24, 32)]
            for p in cands:
                try:
                    rig.decode('all', 2, wrap_ls(R.ls_tlv(code, p)))
                    good[code] = p
                    break
                except Exception:  # noqa: BLE001
                    continue
        ctx.extra['bgpls_tlvs_with_a_decodable_value'] = len(good)
        ctx.extra['bgpls_tlvs_registered'] = len(codes)
        gl = sorted(good)
        for a in gl:
            yield Case('bgpls-tlv', 'all', 'message', 2, wrap_ls(R.ls_tlv(a, good[a])), note=f'tlv {a}', encs=ALL)
            yield Case('bgpls-pair', 'all', 'message', 2, wrap_ls(R.ls_tlv(a, good[a]) + R.ls_tlv(a, good[a])), note=f'tlvs {a}+{a}', encs=some())
        # pairs whose JSON names could collide: every pair (thorough), same-decade neighbours and a sample (quick)
        for i, a in enumerate(gl):
            for b in gl[i + 1 :]:
                if quick and not (abs(a - b) <= 2 or rng.random() < 0.08):
                    continue
                yield Case('bgpls-pair', 'all', 'message', 2, wrap_ls(R.ls_tlv(a, good[a]) + R.ls_tlv(b, good[b])), note=f'tlvs {a}+{b}', encs=['json6'])
        # IEEE floats that are not numbers of JSON, in every TLV whose value is a multiple of 4 octets
        for a in gl:
            n = len(good[a])
            if n and n % 4 == 0:
                for pat in (b'\x7f\xc0\x00\x00', b'\x7f\x80\x00\x00', b'\xff\x80\x00\x00', b'\xff\xff\xff\xff'):
                    yield Case('bgpls-float', 'all', 'message', 2, wrap_ls(R.ls_tlv(a, pat * (n // 4))), note=f'tlv {a}', encs=some())
        for code in (0, 1, 257, 512, 1023, 1200, 1300, 40000, 65535):
            yield Case('bgpls-unknown-twice', 'all', 'message', 2, wrap_ls(R.ls_tlv(code, b'ab') + R.ls_tlv(code, b'cd')), note=f'tlv {code} x2', encs=some())

    def g_hostile_strings():
        base = [R.CAP_MP4, R.CAP_ASN4]
        fam = struct.pack('!HB', 1, 1)
        for h in hostile:
            bk = R.bucket(h)
            if len(h) <= 100:
                yield Case('open-hostile-host', 'all', 'message', 1, R.open_body(base + [R.hostname_cap(h, b'example.com')]), R.open_body(base + [R.hostname_cap(b'x', b'example.com')]), hole=bk, consolidate=rng.random() < 0.3, encs=ALL)
                yield Case('open-hostile-domain', 'all', 'message', 1, R.open_body(base + [R.hostname_cap(b'router', h)]), R.open_body(base + [R.hostname_cap(b'router', b'x')]), hole=bk, encs=ALL)
                yield Case('open-hostile-software', 'all', 'message', 1, R.open_body(base + [R.software_cap(h)]), R.open_body(base + [R.software_cap(b'x')]), hole=bk, encs=ALL)
                yield Case('open-unknown-hostile', 'all', 'message', 1, R.open_body(base + [R.cap(rng.choice([0, 3, 4, 7, 66, 67, 71, 72, 74, 129, 130, 200, 255]), h)]), None, hole=bk, encs=ALL)
            for sub in (2, 4):
                if len(h) <= 250:
                    yield Case('shutdown-hostile', 'all', 'message', 3, R.shutdown_body(sub, h), R.shutdown_body(sub, b'x'), hole=bk, consolidate=rng.random() < 0.2, note=f'6/{sub}', encs=ALL)
            yield Case('shutdown-trailer', 'all', 'message', 3, R.shutdown_body(2, b'bye', trailer=h), R.shutdown_body(2, b'bye', trailer=b'x'), hole=bk, note='6/2', encs=some())
            code, sub = rng.choice([(1, 1), (2, 7), (3, 1), (4, 0), (5, 1), (6, 1), (6, 6), (7, 1), (9, 9)])
            yield Case('notification-hostile', 'all', 'message', 3, R.notification_body(code, sub, h), R.notification_body(code, sub, b'x'), hole=bk, note=f'{code}/{sub}', encs=ALL)
            for what in (1, 2):
                yield Case('operational-advisory-hostile', 'all', 'message', 6, R.operational_body(what, fam + h), R.operational_body(what, fam + b'x'), hole=bk, consolidate=rng.random() < 0.2, encs=ALL)
            yield Case('operational-unknown-hostile', 'all', 'message', 6, R.operational_body(rng.choice([0, 9, 13, 0xFFFF, 0x1234]), fam + bytes(12) + h), None, hole=bk, encs=ALL)
            for code in STRING_TLVS:
                yield Case('bgpls-name-hostile', 'all', 'message', 2, wrap_ls(R.ls_tlv(code, h)), wrap_ls(R.ls_tlv(code, b'x')), hole=bk, note=f'tlv {code}', encs=ALL)
            yield Case('bgpls-unknown-hostile', 'all', 'message', 2, wrap_ls(R.ls_tlv(rng.choice([0, 1, 257, 1200, 40000, 65535]), h)), None, hole=bk, encs=ALL)
            yield Case('attr-unknown-hostile', 'all', 'message', 2, with_attr(R.attr(rng.choice([0xC0, 0x80, 0xE0]), rng.choice([11, 19, 20, 21, 24, 27, 28, 30, 31, 33, 128, 254, 255]), h)), None, hole=bk, encs=ALL)
            uf, uc = rng.choice([0xD0, 0x90, 0xF0]), rng.choice([11, 19, 20, 21, 24, 27, 28, 30, 31, 33, 128, 254, 255])
            yield Case('attr-unknown-hostile', 'all', 'message', 2, with_attr(R.attr(uf, uc, h)), with_attr(R.attr(uf, uc, b'x')), hole=bk, note=f'attr {uc}', encs=ALL)
            if len(h) <= 120:
                for st in (129, 130):
                    yield Case('tunnel-name-hostile', 'all', 'message', 2, with_attr(R.attr(0xC0, 23, _join22([(15, _join9012([(st, b'\x00' + h)]))]))), with_attr(R.attr(0xC0, 23, _join22([(15, _join9012([(st, b'\x00x')]))]))), hole=bk, note=f'sub-tlv {st}', encs=ALL)
                yield Case('tunnel-unknown-hostile', 'all', 'message', 2, with_attr(R.attr(0xC0, 23, _join22([(7, h)]))), None, hole=bk, note='tunnel type 7', encs=ALL)
        for t in R.HOSTILE_TEXT:
            if not t.isascii():
                continue  # the reason of a `down` event is written by ExaBGP itself: no peer text beyond ASCII reaches it
            yield Case('down-hostile', 'all', 'state', arg=['down', R.MARK + t + R.MARK], twin_arg=['down', 'x'], hole=R.bucket((R.MARK + t).encode('utf-8', 'surrogatepass')), encs=ALL)

    def g_small():
        from exabgp.bgp.message.notification import Notification
        from exabgp.protocol.family import Family

        for what in ('up', 'connected', 'negotiated', 'fsm'):
            for sess in ('all', 'asn2', 'all-addpath'):
                yield Case('state', sess, 'state', arg=[what, None], encs=ALL)
        for sig in (1, 2, 10, 12, 15):
            yield Case('state', 'all', 'state', arg=['signal', sig], encs=ALL)
        yield Case('keepalive', 'all', 'message', 4, b'', encs=ALL)
        yield Case('keepalive', 'all', 'message', 4, b'', consolidate=True, encs=ALL)
        yield Case('eor', 'all', 'message', 2, R.update_body(b''), note='eor ipv4', encs=ALL)
        for afi, safi in Family.all_families():
            yield Case('eor', 'all', 'message', 2, R.update_body(R.mp_unreach(int(afi), int(safi), b'')), consolidate=rng.random() < 0.5, note=f'eor {afi}/{safi}', encs=some())
        for code, sub in sorted(Notification._str_subcode) + [(0, 0), (7, 0), (9, 9), (255, 255), (6, 9)]:
            for data in (b'', b'ab', rnd_bytes(rng, 5)):
                yield Case('notification', 'all', 'message', 3, R.notification_body(code, sub, data), consolidate=rng.random() < 0.3, note=f'{code}/{sub}', encs=some())
        for sub in (2, 4):
            for declared in (0, 1, 127, 128, 129, 255):
                yield Case('shutdown-length', 'all', 'message', 3, R.shutdown_body(sub, b'maintenance "now"\n', declared=declared), note=f'6/{sub} declared {declared}', encs=ALL)
        for code, sub, text in ((1, 1, 'x'), (3, 5, 'attribute "length"'), (2, 0, 'a\\b'), (5, 0, '')):
            yield Case('notify-sent', 'all', 'notify', 3, b'', arg=[code, sub, text], encs=ALL)
        fam = struct.pack('!HB', 1, 1)
        for what in list(range(0, 16)) + [0xFFFE, 0xFFFF, 0x1234]:
            for payload in (b'', fam, fam + bytes([1, 1, 1, 1]) + struct.pack('!L', 7), fam + bytes([1, 1, 1, 1]) + struct.pack('!LL', 7, 42), fam + rnd_bytes(rng, 20), rnd_bytes(rng, 9)):
                yield Case('operational', 'all', 'message', 6, R.operational_body(what, payload), note=f'type {what}', encs=some())
        for afi in (0, 1, 2, 25, 16388, 65535):
            for safi in (0, 1, 2, 4, 70, 128, 133, 255):
                for res in (0, 1, 2, 255):
                    if quick and rng.random() < 0.75:
                        continue
                    yield Case('refresh', 'all', 'message', 5, R.refresh_body(afi, safi, res), consolidate=rng.random() < 0.3, encs=some())
        for mid in (1, 2, 3, 4, 5, 6):
            for _ in range(2 if quick else 20):
                yield Case('packets', 'all', 'packets', mid, rnd_bytes(rng, rng.randrange(0, 40)), encs=ALL)

    # ---- phase 2 ---------------------------------------------------------------------------

    def g_attrs():
        from exabgp.bgp.message.update.attribute import Attribute

        registered = sorted({k[0] for k in Attribute.registered_attributes})
        codes = list(range(256))
        rng.shuffle(codes)
        codes = registered + [c for c in codes if c not in registered]
        for code in codes:
            samples = seeds.attr_samples.get(code, [])
            known = code in registered
            per = (8 if quick else 60) if known else (2 if quick else 10)
            pre = b''.join(a for a, c in zip((R.ORIGIN, R.ASPATH0, R.NEXTHOP), (1, 2, 3)) if c != code)
            tail = b'' if code in (14, 15) else R.NLRI24
            for flag, val in samples[: (4 if quick else 40)]:
                yield Case('attr-sample', 'all', 'message', 2, R.update_body(pre + R.attr(flag, code, val), tail), note=f'attr {code}', encs=some())
                for _ in range(per):
                    yield Case('attr-mutated', rng.choice(['all', 'all', 'asn2', 'ibgp']), 'message', 2, R.update_body(pre + R.attr(flag, code, mutate(rng, val)), tail), note=f'attr {code}', encs=some())
            for _ in range(per):
                flag = rng.choice([0x40, 0x80, 0xC0, 0xE0, 0xD0])
                yield Case('attr-random', 'all', 'message', 2, R.update_body(pre + R.attr(flag, code, rnd_bytes(rng, rng.choice([0, 1, 2, 3, 4, 5, 6, 7, 8, 9, 12, 16, 20, 24, 32]))), R.NLRI24), note=f'attr {code}', encs=some())
            if not known:
                for h in rng.sample(hostile, 1 if quick else 8):
                    flag = rng.choice([0xD0, 0xD0, 0x90, 0xF0])
                    yield Case('attr-unknown-hostile', 'all', 'message', 2, with_attr(R.attr(flag, code, h)), with_attr(R.attr(flag, code, b'x')), hole=R.bucket(h), note=f'attr {code}', encs=some())

    def g_nlri():
        fams = sorted(seeds.mp_samples.items())
        for rnd in range(12 if quick else 300):
            for (afi, safi), vals in fams:
                for val in vals[: (3 if quick else 30)]:
                    cut = rng.randrange(3, len(val) + 1)
                    m = val[:cut] + mutate(rng, val[cut:]) if cut < len(val) else mutate(rng, val)
                    code = rng.choice([14, 14, 15])
                    yield Case('nlri-mutated', rng.choice(['all', 'all-addpath']), 'message', 2, R.update_body(R.ORIGIN + R.ASPATH0 + R.attr(0x90, code, m)), note=f'family {afi}/{safi}', encs=some())
            for _ in range(3 if quick else 5):
                n = rnd_bytes(rng, rng.randrange(1, 12))
                yield Case('nlri-random', rng.choice(['all', 'all-addpath']), 'message', 2, R.update_body(R.BASE_ATTRS, n, rnd_bytes(rng, rng.randrange(0, 6)) if rng.random() < 0.3 else b''), note='ipv4 unicast', encs=some())

    def g_open():
        from exabgp.bgp.message.open.capability import Capability

        base = [R.CAP_MP4, R.CAP_ASN4]
        registered = sorted(int(k) for k in Capability.registered_capability)
        codes = list(range(256))
        rng.shuffle(codes)
        codes = registered + [c for c in codes if c not in registered]
        for code in codes:
            vals = list(seeds.cap_samples.get(code, []))[:3]
            vals += [rnd_bytes(rng, rng.choice([0, 1, 2, 4, 6, 8])) for _ in range(1 if quick else 8)]
            for v in vals:
                yield Case('open-cap', 'all', 'message', 1, R.open_body(base + [R.cap(code, v)]), note=f'cap {code}', encs=some())
                yield Case('open-cap-twice', 'all', 'message', 1, R.open_body(base + [R.cap(code, v), R.cap(code, mutate(rng, v))], one_param_each=rng.random() < 0.5), note=f'cap {code} x2', encs=some())
            if code not in registered:
                for h in rng.sample(short, 1 if quick else 6):
                    yield Case('open-unknown-hostile', 'all', 'message', 1, R.open_body(base + [R.cap(code, h)]), R.open_body(base + [R.cap(code, b'x')]), hole=R.bucket(h), note=f'cap {code}', encs=some())
        for origin, sess, mid, body in seeds.msgs:
            if mid == 1:
                for _ in range(40 if quick else 2000):
                    yield Case('open-mutated', 'all', 'message', 1, body[:10] + mutate(rng, body[10:]), note=origin, encs=some())

    def g_bgpls():
        from exabgp.bgp.message.update.attribute.bgpls.linkstate import LinkState

        codes = sorted(c for c in LinkState.registered_lsids if c < 60000)
        for rnd in range(4 if quick else 60):
            for code in codes:
                klass = LinkState.registered_lsids.get(code)
                ln = getattr(klass, 'LEN', 0) or 0
                for p in list(seeds.ls_samples.get(code, []))[:2] + [rnd_bytes(rng, ln or rng.choice([1, 2, 4, 8, 12, 16, 20]))]:
                    yield Case('bgpls-tlv-mutated', 'all', 'message', 2, wrap_ls(R.ls_tlv(code, mutate(rng, p) if rng.random() < 0.7 else p)), note=f'tlv {code}', encs=some())
                if code not in STRING_TLVS:
                    yield Case('bgpls-tlv-random', 'all', 'message', 2, wrap_ls(R.ls_tlv(code, rng.choice(hostile))), note=f'tlv {code}', encs=some())

    def g_mutation():
        pool = seeds.msgs
        for _ in range(8000 if quick else 400000):
            origin, sess, mid, body = rng.choice(pool)
            yield Case('seed-mutated', sess, 'message', mid, mutate(rng, body), consolidate=rng.random() < 0.1, note=origin, encs=some())

    return [g_small(), g_route_layouts(), g_attr_pairs(), g_communities(), g_nested(), g_tlv_structures(), g_bgpls_structures(), g_hostile_strings(), g_seeds()], [g_attrs(), g_nlri(), g_open(), g_bgpls(), g_mutation()]


def interleave(gens: list[Iterable[Case]], chunk: int = 20) -> Iterable[Case]:
    its = [iter(g) for g in gens]
    while its:
        for it in list(its):
            got = 0
            for c in it:
                yield c
                got += 1
                if got >= chunk:
                    break
            if got == 0:
                its.remove(it)


# ---------------------------------------------------------------------------------------------
# running one case on the implementation


class Obs:
    """What one encoder wrote for one input (hostile or twin)."""

    __slots__ = ('enc', 'data', 'error', 'nl_expected', 'event')

    def __init__(self, enc: str, data: bytes, error: str | None, nl_expected: int | None, event: str) -> None:
        self.enc, self.data, self.error, self.nl_expected, self.event = enc, data, error, nl_expected, event


def shape_of(msg_id: int, msg: Any) -> Any:
    """What the DECODER made of a message, coarsely: a hostile value that makes the decoder drop an
    attribute or a capability (e.g. a node name that is not UTF-8 discards the BGP-LS attribute)
    is the decoder's decision, not the encoder forging a field; twins are compared only when the
    decoder kept the same parts."""
    try:
        if msg_id == 2:
            if getattr(msg, 'IS_EOR', False):
                return ['eor']
            return [sorted(int(k) for k in msg.data.attributes.keys()), len(msg.data.announces), len(msg.data.withdraws)]
        if msg_id == 1:
            return sorted(int(k) for k in msg.capabilities.keys())
    except Exception:  # noqa: BLE001
        return None
    return [type(msg).__name__]


def emit_all(rig: R.Rig, case: Case, twin: bool) -> tuple[str, list[Obs]] | None:
    """Run one input through the four encoders. None when the message does not decode."""
    body = case.twin if twin else case.body
    arg = case.twin_arg if twin else case.arg
    obs: list[Obs] = []
    if case.ev == 'message':
        try:
            msg = rig.decode(case.sess, case.msg_id, body)
        except Exception:  # noqa: BLE001 - not a message that decodes
            return None
        event = EVENT_OF[case.msg_id]
        case_shape = shape_of(case.msg_id, msg)
        if twin:
            case.twin_shape = case_shape
        else:
            case.shape = case_shape
        hdr, bdy = (R.header(case.msg_id, body), body) if case.consolidate else (b'', b'')
        # number of line breaks a text record must have, from the decoded object
        if case.msg_id == 2:
            if getattr(msg, 'IS_EOR', False):
                n = 2 + len(msg.nlris)
            else:
                n = 2 + len(msg.data.announces) + len(msg.data.withdraws)
            nl = n + (1 if (hdr or bdy) else 0) + 1
        elif case.msg_id == 6:
            nl = 1
        else:
            nl = 2
        for enc in case.encs:
            e = rig.message(enc, case.sess, case.msg_id, msg, hdr, bdy)
            obs.append(Obs(enc, e.data, e.error, nl, event))
        return event, obs
    if case.ev == 'packets':
        for enc in case.encs:
            e = rig.packets(enc, case.sess, case.msg_id, R.header(case.msg_id, body), body)
            obs.append(Obs(enc, e.data, e.error, 2, 'packets'))
        return 'packets', obs
    if case.ev == 'notify':
        from exabgp.bgp.message.notification import Notify

        code, sub, text = arg
        for enc in case.encs:
            e = rig.notification(enc, case.sess, Notify(code, sub, text), b'', b'')
            obs.append(Obs(enc, e.data, e.error, 2, 'notification'))
        return 'notification', obs
    if case.ev == 'state':
        what, a = arg
        for enc in case.encs:
            e = rig.state(enc, case.sess, what, a)
            silent = (not R.IS_JSON[enc]) and what in ('negotiated', 'fsm', 'signal')
            obs.append(Obs(enc, e.data, e.error, 0 if silent else 2, 'state-' + what))
        return 'state-' + arg[0], obs
    raise ValueError(case.ev)


ENVELOPE_TYPE = {'open': 'open', 'update': 'update', 'notification': 'notification', 'keepalive': 'keepalive', 'refresh': 'refresh', 'operational': 'operational', 'state-up': 'state', 'state-down': 'state', 'state-connected': 'state', 'state-negotiated': 'negotiated', 'state-fsm': 'fsm', 'state-signal': 'signal'}
PAYLOAD_KEY = {'open': 'open', 'notification': 'notification', 'refresh': 'route-refresh', 'operational': 'operational', 'packets': 'message', 'state-up': 'state', 'state-down': 'state', 'state-connected': 'state', 'state-negotiated': 'negotiated', 'state-fsm': 'state', 'state-signal': 'code'}


def envelope_problem(tree: Any, enc: str, event: str, consolidate: bool, rig: R.Rig, case: Case) -> str | None:
    """The documented envelope (README 'JSON format'): exabgp, time, host, pid, ppid, counter, type,
    neighbor { address { local, peer }, asn { local, peer }, [router-id,] [direction,] payload }."""
    if not (isinstance(tree, tuple) and tree[0] == 'obj'):
        return 'top level is not an object'
    keys = [k for k, _ in tree[1]]
    d = dict(tree[1])
    want = ['exabgp', 'time', 'host', 'pid', 'ppid', 'counter', 'type']
    if consolidate and event in EVENT_OF.values():
        want += ['header'] + (['body'] if case.body or case.msg_id != 4 else [])
        if 'body' in want and not case.body:
            want.remove('body')
    want += ['neighbor']
    if keys != want:
        return f'top-level keys {keys} != {want}'
    if d['exabgp'] != R.VERSION[enc]:
        return f'exabgp {d["exabgp"]!r} != {R.VERSION[enc]!r}'
    for k in ('time', 'pid', 'ppid', 'counter'):
        if not (isinstance(d[k], tuple) and d[k][0] == 'num'):
            return f'{k} is not a number'
    if d['pid'][1] != str(os.getpid()) or d['ppid'][1] != str(os.getppid()):
        return 'pid/ppid are not those of the process'
    if d['host'] != rig.host:
        return 'host is not the host name'
    if event == 'packets':
        if not isinstance(d['type'], str):
            return 'type is not a string'
    elif d['type'] != ENVELOPE_TYPE[event]:
        return f'type {d["type"]!r} != {ENVELOPE_TYPE[event]!r}'
    nb = d['neighbor']
    if not (isinstance(nb, tuple) and nb[0] == 'obj'):
        return 'neighbor is not an object'
    nd = dict(nb[1])
    n, neg, peer = rig.session(case.sess)
    a = nd.get('address')
    if not (isinstance(a, tuple) and dict(a[1]) == {'local': str(n.session.local_address), 'peer': str(n.session.peer_address)}):
        return 'neighbor.address is not { local, peer } of the session'
    s = nd.get('asn')
    if not (isinstance(s, tuple) and dict(s[1]) == {'local': ('num', str(int(n.session.local_as))), 'peer': ('num', str(int(n.session.peer_as)))}):
        return 'neighbor.asn is not { local, peer } of the session'
    if event in EVENT_OF.values() or event == 'packets':
        if nd.get('direction') != 'receive':
            return 'neighbor.direction missing'
    pk = PAYLOAD_KEY.get(event)
    if event == 'update':
        m = nd.get('message')
        if not (isinstance(m, tuple) and m[0] == 'obj' and len(m[1]) == 1 and m[1][0][0] in ('update', 'eor')):
            return 'neighbor.message is not { update | eor }'
    elif pk and pk not in nd:
        return f'neighbor.{pk} missing'
    return None


def canon_path(path: list[str]) -> list[str]:
    return [R.key_shape(k) for k in path]


class Runner:
    def __init__(self, ctx: Ctx, rig: R.Rig) -> None:
        self.ctx, self.rig = ctx, rig
        self.seen_fail: set[str] = set()
        self.lines = 0
        self.json_records = 0
        self.text_records = 0

    def fail(self, kind: str, canon: Any, case: Case, what: str) -> None:
        self.ctx.count('oracle-fail:' + kind)
        key = json.dumps([kind, canon], sort_keys=True)
        if key in self.seen_fail:
            return
        self.seen_fail.add(key)
        small = shrink_case(self.rig, case, kind, canon) if len(self.seen_fail) <= 40 else case
        self.ctx.failures.append(Failure(kind, canon, small.to_json(), what))

    def run_batch(self, cases: list[Case]) -> None:
        ctx, rig = self.ctx, self.rig
        pending: list[tuple[Case, str, list[Obs], list[Obs] | None]] = []
        for case in cases:
            r = emit_all(rig, case, False)
            ctx.evaluations += 1
            ctx.count('gen:' + case.gen)
            if r is None:
                ctx.count('not-decoded')
                continue
            event, obs = r
            ctx.count('event:' + event)
            if case.hole:
                ctx.count('hole:' + case.hole)
            tw = None
            if case.twin is not None or case.twin_arg is not None:
                rt = emit_all(rig, case, True)
                if rt is None:
                    ctx.count('twin-not-decoded')
                else:
                    tw = rt[1]
            pending.append((case, event, obs, tw))
        # one driver run for the whole batch
        q: list[str] = []
        slots: list[tuple[int, int, str]] = []  # (pending index, obs index, kind)
        for pi, (case, event, obs, tw) in enumerate(pending):
            for oi, o in enumerate(obs):
                if o.error or not o.data:
                    continue
                if R.IS_JSON[o.enc]:
                    rec = o.data[:-1] if o.data.endswith(b'\n') else o.data
                    slots.append((pi, oi, 'canon'))
                    q.append('json canon ' + hx(rec))
                    if tw is not None and not tw[oi].error and tw[oi].data:
                        slots.append((pi, oi, 'skel'))
                        q.append('json skel ' + hx(rec))
                        slots.append((pi, oi, 'tskel'))
                        q.append('json skel ' + hx(tw[oi].data[:-1]))
                else:
                    for li, line in enumerate(o.data.split(b'\n')):
                        slots.append((pi, oi, f'text:{li}'))
                        q.append('json textline ' + hx(line))
        ans = lean(q) if ctx.driver_ok else ['skip'] * len(q)
        self.lines += len(q)
        res: dict[tuple[int, int], dict[str, str]] = {}
        for (pi, oi, kind), a in zip(slots, ans):
            res.setdefault((pi, oi), {})[kind] = a
        for pi, (case, event, obs, tw) in enumerate(pending):
            nontrivial = False
            for oi, o in enumerate(obs):
                r = res.get((pi, oi), {})
                family = 'json' if R.IS_JSON[o.enc] else 'text'
                if o.error:
                    et, where = o.error.split(':')[0].split(' @')[0], o.error.split(' @')[1].split(': ')[0] if ' @' in o.error else '?'
                    # what the pipe writer refuses depends on the encoder; what a producer raises does not
                    canon = {'event': event, 'error': et, 'where': where}
                    if where.endswith(':write'):
                        canon['encoder'] = family
                    self.fail('event-write', canon, case, f'{o.enc} {event}: the event could not be rendered/written: {o.error[:240]}')
                    continue
                if R.IS_JSON[o.enc]:
                    self.json_records += 1
                    if o.data.count(b'\n') != 1 or not o.data.endswith(b'\n'):
                        self.fail('json-line', {'lines': event}, case, f'{o.enc} {event}: {o.data.count(10)} line breaks in one JSON record')
                        continue
                    rec = o.data[:-1]
                    a = r.get('canon', 'skip')
                    if a == 'skip':
                        continue
                    if a.startswith('dup '):
                        try:
                            paths = R.dup_paths(R.load_pairs(rec.decode('ascii')))
                        except ValueError:
                            paths = []
                        full = paths[0] if paths else ['?', bytes.fromhex(a.split()[1]).decode('ascii', 'replace')]
                        path = R.attribute_level(canon_path(full))
                        self.fail('json-line', {'dup': path}, case, f'{o.enc} {event}: key {"/".join(full)!r} occurs twice in one object (Lean parser: {a})')
                        continue
                    if a.startswith('bad'):
                        pos = int(a.split()[1])
                        bc = R.bad_context(rec, pos)
                        if 'in' in bc:
                            bc['in'] = R.attribute_level(bc['in'] + ['?'])[:-1] if 'attribute' in bc['in'] else bc['in']
                        self.fail('json-line', {'bad': event, **bc}, case, f'{o.enc} {event}: not one JSON value on one line; the Lean parser stops at offset {pos}: ...{rec[max(0, pos - 60) : pos + 40]!r}')
                        continue
                    canon = bytes.fromhex(a.split()[1]).decode('ascii')
                    # differential: Python's reader on the same record must see the same tree
                    try:
                        tree = R.load_pairs(rec.decode('ascii'))
                        mine = R.canon_render(tree)
                    except ValueError as ex:
                        ctx.disagreements.append(Disagreement('parser', case.to_json(), 'ok', f'json.loads: {ex}'))
                        continue
                    if mine != canon:
                        ctx.disagreements.append(Disagreement('parser', case.to_json(), canon[:300], mine[:300]))
                        continue
                    prob = envelope_problem(tree, o.enc, event, case.consolidate, rig, case)
                    if prob:
                        self.fail('json-envelope', {'event': event, 'problem': prob.split(' [')[0][:60]}, case, f'{o.enc} {event}: {prob}')
                    mk = R.marker_in_keys(tree)
                    if mk:
                        self.fail('json-forged-key', {'event': event, 'gen': case.gen}, case, f'{o.enc} {event}: peer text inside a key: {mk[0][:80]!r}')
                    if rec.count(R.MARK.encode()) != R.marker_in_leaves(tree) + sum(k.count(R.MARK) for k in mk):
                        self.fail('json-marker', {'event': event, 'gen': case.gen}, case, f'{o.enc} {event}: marker text appears outside string leaves')
                    if 'skel' in r and 'tskel' in r and case.shape != case.twin_shape:
                        ctx.count('twin-decoded-differently')
                    elif 'skel' in r and 'tskel' in r:
                        ctx.count('twin-skeleton-compared')
                        if r['skel'] != r['tskel']:
                            hs = bytes.fromhex(r['skel'].split()[1]).decode() if r['skel'].startswith('ok ') else r['skel']
                            ts = bytes.fromhex(r['tskel'].split()[1]).decode() if r['tskel'].startswith('ok ') else r['tskel']
                            self.fail('json-skeleton', {'event': event, 'gen': case.gen, 'hole': case.hole}, case, f'{o.enc} {event}: key skeleton differs from the benign twin: {first_diff(hs, ts)}')
                        nontrivial = True
                    nontrivial = nontrivial or event != 'keepalive'
                else:
                    if o.nl_expected == 0:
                        if o.data:
                            self.fail('text-lines', {'event': event, 'extra': True}, case, f'{o.enc} {event}: wrote {o.data[:80]!r} where no text event exists')
                        continue
                    self.text_records += 1
                    nl = o.data.count(b'\n')
                    if nl != o.nl_expected:
                        self.fail('text-lines', {'event': event, 'hole': case.hole}, case, f'{o.enc} {event}: {nl} line breaks, expected {o.nl_expected}: {o.data[:200]!r}')
                        continue
                    n, neg, peer = rig.session(case.sess)
                    pfx = f'neighbor {n.session.peer_address} '.encode()
                    for li, line in enumerate(o.data.split(b'\n')):
                        a = r.get(f'text:{li}', 'skip')
                        if a.startswith('bad'):
                            self.fail('text-char', {'event': event, 'hole': case.hole}, case, f'{o.enc} {event}: a line holds a code point that is not printable ASCII at {a.split()[1]}: {line[:120]!r}')
                        if line and not (line.startswith(pfx) or line.startswith(b' header ') or line.startswith(b' body ') or line.startswith(b'shutdown ')):
                            self.fail('text-prefix', {'event': event, 'hole': case.hole}, case, f'{o.enc} {event}: a line does not start like an event of this neighbor: {line[:120]!r}')
                    if tw is not None and case.shape == case.twin_shape and not tw[oi].error and tw[oi].data.count(b'\n') != nl:
                        self.fail('text-lines', {'event': event, 'hole': case.hole, 'twin': True}, case, f'{o.enc} {event}: {nl} line breaks, the benign twin has {tw[oi].data.count(10)}')
            if nontrivial:
                ctx.nontrivial([case.ev, case.msg_id, case.body.hex(), case.arg])
            if case.hole and len([s for s in ctx.samples if isinstance(s, dict) and s.get('gen') == case.gen]) == 0:
                j = [o for o in obs if o.enc == 'json6' and not o.error]
                ctx.sample({'gen': case.gen, 'hole': case.hole, 'input': case.to_json(), 'json6': j[0].data.decode('ascii', 'replace')[:700] if j else None, 'text4': next((o.data.decode('ascii', 'replace')[:300] for o in obs if o.enc == 'text4' and not o.error), None)}, cap=8)


def first_diff(a: str, b: str) -> str:
    i = 0
    while i < min(len(a), len(b)) and a[i] == b[i]:
        i += 1
    return f'hostile ...{a[max(0, i - 60) : i + 60]!r} / twin ...{b[max(0, i - 60) : i + 60]!r}'


# ---------------------------------------------------------------------------------------------
# shrinking and replay


def verdicts(rig: R.Rig, case: Case) -> set[str]:
    """Canonical failures (as JSON strings) of one case: used for shrinking and by replay()."""
    ctx = Ctx(prop=PROP, tier='quick', seed=0, rng=__import__('random').Random(0))
    ctx.deadline = time.time() + 60
    run = Runner(ctx, rig)
    run.seen_fail = set()
    run.fail = lambda kind, canon, c, what: run.seen_fail.add(json.dumps([kind, canon], sort_keys=True)) or ctx.notes.append(what)  # type: ignore[method-assign]
    run.run_batch([case])
    run.notes = ctx.notes  # type: ignore[attr-defined]
    return run.seen_fail


def shrink_case(rig: R.Rig, case: Case, kind: str, canon: Any) -> Case:
    """Greedy shrinking on the attribute list of an UPDATE (drop attributes, drop the twin's
    irrelevant parts) while the same canonical failure is still produced."""
    key = json.dumps([kind, canon], sort_keys=True)
    if case.ev != 'message' or case.msg_id != 2:
        return case
    sp = R.split_attributes(case.body)
    if not sp:
        return case
    withdrawn, attrs, nlri = sp
    tw = R.split_attributes(case.twin) if case.twin is not None else None
    cur = list(range(len(attrs)))
    changed = True
    while changed and len(cur) > 1:
        changed = False
        for i in list(cur):
            cand = [j for j in cur if j != i]
            body = R.update_body(b''.join(R.attr(*attrs[j]) for j in cand), nlri, withdrawn)
            twin = None
            if tw is not None and len(tw[1]) == len(attrs):
                twin = R.update_body(b''.join(R.attr(*tw[1][j]) for j in cand), tw[2], tw[0])
            c2 = Case(case.gen, case.sess, case.ev, case.msg_id, body, twin, case.hole, case.arg, case.twin_arg, False, case.note)
            try:
                if key in verdicts(rig, c2):
                    cur = cand
                    case = c2
                    changed = True
                    break
            except common.Infra:
                return case
    return case


def load_corpus() -> list[Case]:
    d = common.VERIF / 'corpus' / PROP
    out = []
    if d.exists():
        for f in sorted(d.glob('*.json')):
            out.append(Case.from_json(json.loads(f.read_text())['case']))
    return out


def run(ctx: Ctx) -> None:
    ctx.rule = (
        'inputs: (1) strings of code points for the escapers (every code point of U+0000..U+00FF alone, the code space in runs of 4096, surrogates, hostile strings, random); '
        '(2) BGP messages built from the seeds (qa/encoding/*.ci, qa/decoding/*, every route of etc/exabgp/*.conf) and from the registries (every attribute code 0..255, every NLRI family seen in the seeds, every capability code 0..255, '
        'every NOTIFICATION code/subcode, every OPERATIONAL type, every BGP-LS TLV, tunnel-encapsulation / prefix-SID TLV structures repeated and spliced), with hostile content in every peer-chosen text/opaque field and a benign twin; '
        'each message that the real decoder accepts is written by the four real encoders through the real Processes.write. '
        'A case is non-trivial when the message decoded and at least one JSON record other than a keepalive reached the Lean parser (or the escaper string contains a character that needs escaping); distinct = distinct input bytes'
    )
    t0 = time.time()
    if ctx.driver_ok:
        corr_escapers(ctx)
    rig = R.Rig()
    try:
        seeds = Seeds(rig, ctx)
        ctx.extra['seeds'] = seeds.stats
        ctx.extra['families_in_seeds'] = sorted(f'{a}/{s}' for a, s in seeds.mp_samples)
        ctx.extra['attribute_codes_in_seeds'] = sorted(seeds.attr_samples)
        ctx.extra['bgpls_tlvs_in_seeds'] = sorted(seeds.ls_samples)
        run = Runner(ctx, rig)
        size = 250
        reserve = 6.0 if ctx.tier == 'quick' else 30.0
        phase1, phase2 = gen_cases(ctx, rig, seeds)
        corpus = load_corpus()
        ctx.count('corpus', len(corpus))
        cut = None
        for phase, stream in (('corpus', iter(corpus)), ('enumerated', interleave(phase1, 40)), ('randomised', interleave(phase2, 20))):
            batch: list[Case] = []
            n0 = ctx.evaluations
            for case in stream:
                batch.append(case)
                if len(batch) >= size:
                    run.run_batch(batch)
                    batch = []
                    if ctx.time_left() < reserve:
                        cut = phase
                        break
            if batch and cut is None:
                run.run_batch(batch)
            ctx.extra[f'inputs_{phase}'] = ctx.evaluations - n0
            if cut:
                break
        if cut == 'enumerated':
            ctx.notes.append(f'TIME BUDGET REACHED INSIDE THE ENUMERATED PHASE after {ctx.evaluations} inputs: part of the enumeration did not run')
        elif cut:
            ctx.notes.append(f'time budget reached after {ctx.evaluations} inputs: the enumerated phase ran to the end, the randomised generators (interleaved) were cut')
        dt = time.time() - t0
        ctx.extra['json_records_parsed_by_lean'] = run.json_records
        ctx.extra['text_records_checked'] = run.text_records
        ctx.extra['lean_queries'] = run.lines
        ctx.notes.append(f'{ctx.evaluations} inputs, {run.json_records} JSON records and {run.text_records} text records checked in {dt:.1f}s ({ctx.evaluations / max(dt, 0.1):.0f} inputs/s)')
    finally:
        rig.close()


def replay(path: str) -> int:
    data = json.loads(open(path).read())
    d = data.get('replay') or data.get('case')
    if d.get('escaper'):
        from exabgp.reactor.api.response.json import JSON

        s = ''.join(chr(c) for c in d['cps'])
        got, want = JSON('6.0.0')._string(s), json.dumps(s)
        print('string       :', [hex(c) for c in d['cps']])
        print('JSON._string :', got)
        print('json.dumps   :', want)
        print('holds        :', got == want)
        return 0 if got == want else 1
    case = Case.from_json(d)
    rig = R.Rig()
    try:
        if case.sess.startswith('conf:'):
            # sessions taken from configuration files are rebuilt by loading the seeds
            Seeds(rig, None)
        ctx = Ctx(prop=PROP, tier='quick', seed=0, rng=__import__('random').Random(0))
        ctx.deadline = time.time() + 60
        r = emit_all(rig, case, False)
        if r is None:
            print('the message does not decode: nothing is written, the property holds trivially')
            return 0
        event, obs = r
        print('event :', event, '| session', case.sess, '| generator', case.gen, case.note)
        print('body  :', case.body.hex() or case.arg)
        for o in obs:
            print(f'--- {o.enc}: error={o.error}')
            print(o.data.decode('ascii', 'replace')[:3000])
            if R.IS_JSON[o.enc] and o.data and not o.error:
                print('lean  :', lean(['json parse ' + hx(o.data[:-1])])[0])
        run = Runner(ctx, rig)
        run.run_batch([case])
        for f in ctx.failures:
            print('FAIL  :', f.kind, json.dumps(f.canon), '-', f.what[:400])
        print('holds :', not ctx.failures)
        return 1 if ctx.failures else 0
    finally:
        rig.close()
