"""C02 — reported routes are exactly what the peer sent.

Correspondence = oracle: UPDATE bodies produced by the Lean RFC *reference encoder* from generated
UpdateSem values (so independent of ExaBGP's encoder), plus the recorded messages of /repo/qa, go
through the REAL receive path (Message.unpack -> Response.JSON.update -> json.loads, and
UpdateHandler -> Adj-RIB-In) for every session shape built from two real OPENs; what comes out is
mapped to the canonical Report and compared with `drv_wire decode` (the RFC reading, proved exact in
Props/C02.lean). A second, model-free oracle compares both with what the generator asked for."""

from __future__ import annotations

import copy
import json
import re
import traceback
from pathlib import Path

from harness import common, wiregen, wirerig
from harness.common import Ctx, Disagreement, Failure

THEOREM_MODULES = ['ExaModel.Props.C02', 'ExaModel.Props.C02Exa']
DRIVERS = ['drv_wire']
TABLES = ['attr', 'family']
ASSUMPTIONS = [
    'well-formed UPDATE = WFUpdate of lean/ExaModel/Model/Wire.lean: no duplicate attribute, mandatory attributes present with announced routes, legal flags/lengths, AS4_PATH/AS4_AGGREGATOR only from a 2-byte peer; a message announcing and withdrawing the same prefix, or listing a prefix twice, is not generated',
    'families: AFI 1/2 x SAFI unicast, multicast, nlri-mpls, mpls-vpn are compared route by route; for any other family (recorded qa messages) only the attributes are compared',
    'label stacks: the 3 spare bits of a label entry are zero; label 0 is not the first entry of a multi-label stack (ExaBGP reads 0x000000 as a one-entry stack, a convention outside RFC 3107/8277); the label of a withdrawal is not compared (RFC 8277 2.4)',
    'the link-local part of a 32-byte IPv6 next hop is not part of the report: the API has one next-hop per route (the global address)',
    'AS paths are compared after coalescing adjacent AS_SEQUENCE segments (splitting a sequence does not change the path)',
    'an empty AS_PATH and no AS_PATH are the same report (ExaBGP prints neither)',
    'AGGREGATOR: either the RFC 6793 reconciled aggregator under one key, or AGGREGATOR and AS4_AGGREGATOR both as sent under two keys, is an exact report',
    'NEXT_HOP is compared through the next hop of the announced IPv4 routes and, in the attribute list, whenever ExaBGP prints it',
]
TRUSTED_EXTRA = [
    'harness/wirerig.py mapping functions JSON/object representation -> canonical report (no wire decoding in them)',
    'the Lean reference encoder produces the test messages; it is tied to the reference decoder by wire_left_inverse and checked case by case with `wire roundtrip`',
]

SHAPES_QUICK = [
    dict(asn4=True, addpath=[], extnh=[]),
    dict(asn4=False, addpath=[], extnh=[]),
    dict(asn4=True, addpath=wirerig.ADDPATH_OK, extnh=[], aigp=True),
    dict(asn4=False, addpath=[(1, 1), (1, 128), (2, 4)], extnh=[], aigp=True),
    dict(asn4=True, addpath=[(2, 1), (1, 4)], extnh=wirerig.EXTNH_OK),
    dict(asn4=False, addpath=wirerig.ADDPATH_OK, extnh=wirerig.EXTNH_OK),
]
SHAPES_MORE = [
    dict(asn4=True, addpath=[(1, 1)], extnh=[]),
    dict(asn4=True, addpath=[(2, 128), (1, 128)], extnh=[(1, 1), (1, 128)]),
    dict(asn4=False, addpath=[(2, 1)], extnh=[(1, 2), (1, 4)]),
    dict(asn4=False, addpath=[], extnh=wirerig.EXTNH_OK),
]


# ---------------------------------------------------------------------------------------------
# what the generator asked for, in canonical form (model-free oracle; no RFC 6793 merge here)


def expected_of_sem(u: dict, shape: dict) -> dict:
    nh_attr = next((a['f'][0] for a in u['a'] if a['code'] == 3), '-')
    ann = [f'1.1/{nh_attr}/{wiregen.show_nlri(n)}' for n in u['n']]
    wd = ['1.1/' + wiregen.show_nlri({**n, 'labels': []}) for n in u['w']]
    for a in u['a']:
        if a['code'] == 14 and 'nlris' in a:
            afi, safi = a['fam']
            nh = a['nh'][16:] if safi == 128 else a['nh']
            nh = nh if len(nh) == 8 else nh[:32]
            ann += [f'{afi}.{safi}/{nh}/{wiregen.show_nlri(n)}' for n in a['nlris']]
        if a['code'] == 15 and 'nlris' in a:
            afi, safi = a['fam']
            wd += [f'{afi}.{safi}/' + wiregen.show_nlri({**n, 'labels': []}) for n in a['nlris']]
    eor = None
    if not u['w'] and not u['n']:
        if not u['a']:
            eor = '1.1'
        elif len(u['a']) == 1 and u['a'][0]['code'] == 15 and not u['a'][0].get('nlris', [1]):
            eor = '%d.%d' % u['a'][0]['fam']
    attrs = {}
    merged = not shape['asn4'] and any(a['code'] in (17, 18) for a in u['a'])
    for a in u['a']:
        c = a['code']
        if c in (14, 15, 17, 18):
            continue
        if c == 26 and a['flags'][1] == '0':
            if not shape.get('aigp'):
                continue  # AIGP from a peer for which AIGP_SESSION is not enabled: as if absent (RFC 7311 3.3)
        elif c not in wiregen.KNOWN and a['flags'][1] == '0':
            continue  # unrecognised optional non-transitive: not relayed, not reported
        if merged and c in (2, 7):
            continue  # RFC 6793 reconstruction: the model's job
        v = '~'.join(a['f'])
        if c == 2:
            v = wirerig.show_segs(a['segs'])
        attrs[c] = v
    return {'eor': eor, 'ann': sorted(set(ann)), 'wd': sorted(set(wd)), 'attrs': attrs, 'merged': merged}


# ---------------------------------------------------------------------------------------------
# comparison


OPAQUE_CODES: set[int] = set()  # attribute codes ExaBGP decodes structurally and M-Wire carries as opaque bytes


def comparable_attrs(model_attrs: dict, impl_attrs: dict, agg: list | None = None) -> tuple[dict, dict]:
    """The two attribute maps restricted to what both sides print (see ASSUMPTIONS)."""
    ma, ia = dict(model_attrs), dict(impl_attrs)
    if 18 in ia and agg:
        # AS4_AGGREGATOR printed under a key of its own: both aggregator attributes are reported as
        # sent, which is exact; the reference values are then the two attributes before reconciliation
        for c, raw in ((7, agg[0]), (18, agg[1])):
            ma.pop(c, None)
            if raw != '-':
                ma[c] = raw
    if 3 not in ia:
        ma.pop(3, None)  # NEXT_HOP is printed with the routes; in the attribute list only next to withdraws
    if ma.get(2) == '-' and 2 not in ia:
        ma.pop(2)  # an empty AS_PATH is printed as no as-path
    for c in OPAQUE_CODES:
        ma.pop(c, None)
    ia.pop(-1, None)  # keys of attributes outside M-Wire (compared as opaque by nobody)
    return ma, ia


def ref_report(S: 'wirerig.Session', line: str) -> dict:
    """The reading of the RFC reference for this session (`S.params()` told it whether AIGP_SESSION is enabled:
    theorems aigp_absent_when_session_disabled / aigp_reported_when_session_enabled of Props/C02.lean)."""
    return wirerig.report_of_line(line)


def diff_reports(model: dict, impl: dict) -> list[str]:
    """Parts on which the implementation's report differs from the reference: 'eor', 'ann', 'wd', 'attr:<code>'."""
    d = []
    if model['eor'] != impl['eor']:
        d.append('eor')
    if model['eor'] is not None and impl['eor'] is not None:
        return d
    if model['ann'] != impl['ann']:
        d.append('ann')
    if model['wd'] != impl['wd']:
        d.append('wd')
    ma, ia = comparable_attrs(model['attrs'], impl['attrs'], model.get('agg'))
    for c in sorted(set(ma) | set(ia)):
        if ma.get(c) != ia.get(c):
            d.append(f'attr:{c}')
    return d


from exabgp.bgp.message.update.attribute import AttributeCollection  # noqa: E402


def outcome(S: wirerig.Session, body: bytes, model_line: str) -> tuple[str, dict, dict | None]:
    """(what, details, impl result): '' when the real path reports exactly the reference reading."""
    model = ref_report(S, model_line)
    res = S.decode(body)
    if 'err' in model:
        # the reference refuses it: not a well-formed message (recorded traffic under a foreign shape)
        return 'model-refuses', {'model': model['err'], 'impl': res['kind']}, res
    if model.get('raw'):
        # a family outside AFI 1/2 x SAFI 1,2,4,128: not negotiated on these sessions, so not a message
        # the peer may send (RFC 4760 §8); ExaBGP refuses it, the reference carries it as opaque bytes
        return 'family-not-negotiated', {'families': model['raw'], 'impl': res['kind']}, res
    if res['kind'] == 'raised':
        return 'raised:' + res['exc'], {'text': res['text']}, res
    if res['kind'] == 'notify':
        return f'refused:{res["code"]}/{res["sub"]}', {'text': res['text']}, res
    if not res['json_valid']:
        return 'json-invalid', {'text': res['text'][res['text'].find('"message"') : res['text'].find('"message"') + 160]}, res
    if res.get('report') is None:
        # valid JSON that is not an update event this mapping can read: the reported event is not the message
        i = res['text'].find('"message"')
        return 'event-unreadable', {'error': res.get('unreadable', ''), 'text': res['text'][i : i + 300]}, res
    d = diff_reports(model, res['report'])
    if res['report'].get('other_families'):
        d = [x for x in d if x not in ('ann', 'wd')]
    if d:
        return 'diff:' + ','.join(d), {'model': {k: model[k] for k in ('eor', 'ann', 'wd')} | {'attrs': model['attrs']}, 'impl': {k: res['report'][k] for k in ('eor', 'ann', 'wd', 'attrs')}}, res
    return '', {}, res


# ---------------------------------------------------------------------------------------------
# shrinking and canonical form of a failing UpdateSem


def _mandatory_ok(u: dict) -> bool:
    codes = [a['code'] for a in u['a']]
    if len(codes) != len(set(codes)):
        return False
    if (17 in codes and 2 not in codes) or (18 in codes and 7 not in codes):
        return False  # AS4_* only ever accompany the attribute they complete
    if u['n'] and not {1, 2, 3} <= set(codes):
        return False
    if any(a['code'] == 14 for a in u['a']) and not {1, 2} <= set(codes):
        return False
    return True


def _candidates(u: dict):
    def clone():
        return json.loads(json.dumps({k: v for k, v in u.items() if k != 'tags'}))

    if u['w']:
        c = clone(); c['w'] = []; yield c
    if u['n']:
        c = clone(); c['n'] = []; yield c
    for field in ('w', 'n'):
        if len(u[field]) > 1:
            c = clone(); c[field] = c[field][:1]; yield c
    for i, a in enumerate(u['a']):
        c = clone(); del c['a'][i]; yield c
    for i, a in enumerate(u['a']):
        if 'nlris' in a and len(a['nlris']) > 1:
            c = clone(); c['a'][i]['nlris'] = c['a'][i]['nlris'][:1]; yield c
        if a['flags'][2] == '1':
            c = clone(); c['a'][i]['flags'] = a['flags'][:2] + '0' + a['flags'][3]; yield c
        if a['code'] in (2, 17) and a.get('segs'):
            segs = a['segs']
            for j in range(len(segs)):
                if len(segs) == 1:
                    break  # an empty path is another class of input (zero-length AS4_PATH): never shrink into it
                c = clone(); s2 = [list(x) for x in segs]; del s2[j]
                c['a'][i]['segs'] = s2; c['a'][i]['f'] = [wiregen.show_segs(s2)]; yield c
            for j in range(len(segs)):
                if len(segs[j][1]) > 1:
                    c = clone(); s2 = [list(x) for x in segs]; s2[j][1] = s2[j][1][:1]
                    c['a'][i]['segs'] = s2; c['a'][i]['f'] = [wiregen.show_segs(s2)]; yield c
                    c = clone(); s2 = [list(x) for x in segs]; s2[j][1] = s2[j][1][-1:]
                    c['a'][i]['segs'] = s2; c['a'][i]['f'] = [wiregen.show_segs(s2)]; yield c
            for j in range(len(segs)):
                for k, x in enumerate(segs[j][1]):
                    small = 1 if x < 65536 else 65536
                    if x not in (1, 65536, wiregen.AS_TRANS):
                        c = clone(); s2 = [list(y) for y in segs]; s2[j][1] = list(s2[j][1]); s2[j][1][k] = small
                        c['a'][i]['segs'] = s2; c['a'][i]['f'] = [wiregen.show_segs(s2)]; yield c


def _fix_lengths(u: dict, asn4: bool) -> None:
    for a in u['a']:
        if 'segs' in a:
            a['segs'] = [tuple(s) for s in a['segs']]
        if 'fam' in a:
            a['fam'] = tuple(a['fam'])
        short = wiregen.value_len(a, asn4) <= 255
        if not short:
            a['flags'] = a['flags'][:3] + '1'


def shrink(S: wirerig.Session, u: dict, what: str, drv: common.Driver, budget: int = 120) -> dict:
    cur = json.loads(json.dumps({k: v for k, v in u.items() if k != 'tags'}))
    _fix_lengths(cur, S.asn4)
    key = what.split(':')[0]
    changed = True
    while changed and budget > 0:
        changed = False
        for c in _candidates(cur):
            if budget <= 0:
                break
            _fix_lengths(c, S.asn4)
            if not _mandatory_ok(c):
                continue
            if not c['w'] and not c['n'] and not c['a']:
                continue
            budget -= 1
            w = check_sem(S, c, drv)
            if w.split(':')[0] == key and (key != 'diff' or set(w[5:].split(',')) & set(what[5:].split(','))):
                cur = c
                changed = True
                break
    return cur


def check_sem(S: wirerig.Session, u: dict, drv: common.Driver) -> str:
    sem = wiregen.render(u)
    hexs = drv.ask(f'wire encode {S.params()} {sem}')
    if hexs == 'bad-op' or drv.ask(f'wire roundtrip {S.params()} {sem}') != '1':
        return 'not-wf'
    line = drv.ask(f'wire decode {S.params()} {hexs}')
    return outcome(S, bytes.fromhex(hexs), line)[0]


def seg_pattern(segs) -> str:
    return ','.join(str(t) for t, _ in segs)


def canon_of(S: wirerig.Session, u: dict, what: str) -> dict:
    """update-class canonical form: outcome class, attribute codes, where routes sit, the session
    bits that matter, and the shape of the AS paths when they are involved."""
    codes = sorted(a['code'] for a in u['a'])
    where = []
    if u['w']:
        where.append('withdrawn')
    if u['n']:
        where.append('nlri')
    for a in u['a']:
        if a['code'] in (14, 15) and 'fam' in a:
            where.append(('reach-' if a['code'] == 14 else 'unreach-') + '%d.%d' % tuple(a['fam']) + ('' if a.get('nlris') else '-empty'))
    canon: dict = {'what': re.sub(r'attr:', '', what), 'attrs': codes, 'routes': sorted(where)}
    if set(codes) & {17, 18}:
        canon['asn4'] = S.asn4
    if any(n.get('pid') is not None for n in u['w'] + u['n'] + [n for a in u['a'] for n in a.get('nlris', [])]):
        canon['addpath'] = True
    p2 = next((a for a in u['a'] if a['code'] == 2), None)
    p4 = next((a for a in u['a'] if a['code'] == 17), None)
    agg = next((a for a in u['a'] if a['code'] == 7), None)
    if p2 is not None and p4 is not None and agg is not None and 18 in codes:
        # the shrinker kept both aggregator attributes: the outcome depends on them (RFC 6793 4.2.3:
        # AGGREGATOR without AS_TRANS voids AS4_AGGREGATOR and AS4_PATH); the path shapes do not matter
        canon['aggregator'] = 'as-trans' if agg['f'][0] == str(wiregen.AS_TRANS) else 'not-as-trans'
        canon['as4-path'] = 'non-empty' if p4['segs'] else 'empty'
    elif p2 is not None and p4 is not None:
        # coarse on purpose, so that the form does not depend on which minimal path the shrinker reached
        if not p4['segs']:
            canon['as4-path'] = 'empty'
        else:
            canon['as4-path'] = 'non-empty'
            structured = any(t != 2 for t, _ in p2['segs'] + p4['segs'])
            if what.startswith('raised'):
                canon['as4-has-4byte-asn'] = any(x > 65535 for _, asns in p4['segs'] for x in asns)
            elif structured:
                canon['set-or-confed-segment'] = True  # one class: the segment structure is lost in the merge
            else:
                canon['as4-has-4byte-asn'] = any(x > 65535 for _, asns in p4['segs'] for x in asns)
                canon['count'] = 'as2<as4' if wiregen.pathcount(p2['segs']) < wiregen.pathcount(p4['segs']) else 'as2>=as4'
    return canon


# ---------------------------------------------------------------------------------------------
# recorded messages of /repo/qa


def recorded_bodies() -> list[tuple[str, bytes]]:
    out = []
    qa = common.REPO / 'qa'
    for f in sorted((qa / 'encoding').glob('*.ci')):
        for line in f.read_text().splitlines():
            m = re.match(r'^\d+:raw:[0-9A-Fa-f]{32}:[0-9A-Fa-f]{4}:02:([0-9A-Fa-f]*)$', line.strip())
            if m:
                out.append((f'{f.name}', bytes.fromhex(m.group(1))))
    for f in sorted((qa / 'decoding').iterdir()):
        lines = f.read_text().splitlines()
        if len(lines) >= 2 and lines[0].startswith('update'):
            try:
                raw = bytes.fromhex(lines[1].strip())
            except ValueError:
                continue
            if raw[:16] == b'\xff' * 16:
                raw = raw[19:]
            out.append((f.name, raw))
    seen = set()
    uniq = []
    for name, b in out:
        if b not in seen:
            seen.add(b)
            uniq.append((name, b))
    return uniq


# ---------------------------------------------------------------------------------------------


def load_corpus() -> list[dict]:
    d = common.VERIF / 'corpus' / 'C02'
    out = []
    if d.exists():
        for f in sorted(d.glob('*.json')):
            c = json.loads(f.read_text())
            c['file'] = f.name
            out.append(c)
    return out


def norm_sem(u: dict) -> dict:
    u = json.loads(json.dumps({k: v for k, v in u.items() if k != 'tags'}))
    for a in u['a']:
        if 'segs' in a:
            a['segs'] = [tuple(s) for s in a['segs']]
        if 'fam' in a:
            a['fam'] = tuple(a['fam'])
    u['tags'] = set()
    return u


def run(ctx: Ctx) -> None:
    rng = ctx.rng
    quick = ctx.tier == 'quick'
    per_shape = 2000 if quick else 8000
    shapes = SHAPES_QUICK if quick else SHAPES_QUICK + SHAPES_MORE
    ctx.rule = (
        'UPDATE bodies made by the Lean reference encoder from structurally generated UpdateSem values (every recognised attribute kind, any order, extended-length flag on short attributes, partial bit, unknown attributes, '
        'withdrawn/NLRI/MP_REACH/MP_UNREACH mixes over AFI 1/2 x SAFI 1,2,4,128, ADD-PATH per family, label stacks, 0x800000 withdraw label, RDs, RFC 8950 next hops, AS_PATH/AS4_PATH pairs as OLD speakers leave them) '
        'plus enumerated boundaries (254-257 byte attributes with both length fields, 255-AS segments, empty AS_PATH, zero-length AS4_PATH, End-of-RIB of every family, maximal NLRIs) and the recorded qa messages, '
        'for each session shape negotiated from two real OPENs; non-trivial = the reference accepts the message and it carries at least one route, an End-of-RIB or an RFC 6793 pair; distinct = distinct (shape, body)'
    )
    if not ctx.driver_ok:
        ctx.notes.append('drv_wire did not build: no correspondence run')
        return
    unknown_codes = [c for c in list(range(11, 14)) + list(range(19, 256)) if c not in wiregen.exabgp_only_codes() and c not in wiregen.KNOWN]
    OPAQUE_CODES.update(wiregen.exabgp_only_codes())
    OPAQUE_CODES.discard(26)  # AIGP is compared: its bytes on a session configured for it, nothing otherwise
    sessions = [wirerig.Session(addpath=s['addpath'], asn4=s['asn4'], extnh=s['extnh'], aigp=s.get('aigp', False)) for s in shapes]

    # 1. build the case list: (session index, origin, sem | None, body | None)
    cases: list[dict] = []
    for c in load_corpus():
        for i, S in enumerate(sessions):
            if c.get('asn4') is not None and c['asn4'] != S.asn4:
                continue
            if 'sem' in c:
                u = norm_sem(c['sem'])
                # 'ap': {"afi.safi": bool} = ADD-PATH status the case needs for the families it uses
                if any((tuple(int(x) for x in f.split('.')) in S.addpath) != want for f, want in c.get('ap', {}).items()):
                    continue
                cases.append({'s': i, 'origin': 'corpus:' + c['file'], 'sem': u})
            else:
                cases.append({'s': i, 'origin': 'corpus:' + c['file'], 'body': bytes.fromhex(c['body'])})
    for i, S in enumerate(sessions):
        for u in wiregen.boundary_cases(rng, S.shape(), unknown_codes):
            cases.append({'s': i, 'origin': 'boundary', 'sem': u})
    rec = recorded_bodies()
    for name, body in rec:
        for i, S in enumerate(sessions):
            cases.append({'s': i, 'origin': 'recorded', 'name': name, 'body': body})
    for i, S in enumerate(sessions):
        for _ in range(per_shape):
            cases.append({'s': i, 'origin': 'generated', 'sem': wiregen.gen_update(rng, S.shape(), unknown_codes)})

    # 2. reference encoder (and the round trip as a per-case check of wire_left_inverse / of the generator)
    lines = []
    for c in cases:
        if 'sem' in c:
            p = sessions[c['s']].params()
            sem = wiregen.render(c['sem'])
            lines += [f'wire encode {p} {sem}', f'wire roundtrip {p} {sem}']
    outs = iter(common.run_driver('drv_wire', lines))
    for c in cases:
        if 'sem' in c:
            hexs, rt = next(outs), next(outs)
            if hexs == 'bad-op' or rt != '1':
                c['skip'] = f'generator produced a value the reference does not round-trip: {rt[:80]}'
                ctx.count('generator-not-wf')
                if len([d for d in ctx.disagreements if d.stream == 'generator-vs-model']) < 3:
                    ctx.disagreements.append(Disagreement('generator-vs-model', wiregen.render(c['sem'])[:400], rt[:200], 'roundtrip expected 1'))
                continue
            c['body'] = bytes.fromhex(hexs)
    cases = [c for c in cases if 'skip' not in c]
    # 3. reference decoder
    outs = common.run_driver('drv_wire', [f'wire decode {sessions[c["s"]].params()} {c["body"].hex() or "-"}' for c in cases])
    for c, o in zip(cases, outs):
        c['model'] = o

    # 4. the real path, case by case
    drv = None
    seen_sig: dict = {}
    ribref: list[dict] = [dict() for _ in sessions]
    n_since_clear = [0 for _ in sessions]
    def one(c: dict) -> None:
        nonlocal drv
        S = sessions[c['s']]
        body = c['body']
        what, details, res = outcome(S, body, c['model'])
        ctx.evaluations += 1
        ctx.count('origin:' + c['origin'])
        ctx.count(f'shape:asn4={int(S.asn4)},addpath={len(S.addpath)},extnh={len(S.extnh)}')
        if what in ('model-refuses', 'family-not-negotiated'):
            ctx.count('skipped:' + what)
            # not a well-formed message under this shape; what ExaBGP does with it belongs to C03 / C08
            return
        model = ref_report(S, c['model'])
        for t in sorted(c['sem']['tags']) if 'sem' in c else []:
            ctx.count('tag:' + t)
        ctx.count('size:' + ('<64' if len(body) < 64 else '<256' if len(body) < 256 else '<1024' if len(body) < 1024 else '>=1024'))
        if model['ann'] or model['wd'] or model['eor'] or (17 in [a['code'] for a in c.get('sem', {'a': []})['a']]):
            ctx.nontrivial([S.params(), body.hex()])
        if 'sem' in c and c['origin'] != 'recorded':
            exp = expected_of_sem(c['sem'], S.shape())
            m2 = {'eor': model['eor'], 'ann': model['ann'], 'wd': model['wd'], 'attrs': {k: v for k, v in model['attrs'].items() if not (exp['merged'] and k in (2, 7))}}
            if (m2['eor'], m2['ann'], m2['wd'], m2['attrs']) != (exp['eor'], exp['ann'], exp['wd'], exp['attrs']):
                if len([d for d in ctx.disagreements if d.stream == 'model-vs-request']) < 5:
                    ctx.disagreements.append(Disagreement('model-vs-request', wiregen.render(c['sem'])[:600], json.dumps(m2)[:400], json.dumps({k: exp[k] for k in ('eor', 'ann', 'wd', 'attrs')})[:400]))
        if what == '' and res is not None:
            ctx.sample({'shape': S.params(), 'body': body.hex()[:160], 'report': c['model'][:240]}, cap=4)
            # Adj-RIB-In: feed the same message to the real handler, compare the whole table
            si = c['s']
            if n_since_clear[si] >= 25:
                S.clear_rib()
                ribref[si] = {}
                n_since_clear[si] = 0
            n_since_clear[si] += 1
            rwhat = ''
            try:
                S.store(res['msg'])
            except Exception as e:  # noqa: BLE001
                rwhat = f'rib-raised:{type(e).__name__}'
            if not rwhat and not res['report'].get('other_families'):
                ref = ribref[si]
                for item in model['ann']:
                    fam, nh, nl = item.split('/')
                    f = nl.split(':')
                    key = f'{fam}/' + ':'.join([f[0], '-'] + f[2:])
                    ref[key] = (nh, f[1], model['attrs'], model.get('agg'))
                for item in model['wd']:
                    ref.pop(item, None)
                got = S.adj_rib_in()
                if set(got) != set(ref):
                    rwhat = 'rib:routes'
                else:
                    for k, (nh, ls, at, ag) in ref.items():
                        gn, gl, ga = got[k]
                        ma, ga = comparable_attrs(at, ga, ag)
                        if gn != nh:
                            rwhat = 'rib:nexthop'
                        elif gl != ls:
                            rwhat = 'rib:labels'
                        elif ga != ma:
                            rwhat = 'rib:attrs'
                        if rwhat:
                            details = {'key': k, 'stored': [gn, gl, ga], 'reference': [nh, ls, ma]}
                            break
                if rwhat == 'rib:routes':
                    details = {'only-stored': sorted(set(got) - set(ref))[:5], 'only-reference': sorted(set(ref) - set(got))[:5]}
                if rwhat:
                    S.clear_rib()
                    ribref[si] = {}
                    n_since_clear[si] = 0
            elif res['report'].get('other_families'):
                S.clear_rib()
                ribref[si] = {}
                n_since_clear[si] = 0
            what = rwhat
            ctx.count('adj-rib-in-compared')
        if not what:
            return
        # a failure of the oracle on the implementation
        ctx.count('fail:' + what.split(':')[0])
        if 'sem' in c:
            presig = (what, tuple(sorted(t for t in c['sem']['tags'] if t.startswith(('as4', 'merge', 'vpn6', 'eor', 'same-nexthop')))), S.asn4 if ('attr:2' in what or 'raised' in what) else None)
        else:
            presig = (what, c.get('name'))
        if presig in seen_sig:
            seen_sig[presig] += 1
            return
        seen_sig[presig] = 1
        if 'sem' in c and not what.startswith('rib'):
            if drv is None:
                drv = common.Driver('drv_wire')
            small = shrink(S, c['sem'], what, drv)
            w2 = check_sem(S, small, drv)
            canon = canon_of(S, small, w2 if w2 and w2 != 'not-wf' else what)
            replay_obj = {'shape': S.shape() | {'addpath': S.addpath, 'extnh': S.extnh}, 'sem': small, 'sem_text': wiregen.render(small), 'original': wiregen.render(c['sem'])[:2000]}
        else:
            canon = {'what': what, 'origin': c['origin'], 'name': c.get('name', ''), 'asn4': S.asn4, 'addpath': bool(S.addpath)}
            if what == 'json-invalid':
                canon = {'what': 'json-invalid', 'attrs': [], 'routes': ['eor']}
            replay_obj = {'shape': S.shape(), 'body': body.hex()}
        if what == 'json-invalid' or canon.get('what') == 'json-invalid':
            canon = {'what': 'json-invalid', 'event': 'end-of-rib'}
        key = json.dumps(canon, sort_keys=True)
        if any(json.dumps(f.canon, sort_keys=True) == key for f in ctx.failures):
            return
        ctx.failures.append(Failure('update-class', canon, replay_obj, f'{what}: {json.dumps(details, default=str)[:500]}'))

    for c in cases:
        if ctx.time_left() < 5:
            ctx.notes.append(f'budget reached after {ctx.evaluations} cases')
            break
        try:
            one(c)
        except common.Infra:
            raise
        except Exception as e:  # noqa: BLE001 - the harness could not interpret what the implementation produced
            # the correspondence broke ON THIS INPUT: report it with the input, not as an infrastructure error
            tb = traceback.extract_tb(e.__traceback__)
            here = [f for f in tb if '/harness/' in f.filename]
            where = f'{Path(here[-1].filename).name}:{here[-1].name}' if here else 'unknown'
            canon = {'what': 'harness-exception', 'exception': type(e).__name__, 'where': where}
            sessions[c['s']].clear_rib()
            ribref[c['s']] = {}
            n_since_clear[c['s']] = 0
            ctx.count('fail:harness-exception')
            key = json.dumps(canon, sort_keys=True)
            if not any(json.dumps(f.canon, sort_keys=True) == key for f in ctx.failures):
                S = sessions[c['s']]
                rp = {'shape': S.shape() | {'addpath': S.addpath, 'extnh': S.extnh}, 'body': c['body'].hex()}
                if 'sem' in c:
                    rp['sem_text'] = wiregen.render(c['sem'])[:2000]
                ctx.failures.append(Failure('update-class', canon, rp, f'the harness could not interpret what the implementation produced for this input ({type(e).__name__}: {str(e)[:200]} at {where}): the correspondence is broken on it'))
    if drv is not None:
        drv.close()
    repeat_stream(ctx, sessions, [c for c in cases if c['origin'] == 'generated'], 400 if quick else 8000)
    other_session_stream(ctx, sessions, [c for c in cases if c['origin'] == 'generated'], 300 if quick else 6000)
    reannounce_stream(ctx, sessions, [c for c in cases if c['origin'] == 'generated'], 400 if quick else 6000)
    malformed_stream(ctx, sessions, [c for c in cases if c['origin'] == 'generated'], 300 if quick else 3000)
    for k, v in seen_sig.items():
        ctx.notes.append(f'failure class {k[0]} {k[1]}: {v} case(s)')
    ctx.extra['recorded_messages'] = len(rec)
    ctx.extra['session_shapes'] = [S.shape() for S in sessions]


def repeat_stream(ctx: Ctx, sessions: list, cases: list, n: int) -> None:
    """The same well-formed UPDATE arriving again (a peer re-sending it, two route reflectors sending the same
    block): it is reported exactly as the first time.  The first decode starts from an empty attribute cache (and was
    compared with the reference above); the repeats find what their predecessor left."""
    rng = ctx.rng
    if not cases:
        return
    picks = cases if len(cases) <= n else rng.sample(cases, n)
    seen: set = set()
    for c in picks:
        if ctx.time_left() < 12:
            break
        S = sessions[c['s']]
        first = S.decode(c['body'])
        if first['kind'] != 'ok' or not first.get('report'):
            continue
        ctx.evaluations += 1
        ctx.count('repeat:decoded-three-times')
        for k in (1, 2):
            again = S.decode(c['body'], fresh=False)
            if again['kind'] == 'ok' and again.get('report') == first['report']:
                continue
            what = 'repeat-differs'
            fields = sorted(f for f in ('eor', 'ann', 'wd', 'attrs') if again.get('report') is None or again['report'].get(f) != first['report'].get(f)) if again['kind'] == 'ok' else [again['kind']]
            canon = {'what': what, 'fields': fields, 'mp': any(a['code'] in (14, 15) for a in c['sem']['a']) if 'sem' in c else None}
            key = json.dumps(canon, sort_keys=True)
            ctx.count('fail:repeat-differs')
            if key in seen:
                break
            seen.add(key)
            ctx.failures.append(Failure('update-class', canon, {'shape': S.shape() | {'addpath': S.addpath, 'extnh': S.extnh}, 'body': c['body'].hex(), 'repeat': k}, f'the same UPDATE decoded again (repeat {k}) is reported differently: {fields}; first {json.dumps({f: first["report"].get(f) for f in ("ann", "wd")}, default=str)[:300]} then {json.dumps({f: (again.get("report") or {}).get(f) for f in ("ann", "wd")}, default=str)[:300]}'))
            break
    AttributeCollection.cached = None
    AttributeCollection.previous = b''


def other_session_stream(ctx: Ctx, sessions: list, cases: list, n: int) -> None:
    """The daemon decodes for all its sessions in one process.  A well-formed UPDATE is first decoded by ANOTHER
    session (one that differs in AS-number width, in AIGP_SESSION, ...: whatever it makes of the bytes), then by its
    own: what its own session reports is still the reading of the reference for ITS parameters.  Every case that
    carries an attribute whose reading depends on a session parameter (AIGP, AS_PATH, AGGREGATOR, AS4_*) comes
    first, the rest is sampled."""
    rng = ctx.rng
    dep = {2, 7, 17, 18, 26}
    first = [c for c in cases if 'sem' in c and c.get('model', '').startswith('ok') and any(a['code'] == 26 for a in c['sem']['a'])]
    rest = [c for c in cases if 'sem' in c and c.get('model', '').startswith('ok') and c not in first and any(a['code'] in dep for a in c['sem']['a'])]
    picks = first + (rest if len(rest) <= n else rng.sample(rest, n))
    seen: set = set()
    for c in picks[: n + len(first)]:
        if ctx.time_left() < 10:
            break
        S = sessions[c['s']]
        has_aigp = any(a['code'] == 26 for a in c['sem']['a'])
        others = [T for T in sessions if T is not S and ((T.aigp != S.aigp) if has_aigp else (T.asn4 != S.asn4))]
        if not others:
            continue
        T = rng.choice(others)
        T.decode(c['body'])
        what, details, res = outcome(S, c['body'], c['model'])
        ctx.evaluations += 1
        ctx.count('other-session-first' + (':aigp' if has_aigp else ''))
        if what in ('', 'model-refuses', 'family-not-negotiated'):
            continue
        canon = {'what': 'other-session-first:' + what, 'aigp': has_aigp, 'parts': sorted(details.get('parts', [])) if isinstance(details.get('parts'), list) else None}
        key = json.dumps(canon, sort_keys=True)
        ctx.count('fail:other-session-first')
        if key in seen:
            continue
        seen.add(key)
        ctx.failures.append(Failure('update-class', canon, {'shape': S.shape() | {'addpath': S.addpath, 'extnh': S.extnh}, 'other': T.shape() | {'addpath': T.addpath, 'extnh': T.extnh}, 'body': c['body'].hex(), 'other_first': True},
                                    f'after another session of the process (aigp={T.aigp}, asn4={T.asn4}) decoded the same bytes, this session (aigp={S.aigp}, asn4={S.asn4}) reports: {what} {json.dumps(details, default=str)[:400]}'))
    AttributeCollection.cached = None
    AttributeCollection.previous = b''


def reannounce_stream(ctx: Ctx, sessions: list, cases: list, n: int) -> None:
    """A next-hop failover: the peer announces the same routes again with the same attributes and ANOTHER next hop
    (MP_REACH_NLRI: the next hop is not among the attributes; classic IPv4: it is the NEXT_HOP attribute).  The
    Adj-RIB-In must then hold every route with the next hop of the second UPDATE — as the reference reads it from the
    second UPDATE alone."""
    rng = ctx.rng
    picks = [c for c in cases if 'sem' in c and c.get('model', '').startswith('ok') and (any(a['code'] == 14 and 'nlris' in a for a in c['sem']['a']) or c['sem']['n'])]
    if len(picks) > n:
        picks = rng.sample(picks, n)
    if not picks:
        return
    drv = common.Driver('drv_wire')
    seen: set = set()
    try:
        for c in picks:
            if ctx.time_left() < 10:
                break
            S = sessions[c['s']]
            u2 = copy.deepcopy(c['sem'])
            changed = False
            for a in u2['a']:
                if a['code'] == 14 and 'nlris' in a:
                    old = a['nh']
                    for _ in range(8):
                        a['nh'] = wiregen.gen_nexthop(rng, tuple(a['fam']), S.shape(), set())
                        if a['nh'] != old and len(a['nh']) == len(old):
                            changed = True
                            break
                    else:
                        a['nh'] = old
                elif a['code'] == 3 and u2['n']:
                    old = a['f'][0]
                    a['f'] = [wiregen.ip4(rng)]
                    changed = changed or a['f'][0] != old
            if not changed:
                continue
            hex2 = drv.ask(f'wire encode {S.params()} {wiregen.render(u2)}')
            if not hex2 or hex2.startswith(('err', 'bad')):
                continue
            body2 = bytes.fromhex(hex2) if hex2 != '-' else b''
            line2 = drv.ask(f'wire decode {S.params()} {hex2}')
            if not line2.startswith('ok'):
                continue
            first, second = S.decode(c['body']), S.decode(body2)
            if first['kind'] != 'ok' or second['kind'] != 'ok' or first.get('report') is None or second.get('report') is None:
                continue
            if first['report'].get('other_families') or second['report'].get('other_families'):
                continue
            S.clear_rib()
            try:
                S.store(first['msg'])
                S.store(second['msg'])
            except Exception as e:  # noqa: BLE001
                ctx.count('reannounce:store-raised:' + type(e).__name__)
                S.clear_rib()
                continue
            ctx.evaluations += 1
            ctx.count('reannounce:next-hop-changed')
            model2 = ref_report(S, line2)
            got = S.adj_rib_in()
            S.clear_rib()
            bad = []
            for item in model2['ann']:
                fam, nh, nl = item.split('/')
                f = nl.split(':')
                key = f'{fam}/' + ':'.join([f[0], '-'] + f[2:])
                if key in got and got[key][0] != nh:
                    bad.append((key, got[key][0], nh))
            if not bad:
                continue
            canon = {'what': 'reannounce:rib-next-hop', 'families': sorted({k.split('/')[0] for k, _, _ in bad})}
            key = json.dumps(canon, sort_keys=True)
            ctx.count('fail:reannounce')
            if key in seen:
                continue
            seen.add(key)
            k0, had, want = bad[0]
            ctx.failures.append(Failure('update-class', canon, {'shape': S.shape() | {'addpath': S.addpath, 'extnh': S.extnh}, 'body': c['body'].hex(), 'body2': body2.hex(), 'reannounce': True},
                                        f'the same route announced again with another next hop: Adj-RIB-In holds {k0} via {had}, the second UPDATE says {want}'))
    finally:
        drv.close()


def malformed_stream(ctx: Ctx, sessions: list, cases: list, n: int) -> None:
    """Single-point corruptions and truncations of generated bodies: NOT part of the property (C08 and
    C03 judge what must happen to them). Run to show where the two readings part on malformed input:
    the reference answers with the RFC 4271 NOTIFICATION, ExaBGP may apply RFC 7606. Counters only."""
    rng = ctx.rng
    if not cases or ctx.time_left() < 15:
        return
    picks = [rng.choice(cases) for _ in range(n)]
    bodies = []
    for c in picks:
        b = bytearray(c['body'])
        x = rng.random()
        if x < 0.5 and b:
            b[rng.randrange(len(b))] ^= 1 << rng.randrange(8)
        elif x < 0.75 and len(b) > 4:
            del b[rng.randrange(4, len(b)) :]
        else:
            b += bytes([rng.getrandbits(8)])
        bodies.append(bytes(b))
    outs = common.run_driver('drv_wire', [f'wire decode {sessions[c["s"]].params()} {b.hex() or "-"}' for c, b in zip(picks, bodies)])
    for c, b, o in zip(picks, bodies, outs):
        if ctx.time_left() < 8:
            break
        res = sessions[c['s']].decode(b)
        ref = 'accepts' if o.startswith('ok') else 'err ' + o[4:]
        impl = 'accepts' if res['kind'] == 'ok' else f'notify {res["code"]} {res["sub"]}' if res['kind'] == 'notify' else 'raises ' + res['exc']
        ctx.count(f'malformed: reference {ref} / exabgp {impl}')
        ctx.evaluations += 1


def replay(path: str) -> int:
    data = json.loads(Path(path).read_text())
    rp = data['replay']
    sh = rp['shape']
    OPAQUE_CODES.update(wiregen.exabgp_only_codes())
    OPAQUE_CODES.discard(26)
    S = wirerig.Session(addpath=[tuple(x) for x in sh['addpath']], asn4=sh['asn4'], extnh=[tuple(x) for x in sh['extnh']], aigp=sh.get('aigp', False))
    if rp.get('reannounce'):
        b1, b2 = bytes.fromhex(rp['body']), bytes.fromhex(rp['body2'])
        first, second = S.decode(b1), S.decode(b2)
        S.clear_rib()
        S.store(first['msg'])
        S.store(second['msg'])
        got = S.adj_rib_in()
        print('first  :', json.dumps(first['report'].get('ann'))[:400])
        print('second :', json.dumps(second['report'].get('ann'))[:400])
        print('Adj-RIB-In:', {k: v[0] for k, v in got.items()})
        bad = 0
        for item in second['report'].get('ann', []):
            fam, nh, nl = item.split('/')
            f = nl.split(':')
            key = f'{fam}/' + ':'.join([f[0], '-'] + f[2:])
            if key in got and got[key][0] != nh:
                print('STALE', key, 'held via', got[key][0], 'announced via', nh)
                bad += 1
        return 1 if bad else 0
    if rp.get('other_first'):
        o = rp['other']
        T = wirerig.Session(addpath=[tuple(x) for x in o['addpath']], asn4=o['asn4'], extnh=[tuple(x) for x in o['extnh']], aigp=o.get('aigp', False))
        body = bytes.fromhex(rp['body'])
        T.decode(body)
        drv = common.Driver('drv_wire')
        try:
            line = drv.ask(f'wire decode {S.params()} {rp["body"]}')
        finally:
            drv.close()
        what, details, _ = outcome(S, body, line)
        print('other session first:', T.params(), '; then', S.params())
        print('reference:', line)
        print('real path:', what or 'agrees', json.dumps(details, default=str)[:1500])
        return 1 if what else 0
    if rp.get('repeat'):
        body = bytes.fromhex(rp['body'])
        first = S.decode(body)
        bad = 0
        print('first  :', json.dumps({f: first.get('report', {}).get(f) for f in ('ann', 'wd', 'attrs')}, default=str)[:600])
        for k in (1, 2):
            again = S.decode(body, fresh=False)
            same = again['kind'] == 'ok' and again.get('report') == first.get('report')
            print(f'repeat {k}:', 'same' if same else json.dumps({f: (again.get('report') or {}).get(f) for f in ('ann', 'wd', 'attrs')}, default=str)[:600])
            bad += not same
        return 1 if bad else 0
    drv = common.Driver('drv_wire')
    try:
        if 'sem' in rp:
            u = norm_sem(rp['sem'])
            hexs = drv.ask(f'wire encode {S.params()} {wiregen.render(u)}')
        else:
            hexs = rp['body']
        line = drv.ask(f'wire decode {S.params()} {hexs}')
    finally:
        drv.close()
    what, details, res = outcome(S, bytes.fromhex(hexs), line)
    print('shape    :', S.params())
    print('body     :', hexs)
    print('reference:', line)
    print('real path:', what or 'agrees', json.dumps(details, default=str)[:1500])
    return 1 if what else 0
