"""C17 — configuration reload applies the difference, or nothing at all.

Correspondence of M-Reload (lean/ExaModel/Model/Reload.lean, driver `drv_reload`) with the real
`Reactor.reload()` / `Configuration.reload()` on configuration FILES, real peers running the real
`Peer._run()` (harness/reloadrig.py), plus the property's own oracle on the implementation:

  success : after the reload and a drain (sessions that were down are established afterwards),
            every peer's table — rebuilt from the bytes it was sent — is the new configuration's
            routes plus the live API routes;
  failure : `configuration.neighbors` (same objects), `configuration.processes`, every RIB's cache
            and queues are exactly as before, nothing is sent afterwards that was not already
            due, a corrected file can be reloaded, and an API command still works.
"""

from __future__ import annotations

import copy
import json
from typing import Any

from harness import common, reloadrig as R, ribrig
from harness.common import Ctx, Disagreement, Failure

THEOREM_MODULES = ['ExaModel.Props.C17']
DRIVERS = ['drv_reload']
TABLES: list[str] = []  # no generated table is used by this property
ASSUMPTIONS = [
    'adj-rib-out is kept; configured routes belong to a family of their neighbor; no configured route is parked by a `withdraw` watchdog (theorems: RoutesOK; such cases are still run through the correspondence)',
    'every route in an Adj-RIB-Out belongs to a family the RIB serves (FamOK, as in C11)',
    'which API routes survive a successful reload: those whose prefix is not a configured one (old or new section); where the configuration and the API both claim a prefix the oracle accepts either owner',
    'the emission order between different NLRIs inside one snapshot is not modelled: per-NLRI subsequences are compared (as in C04)',
    'session establishment itself is replaced in the rig (Peer._establish): the reconnect path belongs to C05/C10/C11',
    'configuration files list their process sections first; multi-session neighbors and templates are not generated',
    'the peer applies UPDATEs in the order sent (TCP)',
]
PROP = 'C17'

NAMES = [1, 2, 3, 4]


# ---------------------------------------------------------------------------------------------
# abstract helpers (independent of the model)


def live_routes(nb: dict) -> dict[int, tuple[int, int]]:
    """prefix -> (attr, nh) the section asks to announce (last one listed wins)."""
    t: dict[int, tuple[int, int]] = {}
    for r in nb['routes']:
        n, a, h = r[0], r[1], r[2]
        wd = r[3] if len(r) > 3 else None
        if ribrig.NLRI_FAM[n] not in nb['fams']:
            continue
        if wd and wd[1]:
            continue
        t[n] = (a, h)
    return t


def parked(nb: dict) -> set[int]:
    return {r[0] for r in nb['routes'] if len(r) > 3 and r[3] and r[3][1]}


def by_name(cfg: dict) -> dict[int, dict]:
    return {nb['name']: nb for nb in cfg['nbrs']}


def expected_before(sc: dict) -> dict[int, dict[int, tuple[int, int]]]:
    out = {}
    for nb in sc['old']['nbrs']:
        t = dict(live_routes(nb))
        for op in sc['api']:
            if op[0] != nb['name']:
                continue
            _, action, n, a, h = op
            if ribrig.NLRI_FAM[n] not in nb['fams']:
                continue
            if action == 'announce':
                t[n] = (a, h)
            else:
                t.pop(n, None)
        out[nb['name']] = t
    return out


def expected_after(sc: dict) -> dict[int, dict[int, set]]:
    """name -> prefix -> set of acceptable values (None = not held) after a SUCCESSFUL reload."""
    old = by_name(sc['old'])
    before = expected_before(sc)
    out: dict[int, dict[int, set]] = {}
    for nb in sc['new']['nbrs']:
        a = nb['name']
        newt = live_routes(nb)
        allowed: dict[int, set] = {}
        if a not in old:
            for n in ribrig.NLRIS:
                allowed[n] = {newt.get(n)}
            for n in parked(nb):
                allowed[n] = {None, next((r[1], r[2]) for r in nb['routes'] if r[0] == n)}
            out[a] = allowed
            continue
        oldt = live_routes(old[a])
        touched = {op[2] for op in sc['api'] if op[0] == a}
        bt = before[a]
        for n in ribrig.NLRIS:
            if n in newt:
                s = {newt[n]}
                if n in touched and n in bt:
                    s.add(bt[n])  # the API re-announced a configured prefix: either owner
            elif n in oldt or n in parked(old[a]):
                s = {None}
                if n in touched and n in bt:
                    s.add(bt[n])
            elif ribrig.NLRI_FAM[n] not in nb['fams']:
                s = {None}
            else:
                s = {bt.get(n)}
            if n in parked(nb) or n in parked(old[a]):
                s |= {None} | {(r[1], r[2]) for r in nb['routes'] + old[a]['routes'] if r[0] == n}
            allowed[n] = s
        out[a] = allowed
    return out


def delta_kinds(sc: dict) -> set[str]:
    kinds: set[str] = set()
    old, new = by_name(sc['old']), by_name(sc['new'])
    for a in set(old) - set(new):
        kinds.add('neighbor-removed')
    for a in set(new) - set(old):
        kinds.add('neighbor-added')
    for a in set(old) & set(new):
        o, n = old[a], new[a]
        if o['key'] != n['key']:
            kinds.add('session-param-changed')
        if o['fams'] != n['fams']:
            kinds.add('families-changed')
        if o.get('desc') != n.get('desc'):
            kinds.add('description-changed')
        ot, nt = live_routes(o), live_routes(n)
        for m in set(ot) - set(nt):
            kinds.add('route-removed')
        for m in set(nt) - set(ot):
            kinds.add('route-added')
        for m in set(ot) & set(nt):
            if ot[m][0] != nt[m][0]:
                kinds.add('attr-changed')
            if ot[m][1] != nt[m][1]:
                kinds.add('nexthop-changed')
    return kinds


# ---------------------------------------------------------------------------------------------
# faults


def fault_text(sc: dict) -> tuple[str | None, str, dict]:
    """(text of the file to reload or None = no file, model fault code, configuration as the model is told)."""
    f = sc.get('fault')
    new = sc['new']
    lines = R.config_lines(new)
    ends = R.nbr_end_lines(new)
    if not f:
        return '\n'.join(lines) + '\n', 'ok', new
    kind = f['kind']
    if kind == 'missing':
        return None, 'missing', new
    if kind == 'empty':
        return '', 'missing', new
    if kind == 'syntax':
        at = f['line']
        bad = lines[:at] + [f.get('text', 'bogus;')] + lines[at:]
        k = sum(1 for e in ends if e < at)
        # a fault in the very first statement: nothing was parsed, no section entered
        return '\n'.join(bad) + '\n', ('first' if at == 0 else f'syn:{k}'), new
    if kind == 'unbalanced':
        # drop the closing brace of neighbor i: the next section starts inside it
        i = f['nbr']
        bad = lines[: ends[i]] + lines[ends[i] + 1 :]
        if i == len(new['nbrs']) - 1:
            # the file ends inside its last section: the parser takes the end of file for its closing
            # brace, the section is completed and the reload SUCCEEDS with the whole configuration
            return '\n'.join(bad) + '\n', 'ok', new
        return '\n'.join(bad) + '\n', f'syn:{i}', new
    if kind == 'no-peer-as':
        i = f['nbr']
        start = (ends[i - 1] + 1) if i else 4 * len(new['procs'])
        bad = [ln for j, ln in enumerate(lines) if not (start <= j <= ends[i] and ln.strip().startswith('peer-as'))]
        return '\n'.join(bad) + '\n', f'syn:{i}', new
    if kind == 'bad-value':
        i = f['nbr']
        start = (ends[i - 1] + 1) if i else 4 * len(new['procs'])
        bad = [('    hold-time abc;' if (start <= j <= ends[i] and ln.strip().startswith('hold-time')) else ln) for j, ln in enumerate(lines)]
        return '\n'.join(bad) + '\n', f'syn:{i}', new
    if kind == 'duplicate':
        i = f['nbr']
        bad = lines + R.nbr_lines(new['nbrs'][i])
        return '\n'.join(bad) + '\n', f'syn:{len(new["nbrs"])}', new
    if kind == 'exception':
        # a value parser raises RuntimeError: on the hold-time of neighbor i, or on the j-th route of the file
        if 'nbr' in f:
            return '\n'.join(lines) + '\n', f'exc:{f["nbr"]}', new
        j = f['route']
        seen = 0
        k = 0
        for i, nb in enumerate(new['nbrs']):
            if j < seen + len(nb['routes']):
                k = i
                break
            seen += len(nb['routes'])
        return '\n'.join(lines) + '\n', f'exc:{k}', new
    if kind == 'validation':
        # a neighbor names a process that is not defined: validate() complains, `_reload` returns True anyway
        cfg = copy.deepcopy(new)
        cfg['nbrs'][f['nbr']]['proc'] = 'ghost'
        return '\n'.join(R.config_lines(cfg)) + '\n', 'ok', new
    raise ValueError(f)


class Patch:
    """The monkey-patched value parser of an `exception` fault (restored afterwards)."""

    def __init__(self, f: dict | None) -> None:
        self.f = f if f and f['kind'] == 'exception' else None
        self.undo: list = []

    def __enter__(self) -> 'Patch':
        if not self.f:
            return self
        from exabgp.configuration.neighbor import ParseNeighbor
        from exabgp.configuration.static import ParseStatic

        if 'nbr' in self.f:
            table, key, at = ParseNeighbor.known, 'hold-time', self.f['nbr']
        else:
            table, key, at = ParseStatic.known, 'med', self.f['route']
        orig = table[key]
        count = {'n': 0}

        def raising(tokeniser: Any, *a: Any) -> Any:
            i = count['n']
            count['n'] += 1
            if i == at:
                raise RuntimeError('injected parser fault')
            return orig(tokeniser, *a)

        table[key] = raising
        self.undo.append((table, key, orig))
        return self

    def __exit__(self, *a: Any) -> None:
        for table, key, orig in self.undo:
            table[key] = orig


def is_fault(sc: dict) -> bool:
    """Does the scenario ask for a reload that must fail?  (`validation` is not one: see fault_text)"""
    f = sc.get('fault')
    if not f or f['kind'] == 'validation':
        return False
    if f['kind'] == 'unbalanced' and f['nbr'] == len(sc['new']['nbrs']) - 1:
        return False
    return True


def fault_class(sc: dict) -> str:
    f = sc.get('fault')
    if not is_fault(sc):
        return 'ok'
    return {'syntax': 'syntax', 'unbalanced': 'syntax', 'no-peer-as': 'syntax', 'bad-value': 'syntax', 'duplicate': 'syntax', 'exception': 'exception', 'missing': 'missing', 'empty': 'missing', 'validation': 'validation'}[f['kind']]


# ---------------------------------------------------------------------------------------------
# one scenario on both sides


def per_nlri(events: list) -> dict:
    """Per-prefix subsequences, an event repeated identically in a row counted once (re-sending the same
    announce changes nothing for the peer; whether the routes the parser inserted go out before or
    with the `replace_reload` of the next loop iteration depends on where the reload interrupted
    the peer's coroutine — theorem reload_delta_up_midloop covers both)."""
    out: dict = {}
    for e in events:
        seq = out.setdefault(e[1], [])
        if not seq or seq[-1] != tuple(e):
            seq.append(tuple(e))
    return out


def parse_model_events(s: str) -> list[tuple]:
    out = []
    if s == '-':
        return out
    for item in s.split(';'):
        kind, arg = item.split(' ')
        nums = tuple(int(x) for x in arg.split(':'))
        if kind in ('A', 'W'):
            out.append((kind,) + nums)
    return out


class Model:
    def __init__(self, drv: common.Driver) -> None:
        self.drv = drv
        self.sessions: dict[int, list[list]] = {}
        drv.ask('reload init')

    def ask(self, line: str) -> str:
        out = self.drv.ask(line)
        if out == 'bad-op':
            raise common.Infra(f'driver refused: {line}')
        return out

    def peers(self) -> dict[int, list[int]]:
        out = {}
        s = self.ask('reload peers')
        if s != '-':
            for row in s.split(','):
                v = [int(x) for x in row.split(':')]
                out[v[0]] = v
        return out

    def est(self, a: int) -> None:
        self.ask(f'reload est {a}')
        p = self.peers().get(a)
        if p and p[2]:
            self.sessions.setdefault(a, []).append([])

    def drain(self, a: int) -> None:
        evs = parse_model_events(self.ask(f'reload drain {a}'))
        if self.sessions.get(a):
            self.sessions[a][-1].extend(evs)

    def state(self) -> dict:
        ribs = {}
        names = self.ask('reload ribs')
        if names != '-':
            for a in names.split(','):
                ribs[int(a)] = self.ask(f'reload rib {a}')
        peers = self.ask('reload peers')
        return {'nbrs': self.ask('reload nbrs'), 'procs': self.ask('reload procs'), 'peers': sorted(peers.split(',')) if peers != '-' else [], 'ribs': ribs}


def impl_state(rig: R.ReloadRig) -> dict:
    return {'nbrs': rig.nbrs(), 'procs': rig.procs(), 'peers': rig.peers(), 'ribs': rig.ribs()}


def diff_state(label: str, impl: dict, model: dict, skip_procs: bool = False) -> str | None:
    for k in ('nbrs', 'procs', 'peers', 'ribs'):
        if k == 'procs' and skip_procs:
            continue
        if impl[k] != model[k]:
            return f'{label}: {k}: impl {impl[k]} model {model[k]}'
    return None


def follow_up(rig: R.ReloadRig, model: Model | None) -> None:
    """After a reload: let established peers run (loop top, transmission, teardown), then establish
    whatever is configured and not established, and drain.  Both sides follow their own state."""
    rig.settle()
    for a in NAMES:
        peer = rig.peer(a)
        if peer is None:
            continue
        for _ in range(3):
            if rig.establish(a) == 'up':
                break
            rig.settle()
    rig.settle()
    if model is None:
        return
    for a, p in model.peers().items():
        if p[2] and not p[3]:
            model.ask(f'reload looptop {a}')
            model.drain(a)
        elif p[2] and p[3]:
            model.ask(f'reload lost {a}')
    for a in NAMES:
        for _ in range(3):
            p = model.peers().get(a)
            if p is None or p[2]:
                break
            model.est(a)
        p = model.peers().get(a)
        if p is not None and p[2]:
            model.drain(a)


def run_scenario(sc: dict, drv: common.Driver | None) -> dict:
    """Execute on the real code (and on the model when a driver is given)."""
    res: dict = {'disagreement': None, 'failures': [], 'error': None, 'verdict': None, 'notes': []}
    rig = R.ReloadRig()
    model = Model(drv) if drv is not None else None
    try:
        # ---- initial load --------------------------------------------------------------------
        rig.write_file('\n'.join(R.config_lines(sc['old'])) + '\n')
        if not rig.reload():
            res['error'] = f'initial configuration refused: {rig.cfg.error}'
            return res
        if model:
            model.ask(R.model_load(sc['old'], 'ok'))
        for a in sc['up']:
            rig.establish(a)
            if model:
                model.est(a)
        mode = sc.get('mode', 'settled')
        if sc['up']:
            rig.settle()
            if model:
                for a in sc['up']:
                    model.drain(a)
        if model and not res['disagreement']:
            res['disagreement'] = diff_state('after load', impl_state(rig), model.state())
        # ---- API activity --------------------------------------------------------------------
        names = by_name(sc['old'])
        for op in sc['api']:
            a, action, n, at, h = op
            if mode == 'settled':
                ans = rig.api_route(a, action, n, at, h)
                if ans != ['done']:
                    res['notes'].append(f'api answered {ans} to {op}')
                rig.settle()
            else:
                # burst: the same entry point the API callback ends in, without running the event loop
                route = rig.reactor.api.api_route(ribrig.route_text(n, at, h), action)[0]
                key = rig.real_name(a)
                if action == 'announce':
                    rig.cfg.announce_route([key], route)
                else:
                    rig.cfg.withdraw_route([key], route)
            if model and ribrig.NLRI_FAM[n] in names[a]['fams']:
                if action == 'announce':
                    model.ask(f'reload api {a} add {n}:{ribrig.NLRI_FAM[n]}:{at}:{h}:{ribrig.grp_of(n, at, h)} 0')
                else:
                    model.ask(f'reload api {a} del {n} {ribrig.NLRI_FAM[n]}')
                if mode == 'settled' and a in sc['up']:
                    model.drain(a)
        if mode == 'inflight' and sc['up']:
            # let every established peer take its snapshot (first `next()` of updates()): stop as soon as
            # no queue is pending, i.e. right after the first message of the last generator created
            live = [rig.current(a) for a in sc['up']]

            async def until_started() -> None:
                import asyncio

                for _ in range(200000):
                    if not any(s.peer.neighbor.rib.outgoing.pending() for s in live if s and not s.task.done()):
                        return
                    await asyncio.sleep(0)

            rig.loop.run_until_complete(until_started())
            if model:
                for a in sc['up']:
                    model.ask(f'reload start {a}')
        midloop = mode == 'midloop' and len(sc['up']) == 1 and rig.park_in_read(sc['up'][0])
        if model and not res['disagreement']:
            res['disagreement'] = diff_state('before reload', impl_state(rig), model.state())
        before = rig.snapshot()
        exp_before = expected_before(sc)
        # ---- the reload ----------------------------------------------------------------------
        text, code, told = fault_text(sc)
        rig.write_file(text)
        with Patch(sc.get('fault')):
            verdict = rig.reload()
        if midloop:
            rig.release(sc['up'][0])
        res['verdict'] = verdict
        after = rig.snapshot()
        if model:
            mv = model.ask(R.model_load(told, code))
            if not res['disagreement'] and (mv == 'ok') != verdict:
                res['disagreement'] = f'verdict: impl {verdict} model {mv}'
            if not res['disagreement']:
                res['disagreement'] = diff_state('after reload', impl_state(rig), model.state(), skip_procs=False)
        if midloop and model:
            # the rest of the interrupted iteration runs before the loop top sees the new definition
            a = sc['up'][0]
            p = model.peers().get(a)
            if p and p[2]:
                evs = parse_model_events(model.ask(f'reload sendupd {a}'))
                if model.sessions.get(a):
                    model.sessions[a][-1].extend(evs)
        if not sc.get('no_sessions'):
            follow_up(rig, model)
        if model and not res['disagreement']:
            res['disagreement'] = diff_state('after follow-up', impl_state(rig), model.state(), skip_procs=False)
        # ---- oracle --------------------------------------------------------------------------
        fclass = fault_class(sc)
        adj_off = any(not nb.get('adj', True) for nb in sc['old']['nbrs'] + sc['new']['nbrs'])
        if verdict and not is_fault(sc) and not adj_off:
            want = expected_after(sc)
            for a, allowed in want.items():
                t = rig.table(a)
                bad = {n: t.get(n) for n in ribrig.NLRIS if t.get(n) not in allowed[n]}
                if bad:
                    acc = {n: sorted(map(str, allowed[n])) for n in bad}
                    res['failures'].append((['successful-reload', 'wrong-table'], f'neighbor {a}: after the reload and a drain the peer holds {bad} where {acc} is acceptable'))
            gone = set(by_name(sc['old'])) - set(by_name(sc['new']))
            for a in gone:
                if rig.peer(a) is not None:
                    res['failures'].append((['successful-reload', 'removed-neighbor-kept'], f'neighbor {a} was removed from the configuration and still has a peer'))
        elif verdict and is_fault(sc):
            res['failures'].append((['broken-file-accepted', fclass], f'the reload of a broken file ({sc["fault"]}) reported success'))
        elif not verdict and not is_fault(sc):
            res['failures'].append((['valid-file-refused'], f'the reload of a valid file failed: {str(rig.cfg.error)[:200]}'))
        elif not verdict:
            if [k_ for k_, _ in after['neighbors']] != [k_ for k_, _ in before['neighbors']] or after['neighbors'] != before['neighbors']:
                eff = 'neighbors-wiped' if not after['neighbors'] else 'neighbors-replaced'
                res['failures'].append((['failed-reload', fclass, eff], f'configuration.neighbors after the failed reload: {after["nbrs"]} (before: {before["nbrs"]}; same objects: {after["neighbors"] == before["neighbors"]})'))
            if after['procs'] != before['procs']:
                res['failures'].append((['failed-reload', fclass, 'processes-changed'], f'configuration.processes after the failed reload: {after["procs"]} (before: {before["procs"]})'))
            leaked = after['ribs'] != before['ribs']
            what = f'RIBs after the failed reload {after["ribs"]} (before: {before["ribs"]})' if leaked else ''
            if not adj_off:
                for a, want_t in exp_before.items():
                    if rig.peer(a) is None:
                        continue
                    t = rig.table(a)
                    if t != want_t:
                        leaked = True
                        what += f'; neighbor {a}: after the failed reload the peer holds {t}, before it was due {want_t}'
            if leaked:
                res['failures'].append((['failed-reload', fclass, 'routes-leaked'], what.lstrip('; ')))
        # ---- API still works, a corrected file can be loaded -------------------------------------
        if not verdict and is_fault(sc):
            a0 = sc['old']['nbrs'][0]['name']
            probe = 5 if 1 in names[a0]['fams'] else 8
            ans = rig.api_route(a0, 'announce', probe, 3, 2)
            rig.settle()
            peer0 = rig.peer(a0)
            cached = [] if peer0 is None else [rig.rid(r) for r in peer0.neighbor.rib.outgoing.cached_routes()]
            probe_ok = ans == ['done'] and (probe, ribrig.NLRI_FAM[probe], 3, 2) in cached
            if not probe_ok and not adj_off:
                res['failures'].append((['failed-reload', fclass, 'api-broken'], f'after the failed reload `announce route` answered {ans} and the route is {"not " if (probe, ribrig.NLRI_FAM[probe], 3, 2) not in cached else ""}in the Adj-RIB-Out of neighbor {a0}'))
            if model:
                model.ask(f'reload api {a0} add {probe}:{ribrig.NLRI_FAM[probe]}:3:2:{ribrig.grp_of(probe, 3, 2)} 0')
                p = model.peers().get(a0)
                if p and p[2]:
                    model.drain(a0)
                if not res['disagreement']:
                    res['disagreement'] = diff_state('after api probe', impl_state(rig), model.state(), skip_procs=False)
            if sc.get('again'):
                rig.write_file('\n'.join(R.config_lines(sc['new'])) + '\n')
                again = rig.reload()
                if model:
                    mv = model.ask(R.model_load(sc['new'], 'ok'))
                    if not res['disagreement'] and (mv == 'ok') != again:
                        res['disagreement'] = f'second reload verdict: impl {again} model {mv}'
                if not sc.get('no_sessions'):
                    follow_up(rig, model)
                if model and not res['disagreement']:
                    res['disagreement'] = diff_state('after second reload', impl_state(rig), model.state(), skip_procs=False)
                if not again:
                    res['failures'].append((['failed-reload', fclass, 'next-reload-refused'], f'after the failed reload the corrected file is refused: {str(rig.cfg.error).strip()[:160]}'))
                elif not adj_off:
                    sc2 = copy.deepcopy(sc)
                    sc2['api'] = sc['api'] + ([[a0, 'announce', probe, 3, 2]] if probe_ok else [])
                    want = expected_after(sc2)
                    for a, allowed in want.items():
                        t = rig.table(a)
                        bad = {n: t.get(n) for n in ribrig.NLRIS if t.get(n) not in allowed[n]}
                        if bad:
                            res['failures'].append((['failed-reload', fclass, 'next-reload-wrong-table'], f'neighbor {a}: after the failed reload the corrected file loads, but the peer then holds {bad}'))
                            break
        # ---- wire events, model vs code ------------------------------------------------------------
        if model and not res['disagreement']:
            for a in NAMES:
                key = rig.real_name(a)
                # sessions that reached the main loop (one that found a teardown pending ends before it)
                real_s = [s for s in rig.sessions.get(key or '', []) if s.iterations > 0]
                real = [s.events for s in real_s]
                mod = list(model.sessions.get(a, []))
                if len(real_s) == len(mod):
                    # M-Rib does not model that a family the SESSION did not negotiate is not transmitted
                    # (reachable here only when a failed reload re-attached the RIB with other families)
                    mod = [[e for e in evs if e[2] in s.fams] for evs, s in zip(mod, real_s)]
                # a session cut by a teardown: which of the events still queued made it out before the
                # NOTIFICATION is not modelled (the model drops them at `lost`; the peer's table is reset
                # anyway).  Earlier sessions: what the model sent must be a prefix of what was sent, per
                # prefix (settled mode) — or nothing is compared (burst / inflight / midloop); the session
                # that is up at the end is compared exactly.
                p_end = rig.peer(a)
                alive = p_end is not None and p_end.established()
                bad_events = False
                if len(real) != len(mod):
                    bad_events = True
                else:
                    for i, (x, y) in enumerate(zip(real, mod)):
                        px, py = per_nlri(x), per_nlri(y)
                        if i == len(real) - 1 and alive:
                            bad_events |= px != py
                        elif mode == 'settled':
                            bad_events |= any(px.get(n, [])[: len(q)] != q for n, q in py.items())
                if bad_events:
                    res['disagreement'] = f'wire events of neighbor {a}: impl {real} model {mod}'
                    break
        res['sent'] = {a: [[ribrig.show_ev(e) for e in s.events] for s in rig.sessions.get(rig.real_name(a) or '', [])] for a in NAMES if rig.real_name(a)}
        res['tables'] = {a: rig.table(a) for a in NAMES if rig.peer(a) is not None}
        return res
    except common.Infra:
        raise
    except Exception as e:
        import traceback

        res['error'] = f'{type(e).__name__}: {e}'
        res['tb'] = traceback.format_exc()[-2000:]
        return res
    finally:
        rig.close()


# ---------------------------------------------------------------------------------------------
# generation


def gen_routes(rng: Any, fams: list[int], count: int) -> list[list]:
    pool = [n for n in ribrig.NLRIS if ribrig.NLRI_FAM[n] in fams and n != 5 and n != 8]  # 5 and 8 are the API probes
    rng.shuffle(pool)
    out = []
    for n in pool[:count]:
        r: list = [n, rng.choice([1, 1, 2, 3]), rng.choice([1, 1, 2])]
        x = rng.random()
        if x < 0.06:
            r.append([rng.choice([1, 2]), False])
        elif x < 0.09:
            r.append([rng.choice([1, 2]), True])
        out.append(r)
    return out


def gen_nbr(rng: Any, name: int) -> dict:
    fams = rng.choice([[1], [1, 2], [1, 2], [1, 2]])
    nb = {'name': name, 'key': rng.choice([1, 1, 2]), 'fams': fams, 'routes': gen_routes(rng, fams, rng.choice([0, 1, 2, 2, 3, 4]))}
    return nb


def mutate_nbr(rng: Any, nb: dict) -> dict:
    new = copy.deepcopy(nb)
    x = rng.random()
    if x < 0.15:
        new['key'] = rng.choice([k for k in R.HOLD if k != nb['key']])
    elif x < 0.22:
        new['fams'] = [1] if nb['fams'] == [1, 2] else [1, 2]
    elif x < 0.30:
        new['desc'] = 'changed'
    routes = []
    for r in new['routes']:
        if ribrig.NLRI_FAM[r[0]] not in new['fams']:
            continue
        y = rng.random()
        if y < 0.25:
            continue  # removed
        r = list(r)
        if y < 0.45:
            r[1] = rng.choice([a for a in (1, 2, 3) if a != r[1]])
        elif y < 0.55:
            r[2] = 3 - r[2]
        routes.append(r)
    have = {r[0] for r in routes}
    extra = [r for r in gen_routes(rng, new['fams'], rng.choice([0, 0, 1, 2])) if r[0] not in have]
    pos = rng.randrange(0, len(routes) + 1)
    new['routes'] = routes[:pos] + extra + routes[pos:]
    return new


def gen_scenario(rng: Any, want_fault: str | None = None) -> dict:
    count = rng.choice([1, 2, 2, 3])
    names = rng.sample(NAMES[:3], count)
    old = {'procs': [1], 'nbrs': [gen_nbr(rng, a) for a in names]}
    new = {'procs': [1] if rng.random() < 0.85 else [1, 2], 'nbrs': []}
    for nb in old['nbrs']:
        if rng.random() < 0.08 and len(old['nbrs']) > 1:
            continue  # neighbor removed
        new['nbrs'].append(mutate_nbr(rng, nb) if rng.random() < 0.8 else copy.deepcopy(nb))
    if not new['nbrs']:
        new['nbrs'].append(copy.deepcopy(old['nbrs'][0]))
    if rng.random() < 0.15:
        free = [a for a in NAMES if a not in names]
        new['nbrs'].insert(rng.randrange(0, len(new['nbrs']) + 1), gen_nbr(rng, free[0]))
    up = [a for a in names if rng.random() < 0.6]
    api = []
    for _ in range(rng.choice([0, 0, 1, 2, 3])):
        a = rng.choice(names)
        nb = by_name(old)[a]
        pool = [n for n in ribrig.NLRIS if ribrig.NLRI_FAM[n] in nb['fams'] and n not in (5, 8)]
        n = rng.choice(pool)
        api.append([a, 'announce' if rng.random() < 0.75 else 'withdraw', n, rng.choice([1, 2, 3]), rng.choice([1, 2])])
    sc: dict = {'old': old, 'new': new, 'up': up, 'api': api, 'mode': rng.choice(['settled', 'settled', 'burst', 'inflight'])}
    if len(up) == 1 and rng.random() < 0.5:
        sc['mode'] = 'midloop'  # the reload interrupts the one running peer inside read_message
    if rng.random() < 0.05:
        # adj-rib-out switched off somewhere: only the RIB states are compared (M-Rib does not model a
        # session start without adj-rib-out), so no session is run
        sc['up'] = []
        sc['no_sessions'] = True
        sc['mode'] = 'burst'
        rng.choice(old['nbrs'] + new['nbrs'])['adj'] = False
    kind = want_fault if want_fault is not None else rng.choice(['ok', 'ok', 'ok', 'syntax', 'syntax', 'other'])
    nn = len(new['nbrs'])
    total_routes = sum(len(nb['routes']) for nb in new['nbrs'])
    if kind == 'syntax':
        lines = R.config_lines(new)
        sc['fault'] = {'kind': 'syntax', 'line': rng.randrange(0, len(lines) + 1), 'text': rng.choice(['bogus;', 'bogus;', '}', 'neighbor {', 'hold-time abc;'])}
        if sc['fault']['text'] == '}' or sc['fault']['text'] == 'neighbor {':
            sc['fault']['text'] = 'bogus;'
    elif kind == 'other':
        x = rng.random()
        if x < 0.14:
            sc['fault'] = {'kind': 'missing'}
        elif x < 0.20:
            sc['fault'] = {'kind': 'empty'}
        elif x < 0.40:
            sc['fault'] = {'kind': 'exception', 'nbr': rng.randrange(0, nn)}
        elif x < 0.55 and total_routes:
            sc['fault'] = {'kind': 'exception', 'route': rng.randrange(0, total_routes)}
        elif x < 0.70:
            sc['fault'] = {'kind': 'validation', 'nbr': rng.randrange(0, nn)}
        elif x < 0.80:
            sc['fault'] = {'kind': 'no-peer-as', 'nbr': rng.randrange(0, nn)}
        elif x < 0.88:
            sc['fault'] = {'kind': 'bad-value', 'nbr': rng.randrange(0, nn)}
        elif x < 0.94:
            sc['fault'] = {'kind': 'duplicate', 'nbr': rng.randrange(0, nn)}
        else:
            sc['fault'] = {'kind': 'unbalanced', 'nbr': rng.randrange(0, nn)}
    if sc.get('fault') and rng.random() < 0.5:
        sc['again'] = True
    return sc


def every_line(sc: dict) -> list[dict]:
    """The broken variants of one scenario with the fault at EVERY line of the new file."""
    out = []
    lines = R.config_lines(sc['new'])
    for at in range(len(lines) + 1):
        v = copy.deepcopy(sc)
        v['fault'] = {'kind': 'syntax', 'line': at, 'text': 'bogus;'}
        out.append(v)
    return out


def canon(sc: dict) -> Any:
    return json.loads(json.dumps(sc, sort_keys=True))


def load_corpus() -> list[tuple[dict, str]]:
    d = common.VERIF / 'corpus' / PROP
    cases = []
    if d.exists():
        for f in sorted(d.glob('*.json')):
            cases.append((json.loads(f.read_text())['scenario'], f.stem))
    return cases


def size(sc: dict) -> int:
    return len(json.dumps(sc))


def run(ctx: Ctx) -> None:
    rng = ctx.rng
    ncases = 260 if ctx.tier == 'quick' else 6000
    ctx.rule = (
        'scenarios = (old configuration file, new configuration file or a broken variant, which sessions are established, API activity, transmission mode) over 4 neighbor names x 2 families x 8 prefixes x 3 attribute sets x 2 next hops x 3 hold-times; '
        'a case is non-trivial when the reload succeeded and changed at least one route, neighbor or session parameter, or when it failed; distinct = distinct scenario'
    )
    cases: list[tuple[dict, str]] = load_corpus()
    # the fault at every line of one generated file (a different file per seed), plus random scenarios
    for _ in range(1 if ctx.tier == 'quick' else 6):
        base = gen_scenario(rng, 'ok')
        while len(base['new']['nbrs']) < 2 or not base['up']:
            base = gen_scenario(rng, 'ok')
        base['mode'] = 'settled'
        base.pop('fault', None)
        cases += [(v, 'every-line') for v in every_line(base)]
    for i in range(ncases):
        cases.append((gen_scenario(rng), 'random'))
    drv = common.Driver('drv_reload') if ctx.driver_ok else None
    best: dict[str, tuple[tuple, dict, str]] = {}  # canonical failure -> (rank, scenario, what); corpus cases first
    try:
        for sc, origin in cases:
            if ctx.time_left() < 0:
                ctx.notes.append(f'budget reached after {ctx.evaluations} cases')
                break
            res = run_scenario(sc, drv)
            ctx.evaluations += 1
            ctx.count('origin:' + origin)
            ctx.count('fault:' + (sc['fault']['kind'] if sc.get('fault') else 'none'))
            ctx.count('mode:' + sc.get('mode', 'settled'))
            ctx.count('sessions-up:%d/%d' % (len(sc['up']), len(sc['old']['nbrs'])))
            ctx.count('api-ops:%d' % len(sc['api']))
            for k in delta_kinds(sc):
                ctx.count('delta:' + k)
            ctx.count('verdict:' + str(res['verdict']))
            if res['error']:
                ctx.count('rig-error')
                ctx.disagreements.append(Disagreement('reload', {'scenario': sc}, None, res['error'] + ' ' + res.get('tb', '')[-600:]))
                continue
            if (res['verdict'] and delta_kinds(sc)) or not res['verdict']:
                ctx.nontrivial(canon(sc))
            ctx.sample({'scenario': sc, 'verdict': res['verdict'], 'sent': res.get('sent'), 'tables': {a: {n: list(v) for n, v in t.items()} for a, t in res.get('tables', {}).items()}}, cap=3)
            if res['disagreement']:
                ctx.count('disagreement')
                if len(ctx.disagreements) < 20:
                    ctx.disagreements.append(Disagreement('reload', {'scenario': sc}, None, res['disagreement']))
            for c, what in res['failures']:
                ctx.count('oracle-fail:' + '/'.join(c))
                key = json.dumps(c)
                rank = (origin in ('random', 'every-line'), size(sc))
                if key not in best or rank < best[key][0]:
                    best[key] = (rank, sc, what)
    finally:
        if drv is not None:
            drv.close()
    for key, (_, sc, what) in sorted(best.items()):
        ctx.failures.append(Failure('reload', json.loads(key), {'scenario': sc}, what))
    ctx.notes.append('observed, outside the wording of C17 (not raised): validate() errors are swallowed by _reload (returns True either way); a reload that adds a route parked by `watchdog … withdraw` announces it (replace_reload force-adds it)')


def replay(path: str) -> int:
    data = json.loads(open(path).read())
    sc = data['replay']['scenario'] if 'replay' in data else data['scenario']
    res = run_scenario(sc, None)
    print('scenario :', json.dumps(sc))
    print('verdict  :', res['verdict'])
    print('sent     :', res.get('sent'))
    print('tables   :', res.get('tables'))
    print('error    :', res['error'])
    for c, what in res['failures']:
        print('FAILS    :', c, '-', what)
    print('holds    :', not res['failures'] and not res['error'])
    return 0 if not res['failures'] and not res['error'] else 1
