"""C17 — configuration reload applies the difference, or nothing at all.

Correspondence of M-Reload (lean/ExaModel/Model/Reload.lean, driver `drv_reload`) with the real
`Reactor.reload()` / `Configuration.reload()` on configuration FILES, real peers running the real
`Peer._run()` (harness/reloadrig.py), plus the property's own oracle on the implementation.
A scenario is a HISTORY: an initial file, then 1–4 reloads (successful and failing ones mixed; a
neighbor removed and added again under the same name; the original or a corrected file after a
refused one) with API commands, session losses and transmission modes in between; the oracle is
evaluated after every reload of the history:

  success : after the reload and a drain (sessions that were down are established afterwards),
            every peer's table — rebuilt from the bytes it was sent — is the new configuration's
            routes plus the live API routes;
  failure : `configuration.neighbors` (same objects), `configuration.processes`, every RIB's cache
            and queues are exactly as before, nothing is sent afterwards that was not already
            due, a corrected file can be reloaded, and an API command still works.
"""

from __future__ import annotations

import copy
import json
from typing import Any

from harness import common, reloadrig as R, ribrig
from harness.common import Ctx, Disagreement, Failure

THEOREM_MODULES = ['ExaModel.Props.C17']
DRIVERS = ['drv_reload']
TABLES: list[str] = []  # no generated table is used by this property
ASSUMPTIONS = [
    'adj-rib-out is kept; configured routes belong to a family of their neighbor; no configured route is parked by a `withdraw` watchdog (theorems: RoutesOK; such cases are still run through the correspondence)',
    'every route in an Adj-RIB-Out belongs to a family the RIB serves (FamOK, as in C11)',
    'which API routes survive a successful reload: those whose prefix is not a configured one (old or new section); where the configuration and the API both claim a prefix the oracle accepts either owner',
    'the emission order between different NLRIs inside one snapshot is not modelled: per-NLRI subsequences are compared (as in C04)',
    'session establishment itself is replaced in the rig (Peer._establish): the reconnect path belongs to C05/C10/C11',
    'configuration files list their process sections first; multi-session neighbors and templates are not generated',
    'the peer applies UPDATEs in the order sent (TCP)',
]
PROP = 'C17'

NAMES = [1, 2, 3, 4]


# ---------------------------------------------------------------------------------------------
# abstract helpers (independent of the model)


def live_routes(nb: dict) -> dict[int, tuple[int, int]]:
    """prefix -> (attr, nh) the section asks to announce (last one listed wins)."""
    t: dict[int, tuple[int, int]] = {}
    for r in nb['routes']:
        n, a, h = r[0], r[1], r[2]
        wd = r[3] if len(r) > 3 else None
        if ribrig.NLRI_FAM[n] not in nb['fams']:
            continue
        if wd and wd[1]:
            continue
        t[n] = (a, h)
    return t


def parked(nb: dict) -> set[int]:
    return {r[0] for r in nb['routes'] if len(r) > 3 and r[3] and r[3][1]}


def by_name(cfg: dict) -> dict[int, dict]:
    return {nb['name']: nb for nb in cfg['nbrs']}


def apply_api(table: dict[int, tuple[int, int]], nb: dict, ops: list) -> dict[int, tuple[int, int]]:
    """The intended table of neighbor `nb` after API commands (those of its name, of a family it has)."""
    t = dict(table)
    for op in ops:
        if op[0] != nb['name']:
            continue
        _, action, n, a, h = op
        if ribrig.NLRI_FAM[n] not in nb['fams']:
            continue
        if action == 'announce':
            t[n] = (a, h)
        else:
            t.pop(n, None)
    return t


def allowed_after(cur_nb: dict | None, new_nb: dict, bt: dict[int, tuple[int, int]], owned: set[int]) -> dict[int, set]:
    """prefix -> acceptable values (None = not held) for the peer of `new_nb` after a SUCCESSFUL reload.

    `cur_nb` is the section that was running under that name (None: the name is new — whatever an earlier
    neighbor of that name had is gone with it), `bt` what the peer was due before the reload (configured
    routes and API routes, API commands of this step applied), `owned` the prefixes whose value in `bt`
    comes from the API.  Where the configuration and the API both claim a prefix either owner is accepted."""
    newt = live_routes(new_nb)
    allowed: dict[int, set] = {}
    if cur_nb is None:
        for n in ribrig.NLRIS:
            allowed[n] = {newt.get(n)}
        for n in parked(new_nb):
            allowed[n] = {None, next((r[1], r[2]) for r in new_nb['routes'] if r[0] == n)}
        return allowed
    oldt = live_routes(cur_nb)
    for n in ribrig.NLRIS:
        if n in newt:
            s = {newt[n]}
            if n in owned and n in bt:
                s.add(bt[n])
        elif n in oldt or n in parked(cur_nb):
            s = {None}
            if n in owned and n in bt:
                s.add(bt[n])
        elif ribrig.NLRI_FAM[n] not in new_nb['fams']:
            s = {None}
        else:
            s = {bt.get(n)}
        if n in parked(new_nb) or n in parked(cur_nb):
            # parked by a `withdraw` watchdog: outside the property's wording (see ASSUMPTIONS) — not judged
            s |= {None, bt.get(n)} | {(r[1], r[2]) for r in new_nb['routes'] + cur_nb['routes'] if r[0] == n}
        allowed[n] = s
    return allowed


def delta_kinds(sc: dict) -> set[str]:
    kinds: set[str] = set()
    old, new = by_name(sc['old']), by_name(sc['new'])
    for a in set(old) - set(new):
        kinds.add('neighbor-removed')
    for a in set(new) - set(old):
        kinds.add('neighbor-added')
    for a in set(old) & set(new):
        o, n = old[a], new[a]
        if o['key'] != n['key']:
            kinds.add('session-param-changed')
        if o['fams'] != n['fams']:
            kinds.add('families-changed')
        if o.get('desc') != n.get('desc'):
            kinds.add('description-changed')
        ot, nt = live_routes(o), live_routes(n)
        for m in set(ot) - set(nt):
            kinds.add('route-removed')
        for m in set(nt) - set(ot):
            kinds.add('route-added')
        for m in set(ot) & set(nt):
            if ot[m][0] != nt[m][0]:
                kinds.add('attr-changed')
            if ot[m][1] != nt[m][1]:
                kinds.add('nexthop-changed')
    return kinds


# ---------------------------------------------------------------------------------------------
# faults


def fault_text(sc: dict) -> tuple[str | None, str, dict]:
    """(text of the file to reload or None = no file, model fault code, configuration as the model is told)."""
    f = sc.get('fault')
    new = sc['new']
    lines = R.config_lines(new)
    ends = R.nbr_end_lines(new)
    if not f:
        return '\n'.join(lines) + '\n', 'ok', new
    kind = f['kind']
    if kind == 'missing':
        return None, 'missing', new
    if kind == 'empty':
        return '', 'missing', new
    if kind == 'syntax':
        at = f['line']
        bad = lines[:at] + [f.get('text', 'bogus;')] + lines[at:]
        k = sum(1 for e in ends if e < at)
        # a fault in the very first statement: nothing was parsed, no section entered
        return '\n'.join(bad) + '\n', ('first' if at == 0 else f'syn:{k}'), new
    if kind == 'unbalanced':
        # drop the closing brace of neighbor i: the next section starts inside it
        i = f['nbr']
        bad = lines[: ends[i]] + lines[ends[i] + 1 :]
        if i == len(new['nbrs']) - 1:
            # the file ends inside its last section: the parser takes the end of file for its closing
            # brace, the section is completed and the reload SUCCEEDS with the whole configuration
            return '\n'.join(bad) + '\n', 'ok', new
        return '\n'.join(bad) + '\n', f'syn:{i}', new
    if kind == 'no-peer-as':
        i = f['nbr']
        start = (ends[i - 1] + 1) if i else 4 * len(new['procs'])
        bad = [ln for j, ln in enumerate(lines) if not (start <= j <= ends[i] and ln.strip().startswith('peer-as'))]
        return '\n'.join(bad) + '\n', f'syn:{i}', new
    if kind == 'bad-value':
        i = f['nbr']
        start = (ends[i - 1] + 1) if i else 4 * len(new['procs'])
        bad = [('    hold-time abc;' if (start <= j <= ends[i] and ln.strip().startswith('hold-time')) else ln) for j, ln in enumerate(lines)]
        return '\n'.join(bad) + '\n', f'syn:{i}', new
    if kind == 'duplicate':
        i = f['nbr']
        bad = lines + R.nbr_lines(new['nbrs'][i])
        return '\n'.join(bad) + '\n', f'syn:{len(new["nbrs"])}', new
    if kind == 'exception':
        # a value parser raises RuntimeError: on the hold-time of neighbor i, or on the j-th route of the file
        if 'nbr' in f:
            return '\n'.join(lines) + '\n', f'exc:{f["nbr"]}', new
        j = f['route']
        seen = 0
        k = 0
        for i, nb in enumerate(new['nbrs']):
            if j < seen + len(nb['routes']):
                k = i
                break
            seen += len(nb['routes'])
        return '\n'.join(lines) + '\n', f'exc:{k}', new
    if kind == 'validation':
        # a neighbor names a process that is not defined: validate() complains, `_reload` returns True anyway
        cfg = copy.deepcopy(new)
        cfg['nbrs'][f['nbr']]['proc'] = 'svc ghost'
        return '\n'.join(R.config_lines(cfg)) + '\n', 'ok', new
    raise ValueError(f)


class Patch:
    """The monkey-patched value parser of an `exception` fault (restored afterwards)."""

    def __init__(self, f: dict | None) -> None:
        self.f = f if f and f['kind'] == 'exception' else None
        self.undo: list = []

    def __enter__(self) -> 'Patch':
        if not self.f:
            return self
        from exabgp.configuration.neighbor import ParseNeighbor
        from exabgp.configuration.static import ParseStatic

        if 'nbr' in self.f:
            table, key, at = ParseNeighbor.known, 'hold-time', self.f['nbr']
        else:
            table, key, at = ParseStatic.known, 'med', self.f['route']
        orig = table[key]
        count = {'n': 0}

        def raising(tokeniser: Any, *a: Any) -> Any:
            i = count['n']
            count['n'] += 1
            if i == at:
                raise RuntimeError('injected parser fault')
            return orig(tokeniser, *a)

        table[key] = raising
        self.undo.append((table, key, orig))
        return self

    def __exit__(self, *a: Any) -> None:
        for table, key, orig in self.undo:
            table[key] = orig


def is_fault(sc: dict) -> bool:
    """Does the scenario ask for a reload that must fail?  (`validation` is not one: see fault_text)"""
    f = sc.get('fault')
    if not f or f['kind'] == 'validation':
        return False
    if f['kind'] == 'unbalanced' and f['nbr'] == len(sc['new']['nbrs']) - 1:
        return False
    return True


def fault_class(sc: dict) -> str:
    f = sc.get('fault')
    if not is_fault(sc):
        return 'ok'
    return {'syntax': 'syntax', 'unbalanced': 'syntax', 'no-peer-as': 'syntax', 'bad-value': 'syntax', 'duplicate': 'syntax', 'exception': 'exception', 'missing': 'missing', 'empty': 'missing', 'validation': 'validation'}[f['kind']]


# ---------------------------------------------------------------------------------------------
# one scenario on both sides


def per_nlri(events: list) -> dict:
    """Per-prefix subsequences, an event repeated identically in a row counted once (re-sending the same
    announce changes nothing for the peer; whether the routes the parser inserted go out before or
    with the `replace_reload` of the next loop iteration depends on where the reload interrupted
    the peer's coroutine — theorem reload_delta_up_midloop covers both)."""
    out: dict = {}
    for e in events:
        seq = out.setdefault(e[1], [])
        if not seq or seq[-1] != tuple(e):
            seq.append(tuple(e))
    return out


def parse_model_events(s: str) -> list[tuple]:
    out = []
    if s == '-':
        return out
    for item in s.split(';'):
        kind, arg = item.split(' ')
        nums = tuple(int(x) for x in arg.split(':'))
        if kind in ('A', 'W'):
            out.append((kind,) + nums)
    return out


class Model:
    def __init__(self, drv: common.Driver) -> None:
        self.drv = drv
        self.sessions: dict[int, list[list]] = {}
        drv.ask('reload init')

    def ask(self, line: str) -> str:
        out = self.drv.ask(line)
        if out == 'bad-op':
            raise common.Infra(f'driver refused: {line}')
        return out

    def peers(self) -> dict[int, list[int]]:
        out = {}
        s = self.ask('reload peers')
        if s != '-':
            for row in s.split(','):
                v = [int(x) for x in row.split(':')]
                out[v[0]] = v
        return out

    def est(self, a: int) -> None:
        self.ask(f'reload est {a}')
        p = self.peers().get(a)
        if p and p[2]:
            self.sessions.setdefault(a, []).append([])

    def drain(self, a: int) -> None:
        evs = parse_model_events(self.ask(f'reload drain {a}'))
        if self.sessions.get(a):
            self.sessions[a][-1].extend(evs)

    def state(self) -> dict:
        ribs = {}
        names = self.ask('reload ribs')
        if names != '-':
            for a in names.split(','):
                ribs[int(a)] = self.ask(f'reload rib {a}')
        peers = self.ask('reload peers')
        return {'nbrs': self.ask('reload nbrs'), 'procs': self.ask('reload procs'), 'peers': sorted(peers.split(',')) if peers != '-' else [], 'ribs': ribs, 'pending': self.ask('reload pending')}


def impl_state(rig: R.ReloadRig) -> dict:
    return {'nbrs': rig.nbrs(), 'procs': rig.procs(), 'peers': rig.peers(), 'ribs': rig.ribs(), 'pending': rig.pending()}


def diff_state(label: str, impl: dict, model: dict, skip_procs: bool = False) -> str | None:
    for k in ('nbrs', 'procs', 'peers', 'ribs', 'pending'):
        if k == 'procs' and skip_procs:
            continue
        if impl[k] != model[k]:
            return f'{label}: {k}: impl {impl[k]} model {model[k]}'
    return None


def follow_up(rig: R.ReloadRig, model: Model | None, stay_down: bool = False) -> None:
    """After a reload: let established peers run (loop top, transmission, teardown), then establish
    whatever is configured and not established, and drain.  Both sides follow their own state.
    `stay_down`: nothing is established again (the next reload finds the sessions this one ended still down)."""
    rig.settle()
    for a in NAMES:
        peer = rig.peer(a)
        if peer is None or stay_down:
            continue
        for _ in range(3):
            if rig.establish(a) == 'up':
                break
            rig.settle()
    rig.settle()
    if model is None:
        return
    for a, p in model.peers().items():
        if p[2] and not p[3]:
            model.ask(f'reload looptop {a}')
            model.drain(a)
        elif p[2] and p[3]:
            model.ask(f'reload lost {a}')
    if stay_down:
        return
    for a in NAMES:
        for _ in range(3):
            p = model.peers().get(a)
            if p is None or p[2]:
                break
            model.est(a)
        p = model.peers().get(a)
        if p is not None and p[2]:
            model.drain(a)


def normalize(sc: dict) -> dict:
    """Scenario format: {'old', 'up', 'steps': [{'flap', 'api', 'mode', 'new', 'fault'?}, …]}.
    The one-reload form of the first corpus files ({'old','new','up','api','mode','fault','again'}) is
    read as one step, plus a reload of the valid new file when 'again' is set."""
    if 'steps' in sc:
        return sc
    step = {'flap': [], 'api': sc.get('api', []), 'mode': sc.get('mode', 'settled'), 'new': sc['new']}
    if sc.get('fault'):
        step['fault'] = sc['fault']
    out = {'old': sc['old'], 'up': sc['up'], 'steps': [step]}
    if sc.get('again') and sc.get('fault'):
        out['steps'].append({'flap': [], 'api': [], 'mode': 'settled', 'new': sc['new']})
    if sc.get('no_sessions'):
        out['no_sessions'] = True
    return out


def inject(rig: R.ReloadRig, model: Model | None, running: dict, up_now: list[int], mode: str, op: list, res: dict) -> None:
    """One API command: through the real dispatcher and scheduler (settled), or through the entry point the
    API callback ends in without running the event loop (burst / inflight / midloop)."""
    a, action, n, at, h = op
    names = by_name(running)
    if a not in names or rig.peer(a) is None:
        return
    if mode == 'settled':
        ans = rig.api_route(a, action, n, at, h)
        if ans != ['done']:
            res['notes'].append(f'api answered {ans} to {op}')
        rig.settle()
    else:
        route = rig.reactor.api.api_route(ribrig.route_text(n, at, h), action)[0]
        key = rig.real_name(a)
        if action == 'announce':
            rig.cfg.announce_route([key], route)
        else:
            rig.cfg.withdraw_route([key], route)
    if model and ribrig.NLRI_FAM[n] in names[a]['fams']:
        if action == 'announce':
            model.ask(f'reload api {a} add {n}:{ribrig.NLRI_FAM[n]}:{at}:{h}:{ribrig.grp_of(n, at, h)} 0')
        else:
            model.ask(f'reload api {a} del {n} {ribrig.NLRI_FAM[n]}')
        if mode == 'settled' and a in up_now:
            model.drain(a)


def run_scenario(sc: dict, drv: common.Driver | None) -> dict:
    """Execute a history of reloads on the real code (and on the model when a driver is given); the
    property's oracle is evaluated after EVERY reload of the history."""
    sc = normalize(sc)
    res: dict = {'disagreement': None, 'failures': [], 'error': None, 'verdict': None, 'verdicts': [], 'notes': []}
    rig = R.ReloadRig()
    model = Model(drv) if drv is not None else None

    def check(label: str) -> None:
        if model and not res['disagreement']:
            res['disagreement'] = diff_state(label, impl_state(rig), model.state())

    try:
        # ---- initial load --------------------------------------------------------------------
        rig.write_file('\n'.join(R.config_lines(sc['old'])) + '\n')
        if not rig.reload():
            res['error'] = f'initial configuration refused: {rig.cfg.error}'
            return res
        if model:
            model.ask(R.model_load(sc['old'], 'ok'))
        for a in sc['up']:
            rig.establish(a)
            if model:
                model.est(a)
        if sc['up']:
            rig.settle()
            if model:
                for a in sc['up']:
                    model.drain(a)
        check('after load')
        running = sc['old']  # the configuration in force
        # what every peer is due (configured + API routes), and which prefixes the API owns
        due: dict[int, dict] = {nb['name']: dict(live_routes(nb)) for nb in running['nbrs']}
        owned: dict[int, set] = {nb['name']: set() for nb in running['nbrs']}
        adj_off = any(not nb.get('adj', True) for nb in running['nbrs'])
        failed_before = False
        for i, step in enumerate(sc['steps']):
            where = f'reload {i + 1}'
            mode = step.get('mode', 'settled')
            adj_off = adj_off or any(not nb.get('adj', True) for nb in step['new']['nbrs'])
            # ---- sessions lost before this reload ------------------------------------------------
            for a in step.get('flap', []):
                if rig.lose(a) and model:
                    model.ask(f'reload lost {a}')
            up_now = [a for a in NAMES if rig.peer(a) is not None and rig.peer(a).established()]
            # ---- API activity --------------------------------------------------------------------
            for op in step.get('api', []):
                inject(rig, model, running, up_now, mode, op, res)
            if mode == 'inflight' and up_now:
                # let every established peer take its snapshot (first `next()` of updates()): stop as soon
                # as no queue is pending, i.e. right after the first message of the last generator created
                live = [rig.current(a) for a in up_now]

                async def until_started(live: list = live) -> None:
                    import asyncio

                    for _ in range(200000):
                        if not any(s.peer.neighbor.rib.outgoing.pending() for s in live if s and not s.task.done()):
                            return
                        await asyncio.sleep(0)

                rig.loop.run_until_complete(until_started())
                if model:
                    for a in up_now:
                        model.ask(f'reload start {a}')
            midloop = mode == 'midloop' and len(up_now) == 1 and rig.park_in_read(up_now[0])
            check(f'before {where}')
            before = rig.snapshot()
            for nb in running['nbrs']:
                a = nb['name']
                due[a] = apply_api(due[a], nb, step.get('api', []))
                for op in step.get('api', []):
                    if op[0] == a and ribrig.NLRI_FAM[op[2]] in nb['fams']:
                        (owned[a].add if op[1] == 'announce' else owned[a].discard)(op[2])
            # ---- the reload ----------------------------------------------------------------------
            text, code, told = fault_text(step)
            rig.write_file(text)
            with Patch(step.get('fault')):
                verdict = rig.reload()
            if midloop:
                rig.release(up_now[0])
            res['verdict'] = verdict
            res['verdicts'].append(verdict)
            after = rig.snapshot()
            if model:
                mv = model.ask(R.model_load(told, code))
                if not res['disagreement'] and (mv == 'ok') != verdict:
                    res['disagreement'] = f'{where}: verdict: impl {verdict} model {mv}'
            check(f'after {where}')
            if midloop and model:
                # the rest of the interrupted iteration runs before the loop top sees the new definition
                a = up_now[0]
                p = model.peers().get(a)
                if p and p[2]:
                    evs = parse_model_events(model.ask(f'reload sendupd {a}'))
                    if model.sessions.get(a):
                        model.sessions[a][-1].extend(evs)
            if not sc.get('no_sessions') and not step.get('immediate'):  # `immediate`: the next reload arrives before any peer has run
                follow_up(rig, model, stay_down=bool(step.get('stay_down')))
            check(f'after the follow-up of {where}')
            # ---- oracle --------------------------------------------------------------------------
            fclass = fault_class(step)
            tag = 'after-a-failed-reload' if failed_before else 'first-attempt'
            if verdict and not is_fault(step):
                cur = by_name(running)
                if (not adj_off or sc.get('adj_off_tables')) and not sc.get('no_sessions'):
                    for nb in step['new']['nbrs']:
                        if step.get('stay_down') and not (rig.peer(nb['name']) is not None and rig.peer(nb['name']).established()):
                            continue  # the session this reload ended is still down: its table is judged after the next one
                        a = nb['name']
                        allowed = allowed_after(cur.get(a), nb, due.get(a, {}), owned.get(a, set()))
                        t = rig.table(a)
                        bad = {n: t.get(n) for n in ribrig.NLRIS if t.get(n) not in allowed[n]}
                        if bad:
                            acc = {n: sorted(map(str, allowed[n])) for n in bad}
                            kind = 'neighbor-added' if a not in cur else tag
                            res['failures'].append((['successful-reload', 'wrong-table', kind], f'{where}, neighbor {a}: after the reload and a drain the peer holds {bad} where {acc} is acceptable'))
                for a in set(cur) - set(by_name(step['new'])):
                    if rig.peer(a) is not None:
                        res['failures'].append((['successful-reload', 'removed-neighbor-kept'], f'{where}: neighbor {a} was removed from the configuration and still has a peer'))
                # the new state of affairs
                running = step['new']
                newdue, newowned = {}, {}
                for nb in running['nbrs']:
                    a = nb['name']
                    t = rig.table(a) if not sc.get('no_sessions') else dict(live_routes(nb))
                    if step.get('stay_down') and not (rig.peer(a) is not None and rig.peer(a).established()):
                        # nobody holds a table: what the peer is due is the new file plus the API routes still valid
                        t = dict(live_routes(nb))
                        t.update({n: v for n, v in due.get(a, {}).items() if n in owned.get(a, set())})
                    newt = live_routes(nb)
                    newdue[a] = dict(t)
                    newowned[a] = {n for n in owned.get(a, set()) if a in cur and t.get(n) is not None and (n not in newt or t[n] != newt[n])}
                due, owned = newdue, newowned
            elif verdict and is_fault(step):
                res['failures'].append((['broken-file-accepted', fclass], f'{where}: the reload of a broken file ({step["fault"]}) reported success'))
                break
            elif not verdict and not is_fault(step):
                res['failures'].append((['valid-file-refused', tag], f'{where}: the reload of a valid file failed: {str(rig.cfg.error).strip()[:200]}'))
                break
            else:
                failed_before = True
                if after['neighbors'] != before['neighbors']:
                    eff = 'neighbors-wiped' if not after['neighbors'] else 'neighbors-replaced'
                    res['failures'].append((['failed-reload', fclass, eff], f'{where}: configuration.neighbors after the failed reload: {after["nbrs"]} (before: {before["nbrs"]}; same objects: {after["neighbors"] == before["neighbors"]})'))
                if after['procs'] != before['procs']:
                    res['failures'].append((['failed-reload', fclass, 'processes-changed'], f'{where}: configuration.processes after the failed reload: {after["procs"]} (before: {before["procs"]})'))
                leaked = after['ribs'] != before['ribs']
                what = f'RIBs after the failed reload {after["ribs"]} (before: {before["ribs"]})' if leaked else ''
                if not adj_off and not sc.get('no_sessions'):
                    for a, want_t in due.items():
                        if rig.peer(a) is None:
                            continue
                        t = rig.table(a)
                        if t != want_t:
                            leaked = True
                            what += f'; neighbor {a}: after the failed reload the peer holds {t}, it was due {want_t}'
                if leaked:
                    res['failures'].append((['failed-reload', fclass, 'routes-leaked'], f'{where}: ' + what.lstrip('; ')))
                # the API still works
                nb0 = running['nbrs'][0]
                a0 = nb0['name']
                probe = 5 if 1 in nb0['fams'] else 8
                ans = rig.api_route(a0, 'announce', probe, 3, 2)
                rig.settle()
                peer0 = rig.peer(a0)
                cached = [] if peer0 is None else [rig.rid(r) for r in peer0.neighbor.rib.outgoing.cached_routes()]
                probe_ok = ans == ['done'] and (probe, ribrig.NLRI_FAM[probe], 3, 2) in cached
                if not probe_ok and not adj_off:
                    res['failures'].append((['failed-reload', fclass, 'api-broken'], f'{where}: after the failed reload `announce route` answered {ans} and the route is {"not " if (probe, ribrig.NLRI_FAM[probe], 3, 2) not in cached else ""}in the Adj-RIB-Out of neighbor {a0}'))
                if probe_ok:
                    due[a0][probe] = (3, 2)
                    owned[a0].add(probe)
                if model:
                    model.ask(f'reload api {a0} add {probe}:{ribrig.NLRI_FAM[probe]}:3:2:{ribrig.grp_of(probe, 3, 2)} 0')
                    p = model.peers().get(a0)
                    if p and p[2]:
                        model.drain(a0)
                    check(f'after the api probe of {where}')
            if res['failures']:
                break  # what follows a violation is not judged
        # ---- wire events, model vs code ------------------------------------------------------------
        settled_only = all(st.get('mode', 'settled') == 'settled' for st in sc['steps'])
        if model and not res['disagreement']:
            for a in NAMES:
                key = rig.real_name(a)
                # sessions that reached the main loop (one that found a teardown pending ends before it)
                real_s = [s for s in rig.sessions.get(key or '', []) if s.iterations > 0]
                real = [s.events for s in real_s]
                mod = list(model.sessions.get(a, []))
                if len(real_s) == len(mod):
                    # M-Rib does not model that a family the SESSION did not negotiate is not transmitted
                    mod = [[e for e in evs if e[2] in s.fams] for evs, s in zip(mod, real_s)]
                # a session cut by a teardown or a loss: which of the events still queued made it out is not
                # modelled (the model drops them at `lost`; the peer's table is reset anyway).  Earlier
                # sessions: what the model sent must be a prefix of what was sent, per prefix (all steps
                # settled) — or nothing is compared; the session that is up at the end is compared exactly.
                p_end = rig.peer(a)
                alive = p_end is not None and p_end.established()
                bad_events = False
                if len(real) != len(mod):
                    bad_events = True
                else:
                    for j, (x, y) in enumerate(zip(real, mod)):
                        px, py = per_nlri(x), per_nlri(y)
                        if j == len(real) - 1 and alive:
                            bad_events |= px != py
                        elif settled_only:
                            bad_events |= any(px.get(n, [])[: len(q)] != q for n, q in py.items())
                if bad_events:
                    res['disagreement'] = f'wire events of neighbor {a}: impl {real} model {mod}'
                    break
        res['sent'] = {a: [[ribrig.show_ev(e) for e in s.events] for s in rig.sessions.get(rig.real_name(a) or '', [])] for a in NAMES if rig.real_name(a)}
        res['tables'] = {a: rig.table(a) for a in NAMES if rig.peer(a) is not None}
        return res
    except common.Infra:
        raise
    except Exception as e:
        import traceback

        res['error'] = f'{type(e).__name__}: {e}'
        res['tb'] = traceback.format_exc()[-2000:]
        return res
    finally:
        rig.close()


# ---------------------------------------------------------------------------------------------
# generation


def gen_routes(rng: Any, fams: list[int], count: int) -> list[list]:
    pool = [n for n in ribrig.NLRIS if ribrig.NLRI_FAM[n] in fams and n != 5 and n != 8]  # 5 and 8 are the API probes
    rng.shuffle(pool)
    out = []
    for n in pool[:count]:
        r: list = [n, rng.choice([1, 1, 2, 3]), rng.choice([1, 1, 2])]
        x = rng.random()
        if x < 0.06:
            r.append([rng.choice([1, 2]), False])
        elif x < 0.09:
            r.append([rng.choice([1, 2]), True])
        out.append(r)
    return out


def gen_nbr(rng: Any, name: int) -> dict:
    fams = rng.choice([[1], [1, 2], [1, 2], [1, 2]])
    nb = {'name': name, 'key': rng.choice([1, 1, 2]), 'fams': fams, 'routes': gen_routes(rng, fams, rng.choice([0, 1, 2, 2, 3, 4]))}
    return nb


def mutate_nbr(rng: Any, nb: dict) -> dict:
    new = copy.deepcopy(nb)
    x = rng.random()
    if x < 0.15:
        new['key'] = rng.choice([k for k in R.HOLD if k != nb['key']])
    elif x < 0.22:
        new['fams'] = [1] if nb['fams'] == [1, 2] else [1, 2]
    elif x < 0.30:
        new['desc'] = 'changed'
    routes = []
    for r in new['routes']:
        if ribrig.NLRI_FAM[r[0]] not in new['fams']:
            continue
        y = rng.random()
        if y < 0.25:
            continue  # removed
        r = list(r)
        if y < 0.45:
            r[1] = rng.choice([a for a in (1, 2, 3) if a != r[1]])
        elif y < 0.55:
            r[2] = 3 - r[2]
        routes.append(r)
    have = {r[0] for r in routes}
    extra = [r for r in gen_routes(rng, new['fams'], rng.choice([0, 0, 1, 2])) if r[0] not in have]
    pos = rng.randrange(0, len(routes) + 1)
    new['routes'] = routes[:pos] + extra + routes[pos:]
    return new


def gen_fault(rng: Any, new: dict, kind: str) -> dict | None:
    nn = len(new['nbrs'])
    total_routes = sum(len(nb['routes']) for nb in new['nbrs'])
    if kind == 'syntax':
        lines = R.config_lines(new)
        ends = R.nbr_end_lines(new)
        if nn > 1 and rng.random() < 0.5:
            # inside a later section, so that earlier sections (with their new routes) were completed
            at = rng.randrange(ends[0] + 1, len(lines) + 1)
        else:
            at = rng.randrange(0, len(lines) + 1)
        return {'kind': 'syntax', 'line': at, 'text': rng.choice(['bogus;', 'bogus;', 'hold-time abc;'])}
    x = rng.random()
    if x < 0.14:
        return {'kind': 'missing'}
    if x < 0.20:
        return {'kind': 'empty'}
    if x < 0.40:
        return {'kind': 'exception', 'nbr': rng.randrange(0, nn)}
    if x < 0.55 and total_routes:
        return {'kind': 'exception', 'route': rng.randrange(0, total_routes)}
    if x < 0.65:
        return {'kind': 'validation', 'nbr': rng.randrange(0, nn)}
    if x < 0.77:
        return {'kind': 'no-peer-as', 'nbr': rng.randrange(0, nn)}
    if x < 0.86:
        return {'kind': 'bad-value', 'nbr': rng.randrange(0, nn)}
    if x < 0.94:
        return {'kind': 'duplicate', 'nbr': rng.randrange(0, nn)}
    return {'kind': 'unbalanced', 'nbr': rng.randrange(0, nn)}


def gen_new(rng: Any, running: dict, gone: dict[int, dict]) -> dict:
    """The next file: sections changed, a neighbor removed, a new one added, a removed one added again
    under its old name with other routes."""
    new = {'procs': [1] if rng.random() < 0.85 else [1, 2], 'nbrs': []}
    for nb in running['nbrs']:
        if rng.random() < 0.12 and len(running['nbrs']) > 1:
            continue  # neighbor removed
        new['nbrs'].append(mutate_nbr(rng, nb) if rng.random() < 0.8 else copy.deepcopy(nb))
    if not new['nbrs']:
        new['nbrs'].append(copy.deepcopy(running['nbrs'][0]))
    have = {nb['name'] for nb in new['nbrs']}
    back = [a for a in gone if a not in have]
    if back and rng.random() < 0.6:
        a = rng.choice(back)
        again = gen_nbr(rng, a)
        again['key'] = gone[a]['key']
        new['nbrs'].insert(rng.randrange(0, len(new['nbrs']) + 1), again)
    elif rng.random() < 0.15:
        free = [a for a in NAMES if a not in have and a not in gone]
        if free:
            new['nbrs'].insert(rng.randrange(0, len(new['nbrs']) + 1), gen_nbr(rng, free[0]))
    return new


def gen_api(rng: Any, running: dict) -> list:
    api = []
    names = [nb['name'] for nb in running['nbrs']]
    for _ in range(rng.choice([0, 0, 1, 2, 3])):
        a = rng.choice(names)
        nb = by_name(running)[a]
        pool = [n for n in ribrig.NLRIS if ribrig.NLRI_FAM[n] in nb['fams'] and n not in (5, 8)]
        api.append([a, 'announce' if rng.random() < 0.75 else 'withdraw', rng.choice(pool), rng.choice([1, 2, 3]), rng.choice([1, 2])])
    return api


def gen_scenario(rng: Any, want_fault: str | None = None, steps: int | None = None) -> dict:
    """A history: an initial file, sessions, then 1–4 reloads (successful and failing ones mixed), with API
    commands, session losses and transmission modes in between."""
    count = rng.choice([1, 2, 2, 3])
    names = rng.sample(NAMES[:3], count)
    old = {'procs': [1], 'nbrs': [gen_nbr(rng, a) for a in names]}
    sc: dict = {'old': old, 'up': [a for a in names if rng.random() < 0.6], 'steps': []}
    nsteps = steps if steps is not None else rng.choice([1, 1, 2, 2, 3, 4])
    running = old
    gone: dict[int, dict] = {}
    refused: dict | None = None
    if nsteps == 1 and rng.random() < 0.05:
        # adj-rib-out switched off somewhere: only the RIB states are compared (M-Rib does not model a
        # session start without adj-rib-out), so no session is run
        new = gen_new(rng, running, gone)
        sc['up'] = []
        sc['no_sessions'] = True
        rng.choice(old['nbrs'] + new['nbrs'])['adj'] = False
        step = {'flap': [], 'api': gen_api(rng, running), 'mode': 'burst', 'new': new}
        if rng.random() < 0.5:
            step['fault'] = gen_fault(rng, new, 'syntax')
        sc['steps'].append(step)
        return sc
    for i in range(nsteps):
        x = rng.random()
        if refused is not None and x < 0.5:
            new = copy.deepcopy(running) if rng.random() < 0.5 else copy.deepcopy(refused)  # the original, or the corrected file
        else:
            new = gen_new(rng, running, gone)
        live = [nb['name'] for nb in running['nbrs']]
        step: dict = {'flap': [a for a in live if rng.random() < 0.15], 'api': gen_api(rng, running), 'mode': rng.choice(['settled', 'settled', 'burst', 'inflight', 'midloop']), 'new': new}
        kind = want_fault if (want_fault is not None and i == 0) else rng.choice(['ok', 'ok', 'ok', 'syntax', 'syntax', 'other'])
        if kind != 'ok':
            step['fault'] = gen_fault(rng, new, kind)
        sc['steps'].append(step)
        if is_fault(step):
            refused = new
        else:
            for nb in running['nbrs']:
                if nb['name'] not in {x['name'] for x in new['nbrs']}:
                    gone[nb['name']] = nb
            for nb in new['nbrs']:
                gone.pop(nb['name'], None)
            running = new
            refused = None
    return sc


def resync_scenarios(rng: Any, count: int) -> list[dict]:
    """Histories in which a reload is consumed by an ESTABLISHED session, the API then speaks for a prefix
    the reload touched (removed, changed, or left alone) and the session is lost afterwards: the reload that
    follows the loss finds the peer re-established and judges its table (configured + still-valid API routes).
    What a reload leaves behind in the peer (`neighbor.previous`, the consumed `_neighbor`) is then exercised
    by the next session start (`replace_restart`)."""
    out = []
    for _ in range(count):
        fams = [1, 2]
        routes = gen_routes(rng, fams, rng.choice([2, 3, 4]))
        nb = {'name': 1, 'key': 1, 'fams': fams, 'routes': routes}
        others = [gen_nbr(rng, 2)] if rng.random() < 0.4 else []
        old = {'procs': [1], 'nbrs': [nb] + others}
        kept = copy.deepcopy(routes)
        victim = kept.pop(rng.randrange(len(kept)))
        how = rng.choice(['removed', 'removed', 'changed', 'untouched'])
        if how == 'changed':
            kept.append([victim[0], 1 + victim[1] % 3, victim[2]])
        elif how == 'untouched':
            kept.append(victim)
            if kept:
                kept[0] = [kept[0][0], 1 + kept[0][1] % 3, kept[0][2]]  # the reload changes something else
        if rng.random() < 0.3:
            free = [n for n in ribrig.NLRIS if ribrig.NLRI_FAM[n] in fams and n not in (5, 8) and n not in {r[0] for r in routes}]
            if free:
                kept.append([rng.choice(free), rng.choice([1, 2, 3]), rng.choice([1, 2])])
        new = {'procs': [1], 'nbrs': [dict(nb, routes=kept)] + copy.deepcopy(others)}
        at, h = (victim[1], victim[2]) if rng.random() < 0.5 else (rng.choice([1, 2, 3]), rng.choice([1, 2]))
        api = [[1, 'announce', victim[0], at, h]]
        if rng.random() < 0.3:
            api.append([1, rng.choice(['announce', 'withdraw']), rng.choice([r[0] for r in routes]), rng.choice([1, 2, 3]), 1])
        mode = rng.choice(['settled', 'settled', 'burst'])
        steps = [
            {'flap': [], 'api': [], 'mode': 'settled', 'new': new},
            {'flap': [], 'api': api, 'mode': mode, 'new': copy.deepcopy(new)},
            {'flap': [1], 'api': [], 'mode': 'settled', 'new': copy.deepcopy(new)},
        ]
        if rng.random() < 0.5:  # the loss right after the API command, in the same step
            steps = [steps[0], {'flap': [], 'api': api, 'mode': mode, 'new': copy.deepcopy(new)}, {'flap': [1], 'api': [], 'mode': 'settled', 'new': copy.deepcopy(new)}, {'flap': [1], 'api': [], 'mode': 'settled', 'new': copy.deepcopy(new)}]
        out.append({'old': old, 'up': [1] + ([2] if others and rng.random() < 0.5 else []), 'steps': steps})
    return out


def down_reload_scenarios(rng: Any, count: int) -> list[dict]:
    """Reloads which find the session DOWN: the first one changes a session parameter (the session is ended for a
    re-establishment) and the routes, the peer is kept from coming back (`stay_down`), one or two more reloads change
    routes only; then the peer comes back.  What every reload removed must stay removed (F106)."""
    out = []
    for _ in range(count):
        fams = [1, 2]
        routes = gen_routes(rng, fams, rng.choice([2, 3, 4]))
        nb = {'name': 1, 'key': 1, 'fams': fams, 'routes': routes}
        old = {'procs': [1], 'nbrs': [nb]}
        steps = []
        cur = copy.deepcopy(routes)
        key = 1
        for k in range(rng.choice([2, 2, 3])):
            cur = copy.deepcopy(cur)
            if k == 0:
                key = 2 if rng.random() < 0.7 else 1
            x = rng.random()
            if x < 0.6 and len(cur) > 1:
                cur.pop(rng.randrange(len(cur)))
            elif x < 0.85:
                i = rng.randrange(len(cur))
                cur[i] = [cur[i][0], 1 + cur[i][1] % 3, cur[i][2]]
            else:
                free = [n for n in ribrig.NLRIS if ribrig.NLRI_FAM[n] in fams and n not in (5, 8) and n not in {r[0] for r in cur}]
                if free:
                    cur.append([rng.choice(free), rng.choice([1, 2, 3]), rng.choice([1, 2])])
            steps.append({'flap': [1] if k == 0 and key == 1 else [], 'api': [], 'mode': 'settled', 'new': {'procs': [1], 'nbrs': [dict(nb, key=key, routes=cur)]}, 'stay_down': True})
        steps[-1].pop('stay_down')
        out.append({'old': old, 'up': [1], 'steps': steps})
    # ... and the neighbor REMOVED while the definition a reload gave it has not been through a session, then
    # configured again: the new peer starts from an empty table (`reload_readd_starts_empty`), whatever was pending
    for _ in range(max(2, count // 4)):
        fams = [1, 2]
        routes = gen_routes(rng, fams, rng.choice([2, 3]))
        nb = {'name': 1, 'key': 1, 'fams': fams, 'routes': routes}
        other = gen_nbr(rng, 2)
        fresh = gen_routes(rng, fams, rng.choice([1, 2]))
        steps = [
            {'flap': [], 'api': [[1, 'announce', rng.choice(sorted(n for n in ribrig.NLRIS if ribrig.NLRI_FAM[n] in fams and n not in (5, 8))), 2, 1]] if rng.random() < 0.6 else [], 'mode': 'settled',
             'new': {'procs': [1], 'nbrs': [dict(nb, key=2), copy.deepcopy(other)]}, 'stay_down': True, **({'immediate': True} if rng.random() < 0.5 else {})},
            {'flap': [], 'api': [], 'mode': 'settled', 'new': {'procs': [1], 'nbrs': [copy.deepcopy(other)]}, 'stay_down': True},
            {'flap': [], 'api': [], 'mode': 'settled', 'new': {'procs': [1], 'nbrs': [dict(nb, key=rng.choice([1, 2]), routes=fresh), copy.deepcopy(other)]}},
        ]
        out.append({'old': {'procs': [1], 'nbrs': [nb, copy.deepcopy(other)]}, 'up': [1], 'steps': steps})
    return out


def adj_off_scenarios(rng: Any, count: int) -> list[dict]:
    """`adj-rib-out false` (nothing is kept of what was sent; the configured routes are what a new session sends): a
    neighbor with an ESTABLISHED session, one reload that removes, changes and adds routes, no API command, no
    session loss.  The peer must end up with the routes of the new file — the property does not make an exception
    for this setting.  Oracle only: M-Rib does not model a RIB without its cache (see DESIGN 10.2)."""
    out = []
    for _ in range(count):
        fams = [1, 2]
        routes = [r[:3] for r in gen_routes(rng, fams, rng.choice([2, 3, 4]))]
        kept = copy.deepcopy(routes)
        x = rng.random()
        if x < 0.6 and len(kept) > 1:
            kept.pop(rng.randrange(len(kept)))
        if x > 0.3:
            i = rng.randrange(len(kept))
            kept[i] = [kept[i][0], 1 + kept[i][1] % 3, kept[i][2]]
        if rng.random() < 0.4:
            free = [n for n in ribrig.NLRIS if ribrig.NLRI_FAM[n] in fams and n not in (5, 8) and n not in {r[0] for r in routes}]
            if free:
                kept.append([rng.choice(free), rng.choice([1, 2, 3]), rng.choice([1, 2])])
        nb = {'name': 1, 'key': 1, 'fams': fams, 'routes': routes, 'adj': False}
        out.append({'old': {'procs': [1], 'nbrs': [nb]}, 'up': [1], 'adj_off_tables': True,
                    'steps': [{'flap': [], 'api': [], 'mode': 'settled', 'new': {'procs': [1], 'nbrs': [dict(nb, routes=kept)]}}]})
    return out


def every_line(sc: dict) -> list[dict]:
    """The broken variants of a one-reload scenario with the fault at EVERY line of the new file, each followed
    by a reload of the original file."""
    out = []
    step = sc['steps'][0]
    lines = R.config_lines(step['new'])
    for at in range(len(lines) + 1):
        v = copy.deepcopy(sc)
        v['steps'] = [dict(copy.deepcopy(step), fault={'kind': 'syntax', 'line': at, 'text': 'bogus;'}), {'flap': [], 'api': [], 'mode': 'settled', 'new': copy.deepcopy(sc['old'])}]
        out.append(v)
    return out


def canon(sc: dict) -> Any:
    return json.loads(json.dumps(sc, sort_keys=True))


def load_corpus() -> list[tuple[dict, str]]:
    d = common.VERIF / 'corpus' / PROP
    cases = []
    if d.exists():
        for f in sorted(d.glob('*.json')):
            cases.append((json.loads(f.read_text())['scenario'], f.stem))
    return cases


def size(sc: dict) -> int:
    return len(json.dumps(sc))


def fails_with(sc: dict, c: list) -> bool:
    res = run_scenario(sc, None)
    return not res['error'] and any(x == c for x, _ in res['failures'])


def shrink(sc: dict, c: list, budget: int = 80) -> dict:
    """Greedy reduction of a failing history (same canonical failure): drop reloads, API commands, session
    losses, sessions, neighbors that take no part, routes."""
    cur = normalize(copy.deepcopy(sc))
    runs = 0

    def attempt(cand: dict) -> bool:
        nonlocal runs, cur
        if runs >= budget:
            return False
        runs += 1
        try:
            if cand['steps'] and fails_with(cand, c):
                cur = cand
                return True
        except Exception:
            pass
        return False

    changed = True
    while changed and runs < budget:
        changed = False
        for i in range(len(cur['steps'])):
            cand = copy.deepcopy(cur)
            del cand['steps'][i]
            if attempt(cand):
                changed = True
                break
        if changed:
            continue
        for i, st in enumerate(cur['steps']):
            for fld in ('api', 'flap'):
                for j in range(len(st.get(fld, []))):
                    cand = copy.deepcopy(cur)
                    del cand['steps'][i][fld][j]
                    if attempt(cand):
                        changed = True
                        break
                if changed:
                    break
            if changed:
                break
            if st.get('mode', 'settled') != 'settled':
                cand = copy.deepcopy(cur)
                cand['steps'][i]['mode'] = 'settled'
                if attempt(cand):
                    changed = True
                    break
        if changed:
            continue
        for a in list(cur['up']):
            cand = copy.deepcopy(cur)
            cand['up'].remove(a)
            if attempt(cand):
                changed = True
                break
        if changed:
            continue
        # routes, one at a time, in the initial file and in every file of the history
        files = [cur['old']] + [st['new'] for st in cur['steps']]
        for fi in range(len(files)):
            for ni in range(len(files[fi]['nbrs'])):
                for ri in range(len(files[fi]['nbrs'][ni]['routes'])):
                    cand = copy.deepcopy(cur)
                    target = cand['old'] if fi == 0 else cand['steps'][fi - 1]['new']
                    if 'fault' in (cand['steps'][fi - 1] if fi else {}) and cand['steps'][fi - 1]['fault']['kind'] in ('syntax', 'exception'):
                        continue  # line / route positions would move
                    del target['nbrs'][ni]['routes'][ri]
                    if attempt(cand):
                        changed = True
                        break
                if changed:
                    break
            if changed:
                break
    return cur


def run(ctx: Ctx) -> None:
    rng = ctx.rng
    ncases = 200 if ctx.tier == 'quick' else 4000
    ctx.rule = (
        'scenarios = histories: an initial configuration file, which sessions are established, then 1–4 reloads — each a new file or a broken variant (fault at any line, parser exception, missing / empty file), preceded by API commands, session losses and a transmission mode — over 4 neighbor names x 2 families x 8 prefixes x 3 attribute sets x 2 next hops x 3 hold-times; the oracle is evaluated after every reload; '
        'a case is non-trivial when some reload succeeded and changed at least one route, neighbor or session parameter, or when some reload failed; distinct = distinct history'
    )
    cases: list[tuple[dict, str]] = load_corpus()
    # the fault at every line of one generated file (a different file per seed), plus random histories
    for _ in range(1 if ctx.tier == 'quick' else 6):
        base = gen_scenario(rng, 'ok', steps=1)
        while len(base['steps'][0]['new']['nbrs']) < 2 or not base['up'] or base.get('no_sessions'):
            base = gen_scenario(rng, 'ok', steps=1)
        base['steps'][0]['mode'] = 'settled'
        base['steps'][0].pop('fault', None)
        cases += [(v, 'every-line') for v in every_line(base)]
    cases += [(sc, 'resync') for sc in resync_scenarios(rng, 12 if ctx.tier == 'quick' else 300)]
    cases += [(sc, 'adj-off') for sc in adj_off_scenarios(rng, 10 if ctx.tier == 'quick' else 200)]
    cases += [(sc, 'down-reload') for sc in down_reload_scenarios(rng, 14 if ctx.tier == 'quick' else 300)]
    for i in range(ncases):
        cases.append((gen_scenario(rng), 'random'))
    drv = common.Driver('drv_reload') if ctx.driver_ok else None
    best: dict[str, tuple[tuple, dict, str]] = {}  # canonical failure -> (rank, scenario, what); corpus cases first
    try:
        for sc, origin in cases:
            if ctx.time_left() < 12:
                ctx.notes.append(f'budget reached after {ctx.evaluations} cases')
                break
            sc = normalize(sc)
            res = run_scenario(sc, None if sc.get('adj_off_tables') else drv)
            ctx.evaluations += 1
            ctx.count('origin:' + origin)
            ctx.count('reloads:%d' % len(sc['steps']))
            running = sc['old']
            trivial = True
            for st, v in zip(sc['steps'], res['verdicts']):
                ctx.count('fault:' + (st['fault']['kind'] if st.get('fault') else 'none'))
                ctx.count('mode:' + st.get('mode', 'settled'))
                ctx.count('api-ops:%d' % len(st.get('api', [])))
                ctx.count('flaps:%d' % len(st.get('flap', [])))
                ctx.count('verdict:' + str(v))
                kinds = delta_kinds({'old': running, 'new': st['new']})
                if v:
                    for k in kinds:
                        ctx.count('delta:' + k)
                    if set(by_name(st['new'])) & (set(n for s0 in [sc['old']] + [x['new'] for x in sc['steps']] for n in by_name(s0)) - set(by_name(running))) and running is not sc['old']:
                        ctx.count('delta:neighbor-name-back')
                    running = st['new']
                if (v and kinds) or not v:
                    trivial = False
            hist = ''.join('S' if v else 'F' for v in res['verdicts'])
            ctx.count('history:' + (hist or '-'))
            ctx.count('sessions-up:%d/%d' % (len(sc['up']), len(sc['old']['nbrs'])))
            if res['error']:
                ctx.count('rig-error')
                ctx.disagreements.append(Disagreement('reload', {'scenario': sc}, None, res['error'] + ' ' + res.get('tb', '')[-600:]))
                continue
            if not trivial:
                ctx.nontrivial(canon(sc))
            ctx.sample({'scenario': sc, 'verdicts': res['verdicts'], 'sent': res.get('sent'), 'tables': {a: {n: list(v) for n, v in t.items()} for a, t in res.get('tables', {}).items()}}, cap=3)
            if res['disagreement']:
                ctx.count('disagreement')
                if len(ctx.disagreements) < 20:
                    ctx.disagreements.append(Disagreement('reload', {'scenario': sc}, None, res['disagreement']))
            for c, what in res['failures']:
                ctx.count('oracle-fail:' + '/'.join(c))
                key = json.dumps(c)
                rank = (origin in ('random', 'every-line', 'resync', 'adj-off'), size(sc))
                if key not in best or rank < best[key][0]:
                    best[key] = (rank, sc, what)
    finally:
        if drv is not None:
            drv.close()
    for key, (rank, sc, what) in sorted(best.items()):
        c = json.loads(key)
        if rank[0] and ctx.time_left() > 3:
            small = shrink(sc, c, budget=60 if ctx.tier == 'quick' else 200)
            r2 = run_scenario(small, None)
            w2 = [w for x, w in r2['failures'] if x == c]
            if w2:
                sc, what = small, w2[0]
        ctx.failures.append(Failure('reload', c, {'scenario': sc}, what))
    ctx.notes.append('observed, outside the wording of C17 (not raised): validate() errors are swallowed by _reload (returns True either way); a reload that adds a route parked by `watchdog … withdraw` announces it (replace_reload force-adds it)')


def replay(path: str) -> int:
    data = json.loads(open(path).read())
    sc = normalize(data['replay']['scenario'] if 'replay' in data else data['scenario'])
    res = run_scenario(sc, None)
    print('scenario :', json.dumps(sc))
    print('verdicts :', res['verdicts'])
    print('sent     :', res.get('sent'))
    print('tables   :', res.get('tables'))
    print('error    :', res['error'])
    for c, what in res['failures']:
        print('FAILS    :', c, '-', what)
    print('holds    :', not res['failures'] and not res['error'])
    return 0 if not res['failures'] and not res['error'] else 1
