"""C06 — message framing is independent of how TCP delivers the bytes."""

from __future__ import annotations

import json

from harness import common
from harness.common import Ctx, Disagreement, Failure
from harness.framerig import FrameRig

THEOREM_MODULES = ['ExaModel.Props.C06']
DRIVERS = ['drv_frame']
TABLES = ['msglength', 'pyframe']
ASSUMPTIONS = [
    'the kernel delivers the byte stream in order (TCP); OS-level socket errors are outside the model',
    'the reader task consumes everything the kernel has before a cancellation is processed (asyncio semantics)',
]
MARKER = b'\xff' * 16
VALID_LEN = {1: (29, None), 2: (23, None), 3: (21, None), 4: (19, 19), 5: (23, 23)}


def mk(ty: int, body: bytes, length: int | None = None, marker: bytes = MARKER) -> bytes:
    ln = 19 + len(body) if length is None else length
    return marker + ln.to_bytes(2, 'big') + bytes([ty]) + body


def gen_stream(rng, maxsize: int) -> tuple[list[bytes], str]:
    """A list of messages (the last one possibly faulty) and the kind of fault."""
    msgs: list[bytes] = []
    for _ in range(rng.randrange(1, 7)):
        ty = rng.choice([1, 2, 2, 3, 4, 4, 5])
        lo, hi = VALID_LEN[ty]
        if hi is None:
            x = rng.random()
            if x < 0.6:
                ln = rng.randrange(lo, min(lo + 60, maxsize) + 1)
            elif x < 0.8:
                ln = rng.choice([lo, lo + 1, 255, 256, 257, 4095, 4096])
            else:
                ln = rng.choice([maxsize - 1, maxsize])
            ln = max(lo, min(ln, maxsize))
        else:
            ln = lo
        body = bytes(rng.getrandbits(8) for _ in range(min(ln - 19, 64))) + bytes(max(0, ln - 19 - 64))
        msgs.append(mk(ty, body))
    fault = rng.choice(['none', 'none', 'marker', 'short', 'long', 'pertype', 'unknown-type', 'marker-late'])
    if fault == 'marker':
        m = bytearray(MARKER)
        m[rng.randrange(16)] = rng.randrange(0, 255)
        msgs.append(mk(4, b'', marker=bytes(m)))
    elif fault == 'marker-late':
        m = bytearray(MARKER)
        m[15] = 0xFE
        msgs.append(mk(2, bytes(10), marker=bytes(m)))
    elif fault == 'short':
        msgs.append(mk(rng.choice([1, 2, 4]), b'', length=rng.choice([0, 1, 18])))
    elif fault == 'long':
        # above 65535 is not expressible in the 16-bit field: only the 4096 session has a 'too long'
        msgs.append(mk(2, b'', length=rng.choice([4097, 4098, 65535]) if maxsize == 4096 else 18))
    elif fault == 'pertype':
        ty, ln = rng.choice([(1, 28), (1, 19), (2, 22), (3, 20), (3, 19), (4, 20), (4, 4096), (5, 22), (5, 24)])
        msgs.append(mk(ty, bytes(max(0, ln - 19)), length=ln))
    elif fault == 'unknown-type':
        ty = rng.choice([0, 6, 7, 9, 100, 252, 255])
        msgs.append(mk(ty, bytes(rng.randrange(0, 5))))
    if fault != 'none' and rng.random() < 0.7:
        msgs.append(mk(4, b''))  # something after the fault: must not be interpreted (when the fault ends the session)
    return msgs, fault


def cut(rng, stream: bytes) -> list[bytes]:
    mode = rng.choice(['bytes1', 'small', 'random', 'whole', 'header-split'])
    out = []
    i = 0
    n = len(stream)
    while i < n:
        if mode == 'bytes1' and n <= 400:
            k = 1
        elif mode == 'small':
            k = rng.randrange(1, 8)
        elif mode == 'whole':
            k = n
        elif mode == 'header-split':
            k = rng.choice([1, 10, 15, 16, 17, 18, 19, 20, 30])
        else:
            k = rng.randrange(1, max(2, n // 2))
        out.append(stream[i : i + k])
        i += k
    return out


def reference(stream: bytes, maxsize: int) -> list[str]:
    """RFC 4271 §4.1/§6.1 reading of the stream, written independently of code and model."""
    out = []
    i = 0
    while len(stream) - i >= 19:
        h = stream[i : i + 19]
        if h[:16] != MARKER:
            out.append('err 1 1')
            return out
        ln = int.from_bytes(h[16:18], 'big')
        ty = h[18]
        if ln < 19 or ln > maxsize:
            out.append('err 1 2')
            return out
        lo, hi = VALID_LEN.get(ty, (19, None))
        # RFC 4271 6.4: an error in a NOTIFICATION (type 3) is not reported back with a NOTIFICATION
        if ty != 3 and (ln < lo or (hi is not None and ln > hi)):
            out.append('err 1 2')
            return out
        if len(stream) - i < ln:
            break
        out.append(f'msg {ty} {stream[i + 19 : i + ln].hex() or "-"}')
        i += ln
    return out


def run_impl(maxsize: int, events: list) -> list[str]:
    rig = FrameRig(maxsize)
    outs = []
    try:
        for ev in events:
            if ev[0] == 'chunk':
                outs.append(rig.feed(bytes.fromhex(ev[1])))
            elif ev[0] == 'cancel':
                outs.append(rig.cancel())
            elif ev[0] == 'chunkcancel':
                outs.append(rig.feed_racing_cancel(bytes.fromhex(ev[1]), int(ev[2]) if len(ev) > 2 else 0))
            elif ev[0] == 'setmax':
                outs.append(rig.setmax(ev[1]))
    finally:
        rig.close()
    return outs


def run_model(maxsize: int, events: list) -> list[str]:
    lines = [f'frame init {maxsize}']
    for ev in events:
        if ev[0] in ('chunk', 'chunkcancel'):
            # a cancellation changes nothing in the model, whenever it falls
            lines.append('frame feed ' + (ev[1] or '-'))
        elif ev[0] == 'cancel':
            lines.append('frame cancel')
        elif ev[0] == 'setmax':
            lines.append(f'frame setmax {ev[1]}')
    return common.run_driver('drv_frame', lines)[1:]


def flat(outs: list[str]) -> list[str]:
    r = []
    for o in outs:
        if o not in ('-', 'ok'):
            r.extend(o.split(';'))
    return r


def classify_cancel(events: list, maxsize: int) -> list:
    """Canonical form of a failing case with cancels: where in a message the cancel fell."""
    seen = b''
    cls = []
    for ev in events:
        if ev[0] == 'chunkcancel':
            cls.append('coinciding-with-data')
        if ev[0] in ('chunk', 'chunkcancel'):
            seen += bytes.fromhex(ev[1])
        elif ev[0] == 'cancel':
            # position inside the current (incomplete) message
            i = 0
            while len(seen) - i >= 19:
                ln = int.from_bytes(seen[i + 16 : i + 18], 'big')
                if ln < 19 or len(seen) - i < ln:
                    break
                i += ln
            rest = len(seen) - i
            cls.append('boundary' if rest == 0 else 'in-header' if rest < 19 else 'in-body')
    return sorted(set(cls))


def run(ctx: Ctx) -> None:
    rng = ctx.rng
    n = 200 if ctx.tier == "quick" else 5000
    ctx.rule = (
        'streams of 1-7 BGP messages (valid types with lengths at the per-type, 255/256, 4096 and maximum boundaries) optionally ending with a faulty header '
        '(marker, length<19, length>max, per-type length, unknown type) and trailing bytes, cut into reads (1-byte, small, header-splitting, random, whole), both maximum sizes, '
        'with read cancellations inserted at random points in a third of the cases; non-trivial = at least one message delivered and at least two reads; distinct = distinct (stream, cuts, cancels)'
    )
    corpus = []
    d = common.VERIF / 'corpus' / 'C06'
    if d.exists():
        for f in sorted(d.glob('*.json')):
            c = json.loads(f.read_text())
            corpus.append((c['max'], c['events'], 'corpus'))
    cases = list(corpus)
    for i in range(n):
        maxsize = rng.choice([4096, 4096, 65535])
        msgs, fault = gen_stream(rng, maxsize)
        stream = b''.join(msgs)
        chunks = cut(rng, stream)
        events: list = [['chunk', c.hex()] for c in chunks]
        if rng.random() < 0.33 and len(events) > 1:
            for _ in range(rng.randrange(1, 3)):
                events.insert(rng.randrange(1, len(events) + 1), ['cancel'])
        if rng.random() < 0.4:
            # timeouts coinciding with the arrival of data
            for _ in range(rng.randrange(1, 4)):
                k = rng.randrange(len(events))
                if events[k][0] == 'chunk':
                    events[k] = ['chunkcancel', events[k][1], rng.choice([0, 0, 1, 2, 3, 4, 6])]
        cases.append((maxsize, events, fault))
    if ctx.driver_ok:
        check_types(ctx)
    check_negotiated_max(ctx)
    seen_fail = set()
    for maxsize, events, fault in cases:
        if ctx.time_left() < 0:
            ctx.notes.append(f'budget reached after {ctx.evaluations} cases')
            break
        impl = run_impl(maxsize, events)
        ctx.evaluations += 1
        ctx.count('fault:' + fault)
        ctx.count('max:%d' % maxsize)
        ncancel = sum(1 for e in events if e[0] in ('cancel', 'chunkcancel'))
        ctx.count('racing-cancels:%d' % sum(1 for e in events if e[0] == 'chunkcancel'))
        ctx.count('cancels:%d' % ncancel)
        nchunks = sum(1 for e in events if e[0] in ('chunk', 'chunkcancel'))
        ctx.count('reads:%s' % ('1' if nchunks == 1 else '2-9' if nchunks < 10 else '10-99' if nchunks < 100 else '100+'))
        fi = flat(impl)
        if any(o.startswith('msg') for o in fi) and nchunks >= 2:
            ctx.nontrivial([maxsize, events])
        ctx.sample({'max': maxsize, 'events': [e if e[0] != 'chunk' else ['chunk', e[1][:80] + ('…' if len(e[1]) > 80 else '')] for e in events][:12], 'delivered': [o[:60] for o in fi][:8]}, cap=3)
        if ctx.driver_ok:
            model = run_model(maxsize, events)
            if model != impl:
                idx = next(i for i in range(len(impl)) if model[i] != impl[i])
                ctx.disagreements.append(Disagreement('frame', {'max': maxsize, 'events': events[: idx + 1]}, model[idx][:200], impl[idx][:200]))
        # oracle: what was delivered is the RFC reading of the bytes received so far
        stream = b''.join(bytes.fromhex(e[1]) for e in events if e[0] in ('chunk', 'chunkcancel'))
        want = reference(stream, maxsize)
        if fi != want:
            canon = {'cancel-at': classify_cancel(events, maxsize), 'fault': fault if ncancel == 0 else 'any'}
            key = json.dumps(canon, sort_keys=True)
            if key in seen_fail:
                continue
            seen_fail.add(key)
            ctx.failures.append(Failure('stream-schedule', canon, {'max': maxsize, 'events': events}, f'delivered {fi[:4]}… instead of {want[:4]}… (reads={nchunks}, cancels={ncancel})'))


def notify_for_type(ty: int, body: bytes):
    """The real Protocol.read_message on a complete message of this type: the Notify it raises."""
    import asyncio
    from unittest.mock import MagicMock
    from exabgp.bgp.message.notification import Notify
    from harness import sessions

    cfg, n = sessions.make_config()
    neg = sessions.negotiate(n)
    peer, proto = sessions.make_peer(n, neg)
    header = MARKER + (19 + len(body)).to_bytes(2, 'big') + bytes([ty])

    async def reader_async():
        return 19 + len(body), ty, memoryview(header), memoryview(body), None

    proto.connection.reader_async = reader_async
    try:
        sessions.run(proto.read_message())
        return 'none'
    except Notify as e:
        return f'{e.code} {e.subcode}'
    except Exception as e:  # noqa: BLE001
        return f'raised {type(e).__name__}'


def check_types(ctx: Ctx) -> None:
    """Header-level NOTIFICATION of read_message for every type octet that has no decoder."""
    model = common.run_driver('drv_frame', [f'frame notify {ty}' for ty in range(256)])
    for ty in range(256):
        if model[ty] == 'none':
            continue  # a decoder exists: what happens depends on the body (C03 / C10)
        impl = notify_for_type(ty, b'\x00')
        ctx.evaluations += 1
        ctx.count('type-octet')
        if impl != model[ty]:
            ctx.disagreements.append(Disagreement('read_message-type', {'type': ty}, model[ty], impl))
        if impl != '1 3':
            ctx.failures.append(Failure('stream-schedule', {'unknown-type-notification': impl}, {'type': ty}, f'message type {ty} is answered with {impl} instead of 1 3'))
            break


NEGOTIATED_MAX_CASES = [
    # (what the two OPENs announce, the message the peer then sends, what the bound must make of it)
    ({'extended': True, 'peer_extended': True}, ['update', 100], 'taken'),        # 5000 octets, 65535 negotiated
    ({'extended': True, 'peer_extended': True}, ['update', 101], 'taken'),        # 65535 octets
    ({'extended': True, 'peer_extended': True, 'local_as_auto': True}, ['update', 100], 'taken'),  # our OPEN sent last (F108)
    ({'extended': True, 'peer_extended': False}, ['tooLong'], '1 2'),             # only we announce it: 4096, header of 4097
    ({'extended': True, 'peer_extended': False}, ['tooLong', 3], '1 2'),          # ... header of 65535
    ({'extended': False, 'peer_extended': True}, ['tooLong'], '1 2'),             # only the peer announces it
    ({'extended': False, 'peer_extended': False}, ['tooLong', 1], '1 2'),         # nobody does
    ({'extended': False, 'peer_extended': False}, ['update'], 'taken'),
]


def negotiated_max_outcome(cfg: dict, msg: list) -> str:
    """The real Peer over a socket pair: both OPENs, KEEPALIVEs, then one message: 'taken' (no NOTIFICATION, session
    up) or the code and subcode of the NOTIFICATION written."""
    from harness import sessionrig

    sessionrig.install()
    script = [['start'], ['connectOk'], ['recv', 1, 'open'], ['recv', 1, 'keepalive'], ['tick'], ['recv', 1] + msg, ['tick']]
    r = sessionrig.run_case(script, dict(cfg, routes=1))
    if 'error' in r:
        return 'rig: ' + r['error'][:120]
    items = [it for b in r['buckets'][5:] for it in b]
    notes = [it for it in items if it.startswith('send 1 NOTIFICATION')]
    if notes:
        return ' '.join(notes[0].split(' ')[3:5])
    if any(it.startswith('fsm ESTABLISHED>') for it in items):
        return 'session ended without a NOTIFICATION'
    return 'taken'


def check_negotiated_max(ctx: Ctx) -> None:
    """The bound of the header check is the NEGOTIATED maximum: 65535 only when both OPENs carry Extended Message."""
    for cfg, msg, want in NEGOTIATED_MAX_CASES:
        got = negotiated_max_outcome(cfg, msg)
        ctx.evaluations += 1
        ctx.count('negotiated-max:' + want)
        if got == want:
            ctx.nontrivial(['negotiated-max', sorted(cfg.items()), msg])
            continue
        canon = {'negotiated-maximum': sorted(k for k, v in cfg.items() if v), 'message': msg[0], 'got': got}
        ctx.failures.append(Failure('stream-schedule', canon, {'negotiated_max': True, 'cfg': cfg, 'msg': msg, 'want': want},
                                    f'OPENs {cfg}, then {msg}: {got}, expected {want} (RFC 8654 3: the maximum is 65535 only when both speakers announced Extended Message)'))


def replay(path: str) -> int:
    data = json.loads(open(path).read())
    rp = data['replay']
    if rp.get('negotiated_max'):
        got = negotiated_max_outcome(rp['cfg'], rp['msg'])
        print('OPENs   :', rp['cfg'])
        print('message :', rp['msg'])
        print('outcome :', got, '| expected', rp['want'])
        return 0 if got == rp['want'] else 1
    impl = flat(run_impl(rp['max'], rp['events']))
    stream = b''.join(bytes.fromhex(e[1]) for e in rp['events'] if e[0] in ('chunk', 'chunkcancel'))
    want = reference(stream, rp['max'])
    print('delivered:', impl)
    print('reference:', want)
    return 0 if impl == want else 1
