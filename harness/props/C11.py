"""C11 — after any session loss the peer is fully resynchronised (RIB part).
Same rig and model as C04 with session loss / operations while down / re-establishment, plus a
stream with adj-rib-out switched off (the intended table is then the configured routes)."""

from __future__ import annotations

import json

from harness import common, ribrig
from harness.common import Ctx, Failure, Disagreement
from harness.props import C04

THEOREM_MODULES = ['ExaModel.Props.C11']
DRIVERS = ['drv_rib']
TABLES: list[str] = []  # no generated table is used by this property
ASSUMPTIONS = C04.ASSUMPTIONS + [
    'RIB part only: the End-of-RIB markers and the reconnect path are covered by the session rig (C05/C10)',
    'include_withdraw=False at session start is set by the harness as Peer._main does (local variable of _main)',
]


def run_nocache(ops_pre: list[list], configured: list[tuple]) -> dict:
    """adj-rib-out false: configured routes announced, session flaps, what does the 2nd session carry?"""
    rig = ribrig.RibRig(cache_on=False)
    try:
        rig.neighbor.routes = [rig.route(*r) for r in configured]
        for r in configured:
            rig.op(['add', r[0], r[1], r[2], 0, 0])
        for op in ops_pre:
            rig.op(op)
        rig.op(['lost'])
        mark = len(rig.sent)
        rig.op(['est', [], list(configured)])
        for _ in range(1000):
            if rig.tick() == 'none':
                break
        table = C04.peer_table(rig.sent[mark:])
        want = {n: (a, h) for n, a, h in configured}
        return {'ok': table == want, 'table': table, 'want': want, 'sent': list(rig.sent)}
    finally:
        rig.close()


def run(ctx: Ctx) -> None:
    C04.run(ctx, session_ops=True, prop='C11')
    ctx.rule += '; C11 adds session loss at arbitrary points, operations while down and re-establishment (replace_restart), and a stream with adj-rib-out off'
    # adj-rib-out off
    rng = ctx.rng
    seen = set()
    for i in range(40 if ctx.tier == 'quick' else 400):
        k = rng.randrange(1, 4)
        nl = rng.sample(sorted(ribrig.NLRIS), k)
        configured = [(n, rng.choice([1, 2, 3]), rng.choice([1, 2])) for n in nl]
        pre = [['tick']] * rng.randrange(0, 6)
        res = run_nocache(pre, configured)
        ctx.evaluations += 1
        ctx.count('nocache-case')
        ctx.nontrivial(['nocache', configured, len(pre)])
        if not res['ok']:
            ctx.count('nocache-oracle-fail')
            canon = ['adj-rib-out-off', 'configured-routes-not-readvertised']
            if json.dumps(canon) in seen:
                continue
            seen.add(json.dumps(canon))
            ctx.failures.append(Failure('rib-history', canon, {'configured': configured, 'pre': pre, 'cache_on': False}, f'adj-rib-out off: after a flap the peer holds {res["table"]} instead of the configured {res["want"]}'))


def replay(path: str) -> int:
    data = json.loads(open(path).read())
    rp = data['replay']
    if rp.get('cache_on', True):
        return C04.replay(path)
    res = run_nocache(rp['pre'], [tuple(x) for x in rp['configured']])
    print(res)
    return 0 if res['ok'] else 1
