"""C11 — after any session loss the peer is fully resynchronised (RIB part).
Same rig and model as C04 with session loss / operations while down / re-establishment, plus a
stream with adj-rib-out switched off (the intended table is then the configured routes)."""

from __future__ import annotations

import json

from harness import common, ribrig
from harness.common import Ctx, Failure, Disagreement
from harness.props import C04

THEOREM_MODULES = ['ExaModel.Props.C11']
DRIVERS = ['drv_rib']
TABLES: list[str] = []  # no generated table is used by this property
ASSUMPTIONS = C04.ASSUMPTIONS + [
    'End-of-RIB ordering and the reconnect path are checked end to end on the real Peer.run() (session rig) for a sample of flap scenarios; the theorems are about the RIB model',
    'include_withdraw=False at session start is set by the harness as Peer._main does (local variable of _main)',
]


def run_nocache(ops_pre: list[list], configured: list[tuple]) -> dict:
    """adj-rib-out false: configured routes announced, session flaps, what does the 2nd session carry?"""
    rig = ribrig.RibRig(cache_on=False)
    try:
        rig.neighbor.routes = [rig.route(*r) for r in configured]
        for r in configured:
            rig.op(['add', r[0], r[1], r[2], 0, 0])
        for op in ops_pre:
            rig.op(op)
        rig.op(['lost'])
        mark = len(rig.sent)
        rig.op(['est', [], list(configured)])
        for _ in range(1000):
            if rig.tick() == 'none':
                break
        table = C04.peer_table(rig.sent[mark:])
        want = {n: (a, h) for n, a, h in configured}
        return {'ok': table == want, 'table': table, 'want': want, 'sent': list(rig.sent)}
    finally:
        rig.close()


def run(ctx: Ctx) -> None:
    C04.run(ctx, session_ops=True, prop='C11')
    ctx.rule += '; C11 adds session loss at arbitrary points, operations while down and re-establishment (replace_restart), and a stream with adj-rib-out off'
    # adj-rib-out off
    rng = ctx.rng
    seen = set()
    for i in range(40 if ctx.tier == 'quick' else 400):
        k = rng.randrange(1, 4)
        nl = rng.sample(sorted(ribrig.NLRIS), k)
        configured = [(n, rng.choice([1, 2, 3]), rng.choice([1, 2])) for n in nl]
        pre = [['tick']] * rng.randrange(0, 6)
        res = run_nocache(pre, configured)
        ctx.evaluations += 1
        ctx.count('nocache-case')
        ctx.nontrivial(['nocache', configured, len(pre)])
        if not res['ok']:
            ctx.count('nocache-oracle-fail')
            canon = ['adj-rib-out-off', 'configured-routes-not-readvertised']
            if json.dumps(canon) in seen:
                continue
            seen.add(json.dumps(canon))
            ctx.failures.append(Failure('rib-history', canon, {'configured': configured, 'pre': pre, 'cache_on': False}, f'adj-rib-out off: after a flap the peer holds {res["table"]} instead of the configured {res["want"]}'))
    try:
        run_flap(ctx)
    except ImportError as e:
        ctx.notes.append(f'end-to-end flap stream not run: {e}')
    run_after_reload(ctx)


def after_reload_case(case: dict) -> dict:
    """old file, session up, reload to the new file (consumed by the ESTABLISHED session's main loop), API
    commands, loss, next session: {'table': what the remote holds then, 'want': configured now + API routes
    not since withdrawn}.  Real Reactor / Configuration / Peer._run (harness/reloadrig.py)."""
    from harness import reloadrig as R

    rig = R.ReloadRig()
    try:
        mk = lambda routes: {'procs': [1], 'nbrs': [{'name': 1, 'key': 1, 'fams': [1, 2], 'routes': routes}]}  # noqa: E731
        rig.write_file('\n'.join(R.config_lines(mk(case['old']))) + '\n')
        if not rig.reload():
            return {'error': f'initial configuration refused: {rig.cfg.error}'}
        rig.establish(1)
        rig.settle()
        want = {n: (at, h) for n, at, h in case['old']}
        for reload_routes, api in case['rounds']:
            if reload_routes is not None:
                rig.write_file('\n'.join(R.config_lines(mk(reload_routes))) + '\n')
                if not rig.reload():
                    return {'error': f'reload refused: {rig.cfg.error}'}
                rig.settle()
                old_cfg, new_cfg = {n: (at, h) for n, at, h in case['old']}, {n: (at, h) for n, at, h in reload_routes}
                for n in set(old_cfg) | set(new_cfg):
                    # replace_reload: what the file no longer has goes, what it adds or changes comes; the rest stays
                    if n not in new_cfg:
                        if want.get(n) == old_cfg[n]:
                            want.pop(n, None)
                    elif new_cfg[n] != old_cfg.get(n):
                        want[n] = new_cfg[n]
                case = dict(case, old=reload_routes)
            for action, n, at, h in api:
                ans = rig.api_route(1, action, n, at, h)
                rig.settle()
                if ans != ['done']:
                    return {'error': f'api answered {ans}'}
                if action == 'announce':
                    want[n] = (at, h)
                else:
                    want.pop(n, None)
        live = rig.table(1)
        if not rig.lose(1):
            return {'error': 'no established session to lose'}
        for _ in range(3):
            if rig.establish(1) == 'up':
                break
            rig.settle()
        rig.settle()
        return {'error': None, 'table': rig.table(1), 'want': want, 'live': live}
    finally:
        rig.close()


def run_after_reload(ctx: Ctx) -> None:
    """Session loss after a configuration reload the ESTABLISHED session consumed and after the API commands that
    followed it; the session that follows the loss must carry the configured routes of the file in force plus the
    API routes not since withdrawn (the first session's own table is checked too: it is C17's clause)."""
    from harness import ribrig as B
    from harness.props import C17

    rng = ctx.rng
    seen = set()
    for _ in range(16 if ctx.tier == 'quick' else 300):
        if ctx.time_left() < 8:
            ctx.notes.append('after-reload stream stopped by the time budget')
            break
        routes = [tuple(r[:3]) for r in C17.gen_routes(rng, [1, 2], rng.choice([2, 3, 4]))]  # no watchdog: plain configured routes
        kept = list(routes)
        victim = kept.pop(rng.randrange(len(kept)))
        how = rng.choice(['removed', 'removed', 'changed', 'untouched'])
        if how == 'changed':
            kept.append((victim[0], 1 + victim[1] % 3, victim[2]))
        elif how == 'untouched':
            kept.append(victim)
        at, h = (victim[1], victim[2]) if rng.random() < 0.5 else (rng.choice([1, 2, 3]), rng.choice([1, 2]))
        api = [('announce', victim[0], at, h)]
        if rng.random() < 0.3:
            api.append((rng.choice(['announce', 'withdraw']), rng.choice(routes)[0], rng.choice([1, 2, 3]), 1))
        rounds = [(kept, api)]
        if rng.random() < 0.25:
            rounds.append((None, [(rng.choice(['announce', 'withdraw']), rng.choice(sorted(n for n in B.NLRIS if n not in (5, 8))), rng.choice([1, 2, 3]), 1)]))
        case = {'old': routes, 'rounds': rounds}
        res = after_reload_case(case)
        ctx.evaluations += 1
        ctx.count('after-reload-case')
        ctx.count('after-reload:' + how)
        if res['error']:
            ctx.disagreements.append(Disagreement('after-reload-rig', case, None, res['error']))
            continue
        ctx.nontrivial(['after-reload', case])
        if res['live'] != res['want']:
            ctx.count('after-reload:first-session-table-differs (C17)')
            continue  # the table of the session that saw the reload is C17's clause; nothing to resynchronise against
        if res['table'] != res['want']:
            ctx.count('after-reload-oracle-fail')
            canon = ['after-reload', 'table']
            if json.dumps(canon) in seen:
                continue
            seen.add(json.dumps(canon))
            ctx.failures.append(Failure('rib-history', canon, {'after_reload': True, 'case': case}, f'session lost after a reload ({how}: prefix {victim[0]}) and API commands {api}: the next session gives the peer {res["table"]}, it held {res["want"]} when the session was lost'))


def replay(path: str) -> int:
    data = json.loads(open(path).read())
    rp = data['replay']
    if rp.get('after_reload'):
        c = rp['case']
        c = {'old': [tuple(r) for r in c['old']], 'rounds': [(None if rr is None else [tuple(r) for r in rr], [tuple(x) for x in api]) for rr, api in c['rounds']]}
        res = after_reload_case(c)
        print(res)
        return 0 if not res['error'] and res['table'] == res['want'] else 1
    if rp.get('flap'):
        from harness import sessionrig
        sessionrig.install()
        o = rp.get('opts') or {}
        print(sessionrig.run_flap_scenario(rp['routes'], rp['cut'], rp['ops'], neighbor_opts={k: v for k, v in o.items() if not k.startswith('_')}, peer_families=o.get('_peer_families'), refresh=o.get('_refresh')))
        return 1
    if rp.get('cache_on', True):
        return C04.replay(path)
    res = run_nocache(rp['pre'], [tuple(x) for x in rp['configured']])
    print(res)
    return 0 if res['ok'] else 1


# ---------------------------------------------------------------------------------------------
# End to end: the real Peer.run() over sockets (session rig), session cut after n messages,
# API operations while down, second session observed by the remote.


def _flap_decode(rig_neg_in, msgs):
    """(table, eors, order) from the messages of one session as the remote received them."""
    from exabgp.bgp.message import Message
    from exabgp.bgp.message.update.attribute import Attribute
    from exabgp.bgp.message.update.attribute.collection import AttributeCollection

    table: dict = {}
    eors: list = []
    last_update = -1
    first_eor = None
    for i, (kind, hexmsg) in enumerate(msgs):
        raw = bytes.fromhex(hexmsg)
        if raw[18] != 2:
            continue
        AttributeCollection.cached = None
        AttributeCollection.previous = b''
        m = Message.unpack(2, raw[19:], rig_neg_in)
        if type(m).__name__ == 'EOR':
            eors.append((int(m.nlris[0].afi), int(m.nlris[0].safi)))
            if first_eor is None:
                first_eor = i
            continue
        d = m.data
        for nlri in d.withdraws:
            table.pop(str(nlri).split(' ')[0], None)
        for routed in d.announces:
            med = d.attributes.get(Attribute.CODE.MED, None)
            table[str(routed.nlri).split(' ')[0]] = (int(med.med) if med is not None else 0, str(routed.nexthop))
        last_update = i
    return table, eors, (last_update, first_eor)


def run_flap(ctx: Ctx) -> None:
    from exabgp.bgp.message.direction import Direction
    from harness import sessionrig, sessions

    rng = ctx.rng
    sessionrig.install()
    n = 12 if ctx.tier == 'quick' else 200
    seen = set()
    # directed: the peer asks for ONE family again while the resynchronisation of two families goes out one route per
    # turn of the loop (rate-limit), after 0..3 messages
    v4 = [k for k in sorted(ribrig.NLRIS) if ':' not in ribrig.NLRIS[k]][:2]
    v6 = [k for k in sorted(ribrig.NLRIS) if ':' in ribrig.NLRIS[k]][:2]
    directed = [(v4 + v6, [after, variant]) for after in (0, 1, 2, 3) for variant in (0, 1)] if v4 and v6 else []
    for i in range(len(directed) + n):
        if ctx.time_left() < 10:
            ctx.notes.append('flap stream stopped by the time budget')
            break
        forced = directed[i] if i < len(directed) else None
        nl = forced[0] if forced else rng.sample(sorted(ribrig.NLRIS), rng.randrange(1, 5))
        conf = {k: (rng.choice([1, 2, 3]), 1) for k in nl}
        routes_text = [ribrig.route_text(k, a, h) for k, (a, h) in conf.items()]
        cut = rng.randrange(0, len(routes_text) + 3)
        ops = []
        intended = {ribrig.NLRIS[k]: (a, ribrig.nh_text(k, h)) for k, (a, h) in conf.items()}
        for _ in range(rng.randrange(0, 4)):
            k = rng.choice(sorted(ribrig.NLRIS))
            x = rng.random()
            if x < 0.45:
                a, h = rng.choice([1, 2, 3]), rng.choice([1, 2])
                ops.append(['announce', ribrig.route_text(k, a, h)])
                intended[ribrig.NLRIS[k]] = (a, ribrig.nh_text(k, h))
            elif x < 0.85:
                a, h = conf.get(k, (1, 1))
                ops.append(['withdraw', ribrig.route_text(k, a, h)])
                intended.pop(ribrig.NLRIS[k], None)
            else:
                ops.append(['flush'])
        nopts = rng.choice([{}, {}, {'rate_limit': 1}, {'group_updates': False}, {'rate_limit': 1, 'group_updates': False}])
        # the first session may have negotiated fewer families than the second (the peer's OPEN): what the second
        # session must carry is still the whole intended table of ITS families
        pf = rng.choice([None, None, ['ipv4 unicast', None], ['ipv6 unicast', None]])
        if pf:
            nopts = dict(nopts, _peer_families=pf)
        # the peer may ask for one family again (ROUTE-REFRESH) while the resynchronisation is still going out: what it
        # asks for comes (again), what it did not ask for still comes
        rf = [rng.randrange(0, len(routes_text) + 1), rng.randrange(2)] if rng.random() < 0.4 else None
        if forced:
            cut, ops, pf, rf = 0, [], None, forced[1]
            intended = {ribrig.NLRIS[k]: (a, ribrig.nh_text(k, h)) for k, (a, h) in conf.items()}
            nopts = {'rate_limit': 1}
        if rf:
            nopts = dict(nopts, _refresh=rf)
        try:
            res = sessionrig.run_flap_scenario(routes_text, cut, ops, neighbor_opts={k: v for k, v in nopts.items() if not k.startswith('_')}, peer_families=pf, refresh=rf)
        except Exception as e:  # noqa: BLE001
            ctx.disagreements.append(Disagreement('flap-rig', {'routes': routes_text, 'cut': cut, 'ops': ops, 'opts': nopts}, None, f'{type(e).__name__}: {e}'))
            continue
        ctx.count('flap-opts:' + (','.join(sorted(nopts)) or 'default'))
        ctx.evaluations += 1
        ctx.count('flap-case')
        ctx.count('flap-cut:%s' % ('0' if cut == 0 else 'mid' if cut <= len(routes_text) else 'after'))
        cfg, nb = sessions.make_config(families='ipv4 unicast ipv6 unicast')
        neg_in = sessions.negotiate(nb, direction=Direction.IN)
        table, eors, (last_update, first_eor) = _flap_decode(neg_in, res['second'])
        ctx.nontrivial(['flap', sorted(conf), cut, ops, rf, sorted(nopts)])
        ctx.sample({'flap': {'routes': routes_text, 'cut_after': cut, 'ops_while_down': ops, 'second_session': [k for k, _ in res['second']]}}, cap=4)
        problems = []
        if table != intended:
            problems.append(f'second session gives {table}, intended {intended}')
        want_eors = sorted({(1, 1), (2, 1)})
        if sorted(set(eors)) != want_eors or len(eors) != len(set(eors)):
            problems.append(f'End-of-RIB markers {eors}, expected one for each of {want_eors}')
        if first_eor is not None and last_update > first_eor and not rf and not ops_after_eor_allowed(res):
            problems.append('an End-of-RIB marker precedes part of the initial table')
        if res.get('fsm') != 'ESTABLISHED':
            problems.append(f'second session ended in {res.get("fsm")}')
        if problems:
            canon = ['flap', 'table' if 'second session gives' in problems[0] else 'eor']
            if json.dumps(canon) in seen:
                continue
            seen.add(json.dumps(canon))
            ctx.failures.append(Failure('rib-history', canon, {'flap': True, 'routes': routes_text, 'cut': cut, 'ops': ops, 'opts': nopts}, '; '.join(problems)))


def ops_after_eor_allowed(res: dict) -> bool:
    # nothing is announced after establishment in these scenarios: every UPDATE of the second
    # session belongs to the initial table, so none may follow an End-of-RIB marker
    return False
