"""C12 — Hold and keepalive timers, part (a): the timer arithmetic and its tie to the real classes.

Correspondence: the REAL `ReceiveTimer` / `SendTimer` / `KA` (+ real `Protocol.new_keepalive` into a
capture connection) and the real `Peer._read_open` (harness/timerrig.py) against the compiled Lean
model `drv_timer`, on the same line scripts, answers and full timer state compared line by line.
Oracle: the bounds of the theorems of ExaModel/Props/C12.lean evaluated, in plain integer
arithmetic, on what the implementation did (NOTIFY raised, KEEPALIVE bytes captured with their
clock reading) — it does not consult the model.

Two things reach beyond the timer classes themselves, because the property can be broken one step
outside them:
  * outbound traffic: schedule events "ExaBGP writes an UPDATE / End-of-RIB / ROUTE-REFRESH / OPERATIONAL now",
    performed through the real Protocol.new_update_generator → Protocol.send / new_eor / new_refresh /
    new_operational on the very Protocol and Peer (stats counters) the KA object uses; the model says they
    change nothing (theorem outbound_traffic_is_invisible);
  * establishment: the real Peer.run() (OPEN exchange with our hold time / the peer's hold time, `_establish`,
    `_main`) over a socketpair under virtual time (harness/sessionrig.py), every call the peer makes on
    its own ReceiveTimer / SendTimer recorded and replayed through the model (timers created from
    min(local, peer): theorem negotiated_hold_is_min), and the property's bounds evaluated on the
    timestamps the remote observes.
  * OPENCONFIRM: the same real Peer.run() stopped after the peer's OPEN; the first KEEPALIVE comes at H - e, H + e,
    exactly H, never, or another message comes first, for H in {3, 9, 90, 65535, 0}; the wait as the peer lived it
    (entry of Peer._read_ka, every read_message result, outcome) is put to the model (`timer openconfirm`), the
    hand-over to the established timers is replayed call by call, the oracle judges what the remote observes.
"""

from __future__ import annotations

import json
from typing import Any

from harness import common
from harness.common import Ctx, Disagreement, Failure

THEOREM_MODULES = ['ExaModel.Props.C12']
DRIVERS = ['drv_timer']
TABLES = ['timer', 'pytimer']
PROP = 'C12'
ASSUMPTIONS = [
    'the negotiated hold time is 0 or in 3..65535 (C07; `HoldTime.MIN`); the class-level correspondence also covers 1 and 2',
    'time.time() is non-decreasing and advances at the rate of real time (the code uses the wall clock, not time.monotonic(): a forward clock step longer than H ends the session with 4/0, a backward step postpones expiry and KEEPALIVEs)',
    'silence is measured where the timers see it: from the loop iteration that handed the last real message to check_ka, not from its arrival on the socket',
    'the main loop reaches the two timer calls at least every delta ms (it blocks in sock_sendall under back-pressure): runtime, measured by the session rig (part b)',
    'writes succeed: a NetworkError inside new_keepalive is turned into Notify(4,0) by KA.send_if_needed (modelled and compared at class level, excluded from the schedule theorems)',
    'OPENCONFIRM: "received" means a complete message handed over by read_message; the single wait_for of _read_ka is not re-armed by the first bytes of a message still incomplete at its deadline',
]
TRUSTED_EXTRA = [
    'harness/timerrig.py: replaces the `time` name in exabgp.bgp.timer by a settable clock (float seconds = ms/1000); the `poll` op re-states the two timer lines of Peer._main and _run\'s `except Notify`',
]

REAL = {'open', 'update', 'notification', 'keepalive', 'refresh', 'operational'}
SCHED = ['nop', 'awake', 'done']
OUT = ['out-update', 'out-eor', 'out-refresh', 'out-operational']
HOLDS = [0, 3, 9, 90, 180]
H_BOUNDARY = [0, 3, 4, 5, 6, 7, 8, 9, 10, 11, 12, 29, 30, 31, 89, 90, 91, 179, 180, 181, 240, 255, 256, 3600, 32767, 32768, 65533, 65534, 65535]


# ---------------------------------------------------------------------------------------------
# generators


def pick_h(rng) -> int:
    x = rng.random()
    if x < 0.08:
        return 0
    if x < 0.16:
        return 3
    if x < 0.45:
        return rng.choice(H_BOUNDARY)
    if x < 0.75:
        return rng.randrange(3, 40)
    if x < 0.9:
        return rng.randrange(3, 1000)
    return rng.randrange(3, 65536)


def pick_base(rng) -> int:
    base = rng.choice([0, 0, 1000, 59000, 123456000, 1_700_000_000_000 + rng.randrange(0, 10**9) * 1000])
    return base + rng.choice([0, 0, 1, 499, 500, 998, 999, rng.randrange(1000)])


def gen_session(rng, maxlen: int) -> dict:
    """One established session: ReceiveTimer at tR, KA at tS >= tR, then loop iterations at
    non-decreasing clock readings. Times are steered to the boundaries of the theorems."""
    H = pick_h(rng)
    K = H // 3
    tR = pick_base(rng)
    tS = tR + rng.choice([0, 0, 0, 1, rng.randrange(1000), rng.randrange(0, (H + 1) * 1000)])
    style = rng.choice(['cadence', 'peer-ka', 'silence', 'burst', 'random', 'boundary', 'boundary'])
    n = rng.randrange(1, maxlen)
    t, L, A = tS, tR, tS
    over, nka = False, 0
    out_rate = rng.choice([0.0, 0.0, 0.0, 0.1, 0.3, 0.6])
    polls: list[list] = []
    quiet_after = rng.randrange(0, n + 1)
    off = [-1001, -1000, -999, -2, -1, 0, 1, 2, 999, 1000, 1001]
    for i in range(n):
        # --- clock
        x = rng.random()
        if style == 'cadence' or (style in ('peer-ka', 'silence', 'burst') and x < 0.6):
            step = rng.choice([100, 100, 100, 101, 1, 0, 37, 150, 1000, 250])
            if H > 30 and rng.random() < 0.5:
                step = rng.choice([1000, K * 1000 // 2 + 1, K * 1000, 5000])
        elif x < 0.25:
            step = rng.choice([0, 1, 2, 99, 100, 101, 999, 1000, 1001])
        elif x < 0.40:
            step = (1000 - t % 1000) + rng.choice([-1, 0, 1])
        elif x < 0.60:
            # aim at a silence on a boundary of no_early_expiry / expiry_by
            target = L + rng.choice([H * 1000, (H + 1) * 1000]) + rng.choice(off)
            step = target - t
        elif x < 0.80:
            # aim at the instant the next KEEPALIVE becomes due
            target = (A // 1000 + K) * 1000 + rng.choice(off)
            step = target - t
        elif x < 0.9:
            step = rng.choice([K * 1000, H * 1000, (H + 1) * 1000, 2 * (H + 1) * 1000]) + rng.choice(off)
        else:
            step = rng.randrange(0, max(2, (H + 2) * 1000))
        if step < 0:
            step = rng.choice([0, 1, 100])
        t += step
        # --- what the loop read
        y = rng.random()
        if style == 'silence' and i >= quiet_after:
            kind = 'nop'
        elif style == 'peer-ka':
            kind = 'keepalive' if (K and (t - L) >= K * 1000 and H) else ('nop' if y < 0.9 else 'update')
        elif style == 'burst':
            kind = rng.choice(['update', 'update', 'update', 'refresh', 'nop']) if (i // 8) % 2 == 0 else 'nop'
        else:
            if y < 0.62:
                kind = 'nop'
            elif y < 0.66:
                kind = rng.choice(['awake', 'done'])
            elif y < 0.80:
                kind = 'update'
            elif y < 0.92:
                kind = 'keepalive' if (H or rng.random() < 0.25) else 'update'
            else:
                kind = rng.choice(['refresh', 'operational', 'open', 'notification'])
        if H and rng.random() < out_rate:
            # ExaBGP writes something itself between two iterations (most often just before a KEEPALIVE is due)
            for _ in range(rng.choice([1, 1, 1, 2, 3])):
                polls.append([max(t - rng.choice([0, 1, 50]), polls[-1][0] if polls else tS), rng.choice(OUT[:2] if rng.random() < 0.8 else OUT)])
        polls.append([t, kind])
        # steering only: once the session must be over, one more iteration and stop
        if over:
            break
        if kind in REAL:
            L = t
        elif H and t // 1000 - L // 1000 > H:
            over = True
        if not H and kind == 'keepalive':
            nka += 1
            over = nka >= 2
        if K and t // 1000 >= A // 1000 + K:
            A = t
    return {'H': H, 'tR': tR, 'tS': tS, 'polls': polls, 'style': style}


def session_lines(case: dict) -> list[str]:
    return [f'timer init {case["H"]} {case["tR"]} {case["tS"]}'] + [(f'timer out {t} {k[4:]}' if k.startswith('out-') else f'timer poll {t} {k}') for t, k in case['polls']]


def gen_class(rng, maxlen: int) -> list[str]:
    """Class-level script: the methods in any order, any hold time (1 and 2 included), any clock
    (steps back included), constructor arguments other than 4/0, failing writes."""
    t = pick_base(rng)
    H = rng.choice([0, 0, 1, 2, 3, 3, 4, 6, 9, 30, 90, 180, 65535, rng.randrange(0, 200)])
    lines = [f'timer init {H} {t} {t + rng.choice([0, 1, 999, 5000])}']
    kinds = SCHED + sorted(REAL)
    for _ in range(rng.randrange(1, maxlen)):
        x = rng.random()
        if x < 0.08:
            t = max(0, t - rng.choice([1, 999, 1000, 1001, 5000, H * 1000 + 1]))  # the wall clock stepped back
        else:
            t += rng.choice([0, 1, 100, 999, 1000, 1001, (H // 3) * 1000, H * 1000 - 1, H * 1000, H * 1000 + 1000, H * 1000 + 1001, rng.randrange(0, 3000)])
            t = max(t, 0)
        op = rng.random()
        k = rng.choice(kinds) if rng.random() < 0.6 else rng.choice(['nop', 'keepalive'])
        if op < 0.02:
            lines.append(f'timer estab-recv {rng.choice(HOLDS + [65535])} {rng.choice(HOLDS + [65535])} {t}')
        elif op < 0.03:
            lines.append(f'timer estab-send {rng.choice(HOLDS + [65535])} {rng.choice(HOLDS + [65535])} {t}')
        elif op < 0.05:
            H = rng.choice([0, 1, 2, 3, 5, 9, 30, rng.randrange(0, 70000) % 65536])
            lines.append(f'timer rinit {H} {rng.choice([4, 4, 5, 6])} {rng.choice([0, 0, 1, 2])} {t}')
        elif op < 0.08:
            lines.append(f'timer sinit {rng.choice([H, H, 0, 1, 2, 3, 90])} {t}')
        elif op < 0.28:
            lines.append(f'timer check {t} {k}')
        elif op < 0.50:
            lines.append(f'timer recv {t} {k}')
        elif op < 0.65:
            lines.append(f'timer need {t}')
        elif op < 0.82:
            lines.append(f'timer send {t} {int(rng.random() < 0.8)}')
        elif op < 0.92:
            lines.append(f'timer poll {t} {k}')
        elif op < 0.97:
            lines.append(f'timer out {t} {rng.choice(OUT)[4:]}')
        else:
            lines.append('timer state')
    return lines


# ---------------------------------------------------------------------------------------------
# the property oracle, on what the implementation did


def oracle(case: dict, outs: list[str], writes: list[tuple[int, bytes]], kinds: dict[str, Any]) -> tuple[str | None, int]:
    """(None, -1) if the property holds on this run of the real classes, else (what fails, index of
    the poll). `outs[i]` = result of poll i ('idle' | 'ka' | 'notify c s' | 'dead').

    What is demanded is what the property states, with delta = the largest gap between two
    iterations of this schedule as the scheduling granularity, in exact integer arithmetic:
      H > 0: a NOTIFY from the timers is 4/0 and comes at a silence >= H s ("never closed for a silence
             shorter than H"); a session still open has been silent < (H+1) s at its last poll, and
             the 4/0 comes at a silence < (H+1) s + delta (closed once silent "for more than H seconds":
             one second is allowed for the whole-second clock the property's H is expressed in);
      H >= 3: every KEEPALIVE follows the previous one (the first: the start of the loop) by no more
             than H/3 s + delta, and at every iteration of an open session the last one is no older
             than H/3 s (H/3 as a rational, not the code's floor);
      H = 0: no KEEPALIVE is written, no 4/0 is raised.
    The tighter bounds of the theorems (strictness, floor(H/3), the 2/6 on a second KEEPALIVE with
    H = 0, the minimum KEEPALIVE spacing) are checked through the model correspondence, not here."""
    from exabgp.bgp.message import KeepAlive

    H, tR, tS = case['H'], case['tR'], case['tS']
    polls = case['polls']
    delta, prev = 0, tS
    for t, k in polls:
        if not k.startswith('out-'):
            delta = max(delta, t - prev)
            prev = t
    KEEPALIVE = b'\xff' * 16 + b'\x00\x13\x04'
    wr = [w for w in writes if w[1][18] == 4]  # the KEEPALIVEs among what was written
    L, A, closed = tR, tS, False
    for i, ((t, kname), o) in enumerate(zip(polls, outs)):
        if kname.startswith('out-'):
            # ExaBGP wrote something itself: not an iteration of the timers, the remote's view of the
            # KEEPALIVE schedule is judged at the iterations around it
            if o != 'idle':
                return f'event {i}: writing {kname[4:]} made the timers answer {o!r}', i
            continue
        m = kinds[kname]
        real = not m.SCHEDULING
        if closed:
            if o != 'dead':
                return f'poll {i}: activity {o!r} after the session ended', i
            continue
        if real:
            L = t
        silence = t - L
        if o == 'ka':
            if not wr or wr[0][0] != t or wr[0][1] != KEEPALIVE:
                return f'poll {i}: reported a KEEPALIVE but the bytes written at {t} are {wr[:1]}', i
            wr.pop(0)
        if o.startswith('notify'):
            c, s = map(int, o.split()[1:])
            closed = True
            if H > 0:
                if (c, s) != (4, 0):
                    return f'poll {i}: the timers ended a session with hold time {H} with {c}/{s}', i
                if not silence >= H * 1000:
                    return f'poll {i}: closed with 4/0 after a silence of {silence} ms, hold time {H} s', i
                if tS < tR + (H + 1) * 1000 and not silence < (H + 1) * 1000 + delta:
                    return f'poll {i}: 4/0 only after {silence} ms of silence (hold time {H} s, delta {delta} ms)', i
            elif (c, s) == (4, 0):
                return f'poll {i}: hold timer fired with hold time 0', i
            continue
        # still open after this iteration
        if H > 0 and not silence < (H + 1) * 1000:
            return f'poll {i}: still open after {silence} ms of silence, hold time {H} s', i
        if H == 0 and o == 'ka':
            return f'poll {i}: periodic KEEPALIVE sent with hold time 0', i
        if H >= 3:
            if o == 'ka':
                gap = t - A
                if not 3 * gap <= H * 1000 + 3 * delta:
                    return f'poll {i}: {gap} ms between KEEPALIVEs, hold time {H} s, delta {delta} ms', i
                A = t
            if not 3 * (t - A) <= H * 1000:
                return f'poll {i}: no KEEPALIVE sent at this iteration although the last one is {t - A} ms old, hold time {H} s', i
    if wr:
        return f'{len(wr)} KEEPALIVE(s) written that no iteration reported: {wr[:2]}', len(polls) - 1
    return None, -1


# ---------------------------------------------------------------------------------------------
# running


def run_impl_session(rig, case: dict) -> tuple[list[str], list[str], list[tuple[int, bytes]]]:
    rig.conn.writes.clear()
    full = [rig.line(l) for l in session_lines(case)]
    outs = [x.split(' ; ')[0] for x in full[1:]]
    return full, outs, list(rig.conn.writes)


def same(impl: str, model: str) -> bool:
    return impl == model or (model == 'race' and impl in ('opened', 'notify 5 1'))


def canon_session(case: dict) -> dict:
    return {'H': case['H'], 'send_init': case['tS'] - case['tR'], 'phase': case['tR'] % 1000, 'events': [[t - case['tR'], k] for t, k in case['polls']]}


def shrink_session(rig, kinds, case: dict) -> dict:
    def bad(c: dict) -> bool:
        _, outs, wr = run_impl_session(rig, c)
        return oracle(c, outs, wr, kinds)[0] is not None

    _, outs, wr = run_impl_session(rig, case)
    _, idx = oracle(case, outs, wr, kinds)
    cur = dict(case, polls=case['polls'][: idx + 1])
    if not bad(cur):
        return case
    i = 0
    while i < len(cur['polls']):
        cand = dict(cur, polls=cur['polls'][:i] + cur['polls'][i + 1 :])
        if cand['polls'] and bad(cand):
            cur = cand
        else:
            i += 1
    return cur


def shrink_lines(rig, lines: list[str]) -> list[str]:
    def bad(ls: list[str]) -> bool:
        a = [rig.line(l) for l in ls]
        b = common.run_driver('drv_timer', ls)
        return any(not same(x, y) for x, y in zip(a, b))

    cur = list(lines)
    i = 1
    while i < len(cur):
        cand = cur[:i] + cur[i + 1 :]
        if bad(cand):
            cur = cand
        else:
            i += 1
    return cur


def load_corpus() -> list[dict]:
    d = common.VERIF / 'corpus' / PROP
    out = []
    if d.exists():
        for f in sorted(d.glob('*.json')):
            c = json.loads(f.read_text())
            c['name'] = f.name
            out.append(c)
    return out


def h_class(h: int) -> str:
    if h == 0:
        return 'H=0'
    if h == 3:
        return 'H=3'
    if h < 10:
        return 'H=4..9'
    if h < 100:
        return 'H=10..99'
    if h < 1000:
        return 'H=100..999'
    if h < 65533:
        return 'H=1000..65532'
    return 'H=65533..65535'


def compare_batch(ctx: Ctx, rig, batch: list[tuple[str, Any, list[str], list[str]]]) -> None:
    """batch of (stream, case, lines, impl answers): one driver process for all of them."""
    if not ctx.driver_ok or not batch:
        return
    script: list[str] = []
    for _, _, lines, _ in batch:
        script += lines
    model = common.run_driver('drv_timer', script)
    pos = 0
    for stream, case, lines, impl in batch:
        mo = model[pos : pos + len(lines)]
        pos += len(lines)
        for j, (a, b) in enumerate(zip(impl, mo)):
            if not same(a, b):
                ctx.count('disagreement')
                small = lines[: j + 1]
                if len(ctx.disagreements) < 3:
                    small = shrink_lines(rig, small)
                    a2 = [rig.line(l) for l in small]
                    b2 = common.run_driver('drv_timer', small)
                    ctx.disagreements.append(Disagreement(stream, {'lines': small}, b2[-1], a2[-1]))
                else:
                    ctx.disagreements.append(Disagreement(stream, {'lines': small[-6:]}, b, a))
                break


def run(ctx: Ctx) -> None:
    from harness import timerrig

    rng = ctx.rng
    quick = ctx.tier == 'quick'
    n_sessions = 4000 if quick else 150000
    n_class = 1500 if quick else 40000
    maxlen = 48 if quick else 120
    ctx.rule = (
        'session cases: a hold time (boundary values 0,3..12,29..31,89..91,179..181,…,65533..65535 enumerated, else random in 3..65535), '
        'ReceiveTimer/KA creation times with every millisecond phase, then 1..%d loop iterations whose clock readings are steered to the '
        'boundaries of the theorems (silence = H s and H+1 s -1001..+1001 ms, KEEPALIVE due instant +-1 ms, second boundaries, bursts at the same instant, '
        'long gaps) and whose message is NOP/AWAKE/DONE or a real message object of every type; class cases: the methods in any order, hold times 1 and 2, '
        'other constructor codes, failing writes, clock steps back. A session case is non-trivial when the real classes fired at least one timer action '
        '(KEEPALIVE written or Notify raised) and the schedule has both a real message and a NOP poll; distinct = distinct (H, times relative to creation, ms phase, kinds).'
    ) % (maxlen - 1)
    from harness import sessionrig

    sessionrig.install()  # before the rig saves the `time` name it is going to replace
    rig = timerrig.TimerRig()
    kinds = timerrig.kind_objects()
    seen_fail: set = set()
    try:
        _run(ctx, rig, kinds, rng, n_sessions, n_class, maxlen, seen_fail)
    finally:
        rig.close()
    # 3. establishment: the real Peer.run() for pairs (our hold time, the peer's hold time)
    est_fail: set = set()
    n_before = len(ctx.failures)
    for c in load_corpus():
        if 'local' in c and c.get('stage') != 'openconfirm':
            check_estab(ctx, {k: c[k] for k in ('local', 'peer', 'arrivals', 'kind', 'routes')}, 'corpus', est_fail)
    for case in estab_cases(rng, ctx.tier):
        if ctx.time_left() < 3:
            ctx.notes.append('budget reached inside the establishment stream')
            break
        check_estab(ctx, case, 'pairs', est_fail)
    # 4. OPENCONFIRM: the peer's OPEN is in, the first KEEPALIVE comes at H - e, H + e, never
    for c in load_corpus():
        if c.get('stage') == 'openconfirm':
            check_oc(ctx, {k: c[k] for k in ('local', 'peer', 'arrivals', 'kind', 'until')}, 'corpus', est_fail)
    for case in oc_cases(rng, ctx.tier):
        if ctx.time_left() < 3:
            ctx.notes.append('budget reached inside the OPENCONFIRM stream')
            break
        check_oc(ctx, case, 'pairs', est_fail)
    if len(ctx.failures) - n_before > 5:
        ctx.notes.append(f'{len(ctx.failures) - n_before} failing establishment / OPENCONFIRM cases; the 5 smallest are reported')
        tail = sorted(ctx.failures[n_before:], key=lambda f: (f.canon['local'] + f.canon['peer'], json.dumps(f.canon)))
        ctx.failures[n_before:] = tail[:5]


def check_session(ctx: Ctx, rig, kinds, case: dict, origin: str, seen_fail: set) -> tuple[list[str], list[str]]:
    full, outs, writes = run_impl_session(rig, case)
    ctx.evaluations += 1
    ctx.count('session:' + origin)
    ctx.count(h_class(case['H']))
    ctx.count('polls:%d-%d' % (len(case['polls']) // 16 * 16, len(case['polls']) // 16 * 16 + 15))
    fired = set()
    for (t, k), o in zip(case['polls'], outs):
        ctx.count('kind:' + k)
        if o != 'idle':
            ctx.count('fired:' + o)
        if o == 'ka' or o.startswith('notify'):
            fired.add(o)
        if t % 1000 in (0, 999):
            ctx.count('poll-on-second-boundary')
    ks = {k for _, k in case['polls']}
    if ks & set(OUT):
        ctx.count('session-with-outbound-writes')
    if fired and (ks & REAL) and (ks & set(SCHED)):
        ctx.nontrivial(canon_session(case))
    if fired:
        ctx.sample({'H': case['H'], 'tR': case['tR'], 'tS': case['tS'], 'polls': case['polls'][:12], 'fired': [[t, o] for (t, _), o in zip(case['polls'], outs) if o not in ('idle', 'dead')][:8]}, cap=4)
    what, idx = oracle(case, outs, writes, kinds)
    if what:
        ctx.count('oracle-fail')
        if len(seen_fail) >= 30:
            return session_lines(case), full  # one defect, many schedules: 30 shrunk cases are enough to pick the shortest from
        small = shrink_session(rig, kinds, case)
        canon = canon_session(small)
        key = json.dumps(canon)
        if key not in seen_fail:
            seen_fail.add(key)
            _, o2, w2 = run_impl_session(rig, small)
            ctx.failures.append(Failure('session-script', canon, {'H': small['H'], 'tR': small['tR'], 'tS': small['tS'], 'polls': small['polls']}, oracle(small, o2, w2, kinds)[0] or what))
    return session_lines(case), full


def _run(ctx: Ctx, rig, kinds, rng, n_sessions: int, n_class: int, maxlen: int, seen_fail: set) -> None:
    from exabgp.bgp.message.open.holdtime import HoldTime

    batch: list = []

    def flush() -> None:
        compare_batch(ctx, rig, batch)
        batch.clear()

    # 0. corpus
    for c in load_corpus():
        if 'local' in c:
            continue  # establishment cases: run with the establishment stream
        if 'polls' in c:
            lines, impl = check_session(ctx, rig, kinds, c, 'corpus', seen_fail)
            batch.append(('session', c, lines, impl))
            if 'expect' in c:
                got = [x.split(' ; ')[0] for x in impl[1:]]
                if got != c['expect']:
                    ctx.disagreements.append(Disagreement('corpus', {'file': c['name']}, c['expect'], got))
        else:
            impl = [rig.line(l) for l in c['lines']]
            ctx.evaluations += 1
            ctx.count('class:corpus')
            batch.append(('class', c, c['lines'], impl))
            if 'expect' in c and [x.split(' ; ')[0] for x in impl] != c['expect']:
                ctx.disagreements.append(Disagreement('corpus', {'file': c['name']}, c['expect'], [x.split(' ; ')[0] for x in impl]))
    flush()

    # 1. exhaustive: HoldTime(h).keepalive() for every 16-bit hold time (float division in the code, floor in the model)
    hs = list(range(0, 65536))
    lines = [f'timer keepalive {h}' for h in hs]
    impl = [str(HoldTime(h).keepalive()) for h in hs]
    for h, v in zip(hs, impl):
        if int(v) != h // 3:
            ctx.failures.append(Failure('session-script', {'H': h, 'keepalive': int(v)}, {'H': h}, f'HoldTime({h}).keepalive() = {v}, not floor(H/3)'))
            break
    batch.append(('keepalive-interval', None, lines, impl))
    ctx.evaluations += len(hs)
    ctx.count('keepalive-interval (all 65536 hold times)', len(hs))
    ctx.extra['exhaustive_keepalive_interval'] = len(hs)
    # message kinds: TYPE byte and SCHEDULING of the real objects vs the generated table used by the model
    lines = [f'timer kind {k}' for k in sorted(kinds)]
    batch.append(('kinds', None, lines, [rig.line(l) for l in lines]))
    ctx.evaluations += len(lines)
    # OPEN wait: the real Peer._read_open under virtual time
    ow = []
    for w in [1, 2, 60, 3600] + [rng.randrange(1, 600) for _ in range(4 if ctx.tier == 'quick' else 40)]:
        for a in ['never', 0, 1, w * 1000 - 1, w * 1000, w * 1000 + 1, w * 2000, rng.randrange(0, w * 2000)]:
            ow.append(f'timer openwait {w} {a}')
    impl = []
    for l in ow:
        r = rig.line(l)
        impl.append(r)
        ctx.count('openwait:' + r)
        w, a = l.split()[2:]
        late = a == 'never' or int(a) > int(w) * 1000
        early = a != 'never' and int(a) < int(w) * 1000
        if (late and r != 'notify 5 1') or (early and r != 'opened'):
            ctx.failures.append(Failure('session-script', {'openwait': int(w), 'arrival': a, 'got': r}, {'line': l}, f'openwait {w} s, OPEN complete after {a} ms: {r}'))
    batch.append(('openwait', None, ow, impl))
    ctx.evaluations += len(ow)
    flush()

    # 2. random sessions (with the oracle) and class scripts
    done_s = done_c = 0
    while (done_s < n_sessions or done_c < n_class) and ctx.time_left() > 30:
        for _ in range(200):
            if done_s < n_sessions:
                case = gen_session(rng, maxlen)
                ctx.count('style:' + case['style'])
                lines, impl = check_session(ctx, rig, kinds, case, 'random', seen_fail)
                batch.append(('session', case, lines, impl))
                done_s += 1
        for _ in range(75):
            if done_c < n_class:
                lines = gen_class(rng, maxlen)
                impl = [rig.line(l) for l in lines]
                for l, r in zip(lines, impl):
                    ctx.count('classop:' + l.split()[1])
                    res = r.split(' ; ')[0]
                    if res.startswith('notify'):
                        ctx.count('class-' + res)
                ctx.evaluations += 1
                ctx.count('class:random')
                batch.append(('class', None, lines, impl))
                done_c += 1
        flush()
    if len(ctx.failures) > 5:
        # one defect shows up on many schedules: report the five shortest shrunk cases
        ctx.notes.append(f'{len(ctx.failures)} distinct failing cases; the 5 shortest are reported')
        ctx.failures.sort(key=lambda f: (len(json.dumps(f.canon)), json.dumps(f.canon)))
        del ctx.failures[5:]
    if done_s < n_sessions or done_c < n_class:
        ctx.notes.append(f'budget reached after {done_s} session cases and {done_c} class scripts')


# ---------------------------------------------------------------------------------------------
# establishment stream: real Peer.run() under virtual time


def estab_until(case: dict) -> int:
    h = min(case['local'], case['peer'])
    last = max(case['arrivals']) if case['arrivals'] else 0
    return last + ((h + 5) * 1000 if h else (max(case['local'], case['peer']) + 8) * 1000)


def oracle_estab(case: dict, res: dict) -> str | None:
    """The property on what the REMOTE observes (ms after the session reached ESTABLISHED): the two OPENs
    carried `local` and `peer`, so H = min (RFC 4271 4.2: 0 if either is 0).  delta = the largest distance
    between two iterations of the peer's main loop in this run (measured at its own check_ka calls); one
    delta for the iteration that picks a message up, one for the one that acts.
      H = 0: no NOTIFICATION 4/0, no KEEPALIVE later than 1 s after establishment (the End-of-RIB substitute is immediate)
      H > 0: nothing but a 4/0 ends the session; it comes >= H s and < (H+1) s + 2 delta after the last message
             the remote sent (or establishment); a session still open has been silent for less than that;
      H >= 3: establishment → first KEEPALIVE → … → end of observation, every step <= H/3 s + 2 delta."""
    H = min(case['local'], case['peer'])
    recv_t = [r['t'] for r in res['records'] if r['op'] == 'recv']
    delta = max([b - a for a, b in zip(recv_t, recv_t[1:])] + [0])
    slack0 = int(res['t0'] * 1000) + 1  # establishment is stamped after the rig has settled
    wrote = res['wrote']
    notifs = [(ms, k) for ms, k, st in wrote if k.startswith('NOTIFICATION')]
    kas = [ms for ms, k, st in wrote if k == 'KEEPALIVE']
    end = res['closed_ms'] if res['closed_ms'] is not None else res['until_ms']
    real_arrivals = sorted(case['arrivals']) if case['kind'] in REAL else []
    if H == 0:
        for ms, k in notifs:
            if k == 'NOTIFICATION 4 0':
                return f'hold timer fired ({k} {ms:.0f} ms after establishment) although the negotiated hold time is 0 (our OPEN {case["local"]}, peer OPEN {case["peer"]})'
        late = [ms for ms in kas if ms > 1000]
        if late:
            return f'{len(late)} periodic KEEPALIVE(s) with negotiated hold time 0, first {late[0]:.0f} ms after establishment'
        return None
    for ms, k in notifs:
        la = max([a for a in real_arrivals if a <= ms] + [0])
        if k != 'NOTIFICATION 4 0':
            return f'session with hold time {H} ended with {k} at {ms:.0f} ms'
        if not ms - la >= H * 1000:
            return f'closed with 4/0 {ms - la:.0f} ms after the last message the remote sent, hold time {H} s'
        if not ms - la < (H + 1) * 1000 + 2 * delta + (slack0 if la == 0 else 0):
            return f'4/0 only {ms - la:.0f} ms after the last message, hold time {H} s, delta {delta} ms'
    if not notifs:
        la = max(real_arrivals + [0])
        if res['closed_ms'] is not None:
            return f'connection closed at {res["closed_ms"]:.0f} ms without NOTIFICATION'
        if not res['until_ms'] - la < (H + 1) * 1000 + 2 * delta + (slack0 if la == 0 else 0):
            return f'still open {res["until_ms"] - la:.0f} ms after the last message the remote sent, hold time {H} s'
    if H >= 3:
        marks = [0.0] + [k for k in kas if k <= end] + [end]
        for a, b in zip(marks, marks[1:]):
            if not 3 * (b - a) <= H * 1000 + 6 * delta + (3 if a == 0.0 else 0):
                return f'no KEEPALIVE between {a:.0f} ms and {b:.0f} ms after establishment ({b - a:.0f} ms), hold time {H} s, delta {delta} ms'
    return None


def run_estab(case: dict) -> dict:
    from harness import timerrig

    return timerrig.run_establishment(case['local'], case['peer'], case['arrivals'], case['kind'], case['routes'], estab_until(case), api_events=case.get('api'), cfg_extra=case.get('cfg'))


def estab_cases(rng, tier: str) -> list[dict]:
    cases = []
    flip = 0
    for local in HOLDS:
        for peer in HOLDS:
            h = min(local, peer)
            flip += 1
            cases.append({'local': local, 'peer': peer, 'arrivals': [], 'kind': 'keepalive', 'routes': 3 * (flip % 2)})
            if h:
                k = h * 1000 // 3
                arr = [k * i + rng.choice([-900, 0, 500]) for i in range(1, 4)]
                cases.append({'local': local, 'peer': peer, 'arrivals': [max(a, 1) for a in arr], 'kind': rng.choice(['keepalive', 'update']), 'routes': 3 * ((flip + 1) % 2)})
            else:
                cases.append({'local': local, 'peer': peer, 'arrivals': [5000], 'kind': 'update', 'routes': 3 * ((flip + 1) % 2)})
    # what the API process asks for meanwhile (a route-refresh request, new routes), with and without the
    # route-refresh capability: outbound work, sent or not, never stands in for the KEEPALIVE schedule
    for h, refresh, api in [(3, False, [(1500, ['queueRefresh'])]), (3, True, [(1500, ['queueRefresh'])]), (9, False, [(500, ['queueRefresh']), (4000, ['announce', 2])]),
                            (9, True, [(100, ['announce', 3]), (3100, ['announce', 1]), (6100, ['queueRefresh'])]), (90, False, [(1000, ['queueRefresh'])])]:  # fmt: skip
        cases.append({'local': h, 'peer': 180, 'arrivals': [h * 1000 // 3 * i for i in range(1, 7)], 'kind': 'keepalive', 'routes': 1, 'api': api, 'cfg': {'refresh': refresh}})
    # a peer that keeps the session alive with UPDATEs only (RFC 4271 4.4: KEEPALIVE *or* UPDATE restart the hold timer),
    # on a neighbor which stores nothing of them (`adj-rib-in false`, no API consumer): the messages still count
    for h in (3, 9):
        k = h * 1000 * 2 // 3
        for cfg in ({'adj_rib_in': False}, {'adj_rib_in': True}):
            cases.append({'local': h, 'peer': 180, 'arrivals': [k * i for i in range(1, 7)], 'kind': 'update', 'routes': 1, 'cfg': dict(cfg)})
            cases.append({'local': h, 'peer': 180, 'arrivals': [k, 2 * k], 'kind': 'update', 'routes': 0, 'cfg': dict(cfg)})  # ... then silence
    # a peer that never leaves the main loop an idle iteration: messages less than the 0.1 s read timeout apart for
    # longer than H/3 (a steady stream of UPDATEs, KEEPALIVEs or ROUTE-REFRESHes).  The KEEPALIVE schedule is about
    # what ExaBGP *sends*; what it receives meanwhile must not postpone it (seed C12-9).
    for h, gap, kind in [(3, 60, 'update'), (3, 40, 'keepalive'), (9, 70, 'update'), (6, 90, 'refresh')]:
        n = (h * 1000 * 5 // 6) // gap
        cases.append({'local': h, 'peer': 180, 'arrivals': [gap * i for i in range(1, n + 1)], 'kind': kind, 'routes': 0})
    if tier != 'quick':
        for _ in range(12):
            h = rng.choice([3, 4, 6, 9])
            gap = rng.randrange(20, 100)
            start = rng.randrange(1, h * 1000)
            n = (h * 1000 * rng.choice([2, 3, 5]) // 6) // gap
            cases.append({'local': h, 'peer': rng.choice([h, 180]), 'arrivals': [start + gap * i for i in range(n)], 'kind': rng.choice(['update', 'keepalive', 'refresh']), 'routes': rng.choice([0, 2])})
    if tier != 'quick':
        for _ in range(60):
            h = rng.choice([3, 4, 9, 30])
            api = sorted((rng.randrange(0, 3 * h * 1000), rng.choice([['queueRefresh'], ['announce', 1], ['announce', 5]])) for _ in range(rng.randrange(1, 5)))
            cases.append({'local': h, 'peer': rng.choice([h, 180]), 'arrivals': [h * 1000 // 3 * i for i in range(1, 10)], 'kind': 'keepalive', 'routes': rng.choice([0, 2]), 'api': [list(x) for x in api], 'cfg': {'refresh': rng.random() < 0.5}})
        for _ in range(250):
            local, peer = (rng.choice(HOLDS + [4, 5, 10, 30, rng.randrange(3, 200)]) for _ in range(2))
            h = min(local, peer)
            arr, t = [], 0
            for _ in range(rng.randrange(0, 6)):
                t += rng.choice([h * 1000 // 3, h * 1000 - 50, h * 1000 + 50, h * 500, 1000, rng.randrange(1, (h + 1) * 1000 + 1)]) if h else rng.randrange(1, 20000)
                arr.append(max(t, 1))
            cases.append({'local': local, 'peer': peer, 'arrivals': arr, 'kind': rng.choice(['keepalive', 'update', 'refresh']) if h else rng.choice(['update', 'refresh']), 'routes': rng.choice([0, 0, 3, 30])})
    return cases


def check_estab(ctx: Ctx, case: dict, origin: str, seen_fail: set) -> None:
    from harness import timerrig

    res = run_estab(case)
    ctx.evaluations += 1
    H = min(case['local'], case['peer'])
    ctx.count('estab:' + origin)
    ctx.count('estab:negotiated-' + h_class(H))
    ctx.count('estab:timer-calls', len(res['records']))
    lines, impl = timerrig.establishment_lines(case['local'], case['peer'], res['records'])
    recv_t = [r['t'] for r in res['records'] if r['op'] == 'recv']
    d = max([b - a for a, b in zip(recv_t, recv_t[1:])] + [0])
    ctx.extra['estab_max_delta_ms'] = max(ctx.extra.get('estab_max_delta_ms', 0), d)
    acted = [(ms, k) for ms, k, st in res['wrote'] if k == 'KEEPALIVE' or k.startswith('NOTIFICATION')]
    if acted or H == 0:
        ctx.nontrivial({'estab': case})
    ctx.sample({'estab': case, 'timer_calls': len(lines), 'first_calls': lines[:5], 'remote_saw': acted[:6], 'closed_ms': res['closed_ms']}, cap=6)
    if not any(l.split()[1] == 'estab-recv' for l in lines) or not any(l.split()[1] == 'estab-send' for l in lines):
        ctx.disagreements.append(Disagreement('establishment', case, 'ReceiveTimer and SendTimer created', [l for l in lines[:4]]))
    elif ctx.driver_ok:
        model = common.run_driver('drv_timer', lines)
        for j, (l, a, b) in enumerate(zip(lines, impl, model)):
            if a != timerrig.model_view(l, b):
                ctx.count('disagreement')
                ctx.disagreements.append(Disagreement('establishment', {'case': case, 'call': j, 'line': l, 'before': lines[max(0, j - 3) : j]}, timerrig.model_view(l, b), a))
                break
    what = oracle_estab(case, res)
    if what:
        ctx.count('oracle-fail')
        small = case
        for cand in (dict(case, arrivals=[], routes=0), dict(case, arrivals=[]), dict(case, routes=0)):
            if cand != small and oracle_estab(cand, run_estab(cand)):
                small = cand
                break
        canon = {'local': small['local'], 'peer': small['peer'], 'routes': small['routes'], 'kind': small['kind'] if small['arrivals'] else '-', 'arrivals': small['arrivals']}
        if small.get('api'):
            canon.update(api=small['api'], cfg=small.get('cfg'))
        key = json.dumps(canon)
        if key not in seen_fail:
            seen_fail.add(key)
            ctx.failures.append(Failure('session-script', canon, dict(small, establishment=True), oracle_estab(small, run_estab(small)) or what))


# ---------------------------------------------------------------------------------------------
# OPENCONFIRM stream: the peer has sent its OPEN; when (if ever) does the first KEEPALIVE come


def oc_cases(rng, tier: str) -> list[dict]:
    cases = []
    pairs = [(3, 180), (180, 3), (9, 9), (90, 180), (65535, 65535), (0, 180), (180, 0), (0, 0)]
    if tier != 'quick':
        pairs += [(3, 3), (9, 180), (180, 90), (65535, 3), (4, 5), (30, 30), (180, 180), (rng.randrange(3, 400), rng.randrange(3, 400))]
    for local, peer in pairs:
        h = min(local, peer)
        if h:
            tail = (h + 3) * 1000 if h <= 9 else 1500  # a long established phase is a million loop iterations
            cases.append({'local': local, 'peer': peer, 'arrivals': [], 'kind': 'keepalive', 'until': (h + 4) * 1000})
            for off in [-500, -50, -1, 0, 1, 50, 500] + ([rng.randrange(-h * 1000 + 1, 0), rng.randrange(1, 3000)] if tier != 'quick' else []):
                a = h * 1000 + off
                cases.append({'local': local, 'peer': peer, 'arrivals': [a], 'kind': 'keepalive', 'until': max(a, h * 1000) + tail})
            cases.append({'local': local, 'peer': peer, 'arrivals': [h * 500], 'kind': 'update', 'until': h * 1000 + 2000})
            cases.append({'local': local, 'peer': peer, 'arrivals': [h * 1000 + 700], 'kind': 'refresh', 'until': h * 1000 + 2000})
        else:
            top = max(local, peer, 180)
            cases.append({'local': local, 'peer': peer, 'arrivals': [], 'kind': 'keepalive', 'until': (top + 20) * 1000})
            cases.append({'local': local, 'peer': peer, 'arrivals': [(top + 1) * 1000 + 250], 'kind': 'keepalive', 'until': (top + 5) * 1000})
            cases.append({'local': local, 'peer': peer, 'arrivals': [100000], 'kind': 'update', 'until': 103000})
    return cases


def oracle_oc(case: dict, res: dict) -> str | None:
    """The property on what the REMOTE observes after it sent its OPEN and ExaBGP went to OPENCONFIRM
    (ms after that moment; the remote's OPEN left at most `t0` ms earlier).  H = min of the two OPENs.
      H = 0: never a NOTIFICATION 4/0;
      H > 0: a 4/0 comes no earlier than H s after the last complete message the remote sent before it
             (its OPEN if none); if the remote sends nothing in the first (H+1) s + 250 ms, the 4/0 has been
             sent by then (one second and 250 ms of scheduling granularity allowed, as when established)."""
    H = min(case['local'], case['peer'])
    notifs = [(ms, k, st) for ms, k, st in res['wrote'] if k.startswith('NOTIFICATION')]
    real = sorted(case['arrivals']) if case['kind'] in REAL else []
    open_sent_before = int(res['t0'] * 1000) + 1
    for ms, k, st in notifs:
        if k != 'NOTIFICATION 4 0':
            continue
        if H == 0:
            return f'hold timer fired in {st} ({ms:.0f} ms after the peer\'s OPEN) although the negotiated hold time is 0 (our OPEN {case["local"]}, peer OPEN {case["peer"]})'
        before = [a for a in real if a < ms]
        if before:
            if not ms - max(before) >= H * 1000:
                return f'4/0 in {st} only {ms - max(before):.0f} ms after the {case["kind"]} the remote sent, hold time {H} s'
        elif not ms + open_sent_before >= H * 1000:
            return f'4/0 in {st} {ms:.0f} ms after the peer\'s OPEN, hold time {H} s'
    if H > 0:
        limit = (H + 1) * 1000 + 250
        first = real[0] if real else None
        if (first is None or first > limit) and res['until_ms'] > limit:
            if not any(k == 'NOTIFICATION 4 0' and ms <= limit for ms, k, st in notifs):
                seen = [(ms, k) for ms, k, st in notifs][:2]
                return f'the peer sent its OPEN and then nothing for {min(res["until_ms"], first or res["until_ms"]):.0f} ms, hold time {H} s: no NOTIFICATION 4/0 within {limit} ms (session in {res["fsm"]}, notifications {seen})'
    return None


def run_oc(case: dict) -> dict:
    from harness import timerrig

    return timerrig.run_establishment(case['local'], case['peer'], case['arrivals'], case['kind'], 0, case['until'], stage='openconfirm')


def check_oc(ctx: Ctx, case: dict, origin: str, seen_fail: set) -> None:
    from harness import timerrig

    res = run_oc(case)
    ctx.evaluations += 1
    H = min(case['local'], case['peer'])
    ctx.count('openconfirm:' + origin)
    ctx.count('openconfirm:negotiated-' + h_class(H))
    oc = res['oc']
    out = oc['out'] if oc else 'never-entered'
    ctx.count('openconfirm-outcome:' + ' '.join(w for i, w in enumerate(out.split()) if i != 1 or not w.isdigit()))
    ctx.nontrivial({'openconfirm': case})
    ctx.sample({'openconfirm': case, 'wait_began': oc and oc['tW'], 'reads': oc and oc['reads'][:3], 'outcome': out, 'remote_saw': [(ms, k, st) for ms, k, st in res['wrote'] if k != 'UPDATE'][:4]}, cap=9)
    if oc is None:
        ctx.disagreements.append(Disagreement('openconfirm', case, 'Peer._read_ka entered', 'never entered'))
    elif ctx.driver_ok:
        lines, impl = timerrig.establishment_lines(case['local'], case['peer'], res['records'])
        q = timerrig.openconfirm_line(case['local'], case['peer'], oc, case['until'])
        model = common.run_driver('drv_timer', [q] + lines)
        m = model[0]
        ok = m == out or (m.startswith('race') and out.split()[0] in ('established', 'notify') and out.split()[1] == m.split()[1])
        if not ok:
            ctx.count('disagreement')
            ctx.disagreements.append(Disagreement('openconfirm', {'case': case, 'query': q}, m, out))
        for j, (l, a, b) in enumerate(zip(lines, impl, model[1:])):
            if a != timerrig.model_view(l, b):
                ctx.count('disagreement')
                ctx.disagreements.append(Disagreement('openconfirm-handover', {'case': case, 'call': j, 'line': l, 'before': lines[max(0, j - 3) : j]}, timerrig.model_view(l, b), a))
                break
    what = oracle_oc(case, res)
    if what:
        ctx.count('oracle-fail')
        canon = {'stage': 'openconfirm', 'local': case['local'], 'peer': case['peer'], 'kind': case['kind'] if case['arrivals'] else '-', 'arrivals': case['arrivals']}
        key = json.dumps(canon)
        if key not in seen_fail:
            seen_fail.add(key)
            ctx.failures.append(Failure('session-script', canon, dict(case, stage='openconfirm'), what))


def replay(path: str) -> int:
    from harness import timerrig

    data = json.loads(open(path).read())
    case = data.get('replay', data)
    if case.get('stage') == 'openconfirm':
        res = run_oc(case)
        oc = res['oc']
        print('our OPEN hold time', case['local'], '/ peer OPEN hold time', case['peer'], '→ H =', min(case['local'], case['peer']))
        print('after its OPEN the remote sends', case['kind'], 'at', case['arrivals'], 'ms; observed for', case['until'], 'ms')
        print('Peer._read_ka:', oc)
        print('remote saw:', [(ms, k, st) for ms, k, st in res['wrote'] if k != 'UPDATE'][:8], 'closed_ms', res['closed_ms'], 'fsm', res['fsm'])
        what = oracle_oc(case, res)
        print('holds :', what is None, '' if what is None else what)
        return 0 if what is None else 1
    if 'local' in case:
        case.setdefault('kind', 'keepalive')
        res = run_estab(case)
        print('our OPEN hold time', case['local'], '/ peer OPEN hold time', case['peer'], '→ H =', min(case['local'], case['peer']))
        for r in res['records'][:3]:
            print('  ', r)
        print('remote sends', case['kind'], 'at', case['arrivals'], 'ms; ExaBGP configured routes:', case['routes'])
        print('remote saw:', [(ms, k) for ms, k, st in res['wrote'] if k != 'UPDATE'][:12], 'closed_ms', res['closed_ms'])
        what = oracle_estab(case, res)
        print('holds :', what is None, '' if what is None else what)
        return 0 if what is None else 1
    from harness import sessionrig

    sessionrig.install()
    rig = timerrig.TimerRig()
    try:
        if 'polls' not in case:
            for l in case.get('lines', [case.get('line')]):
                print(l, '->', rig.line(l))
            return 1
        kinds = timerrig.kind_objects()
        full, outs, writes = run_impl_session(rig, case)
        for l, o in zip(session_lines(case), full):
            print(f'{l:40s} -> {o}')
        print('KEEPALIVEs written at:', [t for t, _ in writes])
        what, _ = oracle(case, outs, writes, kinds)
        print('holds :', what is None, '' if what is None else what)
        return 0 if what is None else 1
    finally:
        rig.close()
