"""C12 — Hold and keepalive timers, part (a): the timer arithmetic and its tie to the real classes.

Correspondence: the REAL `ReceiveTimer` / `SendTimer` / `KA` (+ real `Protocol.new_keepalive` into a
capture connection) and the real `Peer._read_open` (harness/timerrig.py) against the compiled Lean
model `drv_timer`, on the same line scripts, answers and full timer state compared line by line.
Oracle: the bounds of the theorems of ExaModel/Props/C12.lean evaluated, in plain integer
arithmetic, on what the implementation did (NOTIFY raised, KEEPALIVE bytes captured with their
clock reading) — it does not consult the model.

Part (b) (the real Peer loop under a virtual-time event loop, OPENCONFIRM hold timer F18) belongs to
the session rig and is not here.
"""

from __future__ import annotations

import json
from typing import Any

from harness import common
from harness.common import Ctx, Disagreement, Failure

THEOREM_MODULES = ['ExaModel.Props.C12']
DRIVERS = ['drv_timer']
TABLES = ['timer']
PROP = 'C12'
ASSUMPTIONS = [
    'the negotiated hold time is 0 or in 3..65535 (C07; `HoldTime.MIN`); the class-level correspondence also covers 1 and 2',
    'time.time() is non-decreasing and advances at the rate of real time (the code uses the wall clock, not time.monotonic(): a forward clock step longer than H ends the session with 4/0, a backward step postpones expiry and KEEPALIVEs)',
    'silence is measured where the timers see it: from the loop iteration that handed the last real message to check_ka, not from its arrival on the socket',
    'the main loop reaches the two timer calls at least every delta ms (it blocks in sock_sendall under back-pressure): runtime, measured by the session rig (part b)',
    'writes succeed: a NetworkError inside new_keepalive is turned into Notify(4,0) by KA.send_if_needed (modelled and compared at class level, excluded from the schedule theorems)',
    'OPENCONFIRM is outside this part: _read_ka calls check_ka_timer only after a message arrived, so no timer runs while waiting for the first KEEPALIVE (F18, session rig)',
]
TRUSTED_EXTRA = [
    'harness/timerrig.py: replaces the `time` name in exabgp.bgp.timer by a settable clock (float seconds = ms/1000); the `poll` op re-states the two timer lines of Peer._main and _run\'s `except Notify`',
]

REAL = {'open', 'update', 'notification', 'keepalive', 'refresh', 'operational'}
SCHED = ['nop', 'awake', 'done']
H_BOUNDARY = [0, 3, 4, 5, 6, 7, 8, 9, 10, 11, 12, 29, 30, 31, 89, 90, 91, 179, 180, 181, 240, 255, 256, 3600, 32767, 32768, 65533, 65534, 65535]


# ---------------------------------------------------------------------------------------------
# generators


def pick_h(rng) -> int:
    x = rng.random()
    if x < 0.08:
        return 0
    if x < 0.16:
        return 3
    if x < 0.45:
        return rng.choice(H_BOUNDARY)
    if x < 0.75:
        return rng.randrange(3, 40)
    if x < 0.9:
        return rng.randrange(3, 1000)
    return rng.randrange(3, 65536)


def pick_base(rng) -> int:
    base = rng.choice([0, 0, 1000, 59000, 123456000, 1_700_000_000_000 + rng.randrange(0, 10**9) * 1000])
    return base + rng.choice([0, 0, 1, 499, 500, 998, 999, rng.randrange(1000)])


def gen_session(rng, maxlen: int) -> dict:
    """One established session: ReceiveTimer at tR, KA at tS >= tR, then loop iterations at
    non-decreasing clock readings. Times are steered to the boundaries of the theorems."""
    H = pick_h(rng)
    K = H // 3
    tR = pick_base(rng)
    tS = tR + rng.choice([0, 0, 0, 1, rng.randrange(1000), rng.randrange(0, (H + 1) * 1000)])
    style = rng.choice(['cadence', 'peer-ka', 'silence', 'burst', 'random', 'boundary', 'boundary'])
    n = rng.randrange(1, maxlen)
    t, L, A = tS, tR, tS
    over, nka = False, 0
    polls: list[list] = []
    quiet_after = rng.randrange(0, n + 1)
    off = [-1001, -1000, -999, -2, -1, 0, 1, 2, 999, 1000, 1001]
    for i in range(n):
        # --- clock
        x = rng.random()
        if style == 'cadence' or (style in ('peer-ka', 'silence', 'burst') and x < 0.6):
            step = rng.choice([100, 100, 100, 101, 1, 0, 37, 150, 1000, 250])
            if H > 30 and rng.random() < 0.5:
                step = rng.choice([1000, K * 1000 // 2 + 1, K * 1000, 5000])
        elif x < 0.25:
            step = rng.choice([0, 1, 2, 99, 100, 101, 999, 1000, 1001])
        elif x < 0.40:
            step = (1000 - t % 1000) + rng.choice([-1, 0, 1])
        elif x < 0.60:
            # aim at a silence on a boundary of no_early_expiry / expiry_by
            target = L + rng.choice([H * 1000, (H + 1) * 1000]) + rng.choice(off)
            step = target - t
        elif x < 0.80:
            # aim at the instant the next KEEPALIVE becomes due
            target = (A // 1000 + K) * 1000 + rng.choice(off)
            step = target - t
        elif x < 0.9:
            step = rng.choice([K * 1000, H * 1000, (H + 1) * 1000, 2 * (H + 1) * 1000]) + rng.choice(off)
        else:
            step = rng.randrange(0, max(2, (H + 2) * 1000))
        if step < 0:
            step = rng.choice([0, 1, 100])
        t += step
        # --- what the loop read
        y = rng.random()
        if style == 'silence' and i >= quiet_after:
            kind = 'nop'
        elif style == 'peer-ka':
            kind = 'keepalive' if (K and (t - L) >= K * 1000 and H) else ('nop' if y < 0.9 else 'update')
        elif style == 'burst':
            kind = rng.choice(['update', 'update', 'update', 'refresh', 'nop']) if (i // 8) % 2 == 0 else 'nop'
        else:
            if y < 0.62:
                kind = 'nop'
            elif y < 0.66:
                kind = rng.choice(['awake', 'done'])
            elif y < 0.80:
                kind = 'update'
            elif y < 0.92:
                kind = 'keepalive' if (H or rng.random() < 0.25) else 'update'
            else:
                kind = rng.choice(['refresh', 'operational', 'open', 'notification'])
        polls.append([t, kind])
        # steering only: once the session must be over, one more iteration and stop
        if over:
            break
        if kind in REAL:
            L = t
        elif H and t // 1000 - L // 1000 > H:
            over = True
        if not H and kind == 'keepalive':
            nka += 1
            over = nka >= 2
        if K and t // 1000 >= A // 1000 + K:
            A = t
    return {'H': H, 'tR': tR, 'tS': tS, 'polls': polls, 'style': style}


def session_lines(case: dict) -> list[str]:
    return [f'timer init {case["H"]} {case["tR"]} {case["tS"]}'] + [f'timer poll {t} {k}' for t, k in case['polls']]


def gen_class(rng, maxlen: int) -> list[str]:
    """Class-level script: the methods in any order, any hold time (1 and 2 included), any clock
    (steps back included), constructor arguments other than 4/0, failing writes."""
    t = pick_base(rng)
    H = rng.choice([0, 0, 1, 2, 3, 3, 4, 6, 9, 30, 90, 180, 65535, rng.randrange(0, 200)])
    lines = [f'timer init {H} {t} {t + rng.choice([0, 1, 999, 5000])}']
    kinds = SCHED + sorted(REAL)
    for _ in range(rng.randrange(1, maxlen)):
        x = rng.random()
        if x < 0.08:
            t = max(0, t - rng.choice([1, 999, 1000, 1001, 5000, H * 1000 + 1]))  # the wall clock stepped back
        else:
            t += rng.choice([0, 1, 100, 999, 1000, 1001, (H // 3) * 1000, H * 1000 - 1, H * 1000, H * 1000 + 1000, H * 1000 + 1001, rng.randrange(0, 3000)])
            t = max(t, 0)
        op = rng.random()
        k = rng.choice(kinds) if rng.random() < 0.6 else rng.choice(['nop', 'keepalive'])
        if op < 0.04:
            H = rng.choice([0, 1, 2, 3, 5, 9, 30, rng.randrange(0, 70000) % 65536])
            lines.append(f'timer rinit {H} {rng.choice([4, 4, 5, 6])} {rng.choice([0, 0, 1, 2])} {t}')
        elif op < 0.08:
            lines.append(f'timer sinit {rng.choice([H, H, 0, 1, 2, 3, 90])} {t}')
        elif op < 0.28:
            lines.append(f'timer check {t} {k}')
        elif op < 0.50:
            lines.append(f'timer recv {t} {k}')
        elif op < 0.65:
            lines.append(f'timer need {t}')
        elif op < 0.82:
            lines.append(f'timer send {t} {int(rng.random() < 0.8)}')
        elif op < 0.97:
            lines.append(f'timer poll {t} {k}')
        else:
            lines.append('timer state')
    return lines


# ---------------------------------------------------------------------------------------------
# the property oracle, on what the implementation did


def oracle(case: dict, outs: list[str], writes: list[tuple[int, bytes]], kinds: dict[str, Any]) -> tuple[str | None, int]:
    """(None, -1) if the property holds on this run of the real classes, else (what fails, index of
    the poll). `outs[i]` = result of poll i ('idle' | 'ka' | 'notify c s' | 'dead').

    What is demanded is what the property states, with delta = the largest gap between two
    iterations of this schedule as the scheduling granularity, in exact integer arithmetic:
      H > 0: a NOTIFY from the timers is 4/0 and comes at a silence >= H s ("never closed for a silence
             shorter than H"); a session still open has been silent < (H+1) s at its last poll, and
             the 4/0 comes at a silence < (H+1) s + delta (closed once silent "for more than H seconds":
             one second is allowed for the whole-second clock the property's H is expressed in);
      H >= 3: every KEEPALIVE follows the previous one (the first: the start of the loop) by no more
             than H/3 s + delta, and at every iteration of an open session the last one is no older
             than H/3 s (H/3 as a rational, not the code's floor);
      H = 0: no KEEPALIVE is written, no 4/0 is raised.
    The tighter bounds of the theorems (strictness, floor(H/3), the 2/6 on a second KEEPALIVE with
    H = 0, the minimum KEEPALIVE spacing) are checked through the model correspondence, not here."""
    from exabgp.bgp.message import KeepAlive

    H, tR, tS = case['H'], case['tR'], case['tS']
    polls = case['polls']
    delta, prev = 0, tS
    for t, _ in polls:
        delta = max(delta, t - prev)
        prev = t
    KEEPALIVE = b'\xff' * 16 + b'\x00\x13\x04'
    wr = list(writes)
    L, A, closed = tR, tS, False
    for i, ((t, kname), o) in enumerate(zip(polls, outs)):
        m = kinds[kname]
        real = not m.SCHEDULING
        if closed:
            if o != 'dead':
                return f'poll {i}: activity {o!r} after the session ended', i
            continue
        if real:
            L = t
        silence = t - L
        if o == 'ka':
            if not wr or wr[0][0] != t or wr[0][1] != KEEPALIVE:
                return f'poll {i}: reported a KEEPALIVE but the bytes written at {t} are {wr[:1]}', i
            wr.pop(0)
        if o.startswith('notify'):
            c, s = map(int, o.split()[1:])
            closed = True
            if H > 0:
                if (c, s) != (4, 0):
                    return f'poll {i}: the timers ended a session with hold time {H} with {c}/{s}', i
                if not silence >= H * 1000:
                    return f'poll {i}: closed with 4/0 after a silence of {silence} ms, hold time {H} s', i
                if tS < tR + (H + 1) * 1000 and not silence < (H + 1) * 1000 + delta:
                    return f'poll {i}: 4/0 only after {silence} ms of silence (hold time {H} s, delta {delta} ms)', i
            elif (c, s) == (4, 0):
                return f'poll {i}: hold timer fired with hold time 0', i
            continue
        # still open after this iteration
        if H > 0 and not silence < (H + 1) * 1000:
            return f'poll {i}: still open after {silence} ms of silence, hold time {H} s', i
        if H == 0 and o == 'ka':
            return f'poll {i}: periodic KEEPALIVE sent with hold time 0', i
        if H >= 3:
            if o == 'ka':
                gap = t - A
                if not 3 * gap <= H * 1000 + 3 * delta:
                    return f'poll {i}: {gap} ms between KEEPALIVEs, hold time {H} s, delta {delta} ms', i
                A = t
            if not 3 * (t - A) <= H * 1000:
                return f'poll {i}: no KEEPALIVE sent at this iteration although the last one is {t - A} ms old, hold time {H} s', i
    if wr:
        return f'{len(wr)} KEEPALIVE(s) written that no iteration reported: {wr[:2]}', len(polls) - 1
    return None, -1


# ---------------------------------------------------------------------------------------------
# running


def run_impl_session(rig, case: dict) -> tuple[list[str], list[str], list[tuple[int, bytes]]]:
    rig.conn.writes.clear()
    full = [rig.line(l) for l in session_lines(case)]
    outs = [x.split(' ; ')[0] for x in full[1:]]
    return full, outs, list(rig.conn.writes)


def same(impl: str, model: str) -> bool:
    return impl == model or (model == 'race' and impl in ('opened', 'notify 5 1'))


def canon_session(case: dict) -> dict:
    return {'H': case['H'], 'send_init': case['tS'] - case['tR'], 'phase': case['tR'] % 1000, 'events': [[t - case['tR'], k] for t, k in case['polls']]}


def shrink_session(rig, kinds, case: dict) -> dict:
    def bad(c: dict) -> bool:
        _, outs, wr = run_impl_session(rig, c)
        return oracle(c, outs, wr, kinds)[0] is not None

    _, outs, wr = run_impl_session(rig, case)
    _, idx = oracle(case, outs, wr, kinds)
    cur = dict(case, polls=case['polls'][: idx + 1])
    if not bad(cur):
        return case
    i = 0
    while i < len(cur['polls']):
        cand = dict(cur, polls=cur['polls'][:i] + cur['polls'][i + 1 :])
        if cand['polls'] and bad(cand):
            cur = cand
        else:
            i += 1
    return cur


def shrink_lines(rig, lines: list[str]) -> list[str]:
    def bad(ls: list[str]) -> bool:
        a = [rig.line(l) for l in ls]
        b = common.run_driver('drv_timer', ls)
        return any(not same(x, y) for x, y in zip(a, b))

    cur = list(lines)
    i = 1
    while i < len(cur):
        cand = cur[:i] + cur[i + 1 :]
        if bad(cand):
            cur = cand
        else:
            i += 1
    return cur


def load_corpus() -> list[dict]:
    d = common.VERIF / 'corpus' / PROP
    out = []
    if d.exists():
        for f in sorted(d.glob('*.json')):
            c = json.loads(f.read_text())
            c['name'] = f.name
            out.append(c)
    return out


def h_class(h: int) -> str:
    if h == 0:
        return 'H=0'
    if h == 3:
        return 'H=3'
    if h < 10:
        return 'H=4..9'
    if h < 100:
        return 'H=10..99'
    if h < 1000:
        return 'H=100..999'
    if h < 65533:
        return 'H=1000..65532'
    return 'H=65533..65535'


def compare_batch(ctx: Ctx, rig, batch: list[tuple[str, Any, list[str], list[str]]]) -> None:
    """batch of (stream, case, lines, impl answers): one driver process for all of them."""
    if not ctx.driver_ok or not batch:
        return
    script: list[str] = []
    for _, _, lines, _ in batch:
        script += lines
    model = common.run_driver('drv_timer', script)
    pos = 0
    for stream, case, lines, impl in batch:
        mo = model[pos : pos + len(lines)]
        pos += len(lines)
        for j, (a, b) in enumerate(zip(impl, mo)):
            if not same(a, b):
                ctx.count('disagreement')
                small = lines[: j + 1]
                if len(ctx.disagreements) < 3:
                    small = shrink_lines(rig, small)
                    a2 = [rig.line(l) for l in small]
                    b2 = common.run_driver('drv_timer', small)
                    ctx.disagreements.append(Disagreement(stream, {'lines': small}, b2[-1], a2[-1]))
                else:
                    ctx.disagreements.append(Disagreement(stream, {'lines': small[-6:]}, b, a))
                break


def run(ctx: Ctx) -> None:
    from harness import timerrig

    rng = ctx.rng
    quick = ctx.tier == 'quick'
    n_sessions = 4000 if quick else 150000
    n_class = 1500 if quick else 40000
    maxlen = 48 if quick else 120
    ctx.rule = (
        'session cases: a hold time (boundary values 0,3..12,29..31,89..91,179..181,…,65533..65535 enumerated, else random in 3..65535), '
        'ReceiveTimer/KA creation times with every millisecond phase, then 1..%d loop iterations whose clock readings are steered to the '
        'boundaries of the theorems (silence = H s and H+1 s -1001..+1001 ms, KEEPALIVE due instant +-1 ms, second boundaries, bursts at the same instant, '
        'long gaps) and whose message is NOP/AWAKE/DONE or a real message object of every type; class cases: the methods in any order, hold times 1 and 2, '
        'other constructor codes, failing writes, clock steps back. A session case is non-trivial when the real classes fired at least one timer action '
        '(KEEPALIVE written or Notify raised) and the schedule has both a real message and a NOP poll; distinct = distinct (H, times relative to creation, ms phase, kinds).'
    ) % (maxlen - 1)
    rig = timerrig.TimerRig()
    kinds = timerrig.kind_objects()
    try:
        _run(ctx, rig, kinds, rng, n_sessions, n_class, maxlen)
    finally:
        rig.close()


def check_session(ctx: Ctx, rig, kinds, case: dict, origin: str, seen_fail: set) -> tuple[list[str], list[str]]:
    full, outs, writes = run_impl_session(rig, case)
    ctx.evaluations += 1
    ctx.count('session:' + origin)
    ctx.count(h_class(case['H']))
    ctx.count('polls:%d-%d' % (len(case['polls']) // 16 * 16, len(case['polls']) // 16 * 16 + 15))
    fired = set()
    for (t, k), o in zip(case['polls'], outs):
        ctx.count('kind:' + k)
        if o != 'idle':
            ctx.count('fired:' + o)
        if o == 'ka' or o.startswith('notify'):
            fired.add(o)
        if t % 1000 in (0, 999):
            ctx.count('poll-on-second-boundary')
    ks = {k for _, k in case['polls']}
    if fired and (ks & REAL) and (ks & set(SCHED)):
        ctx.nontrivial(canon_session(case))
    if fired:
        ctx.sample({'H': case['H'], 'tR': case['tR'], 'tS': case['tS'], 'polls': case['polls'][:12], 'fired': [[t, o] for (t, _), o in zip(case['polls'], outs) if o not in ('idle', 'dead')][:8]}, cap=4)
    what, idx = oracle(case, outs, writes, kinds)
    if what:
        ctx.count('oracle-fail')
        small = shrink_session(rig, kinds, case)
        canon = canon_session(small)
        key = json.dumps(canon)
        if key not in seen_fail:
            seen_fail.add(key)
            _, o2, w2 = run_impl_session(rig, small)
            ctx.failures.append(Failure('session-script', canon, {'H': small['H'], 'tR': small['tR'], 'tS': small['tS'], 'polls': small['polls']}, oracle(small, o2, w2, kinds)[0] or what))
    return session_lines(case), full


def _run(ctx: Ctx, rig, kinds, rng, n_sessions: int, n_class: int, maxlen: int) -> None:
    from exabgp.bgp.message.open.holdtime import HoldTime

    seen_fail: set = set()
    batch: list = []

    def flush() -> None:
        compare_batch(ctx, rig, batch)
        batch.clear()

    # 0. corpus
    for c in load_corpus():
        if 'polls' in c:
            lines, impl = check_session(ctx, rig, kinds, c, 'corpus', seen_fail)
            batch.append(('session', c, lines, impl))
            if 'expect' in c:
                got = [x.split(' ; ')[0] for x in impl[1:]]
                if got != c['expect']:
                    ctx.disagreements.append(Disagreement('corpus', {'file': c['name']}, c['expect'], got))
        else:
            impl = [rig.line(l) for l in c['lines']]
            ctx.evaluations += 1
            ctx.count('class:corpus')
            batch.append(('class', c, c['lines'], impl))
            if 'expect' in c and [x.split(' ; ')[0] for x in impl] != c['expect']:
                ctx.disagreements.append(Disagreement('corpus', {'file': c['name']}, c['expect'], [x.split(' ; ')[0] for x in impl]))
    flush()

    # 1. exhaustive: HoldTime(h).keepalive() for every 16-bit hold time (float division in the code, floor in the model)
    hs = list(range(0, 65536))
    lines = [f'timer keepalive {h}' for h in hs]
    impl = [str(HoldTime(h).keepalive()) for h in hs]
    for h, v in zip(hs, impl):
        if int(v) != h // 3:
            ctx.failures.append(Failure('session-script', {'H': h, 'keepalive': int(v)}, {'H': h}, f'HoldTime({h}).keepalive() = {v}, not floor(H/3)'))
            break
    batch.append(('keepalive-interval', None, lines, impl))
    ctx.evaluations += len(hs)
    ctx.count('keepalive-interval (all 65536 hold times)', len(hs))
    ctx.extra['exhaustive_keepalive_interval'] = len(hs)
    # message kinds: TYPE byte and SCHEDULING of the real objects vs the generated table used by the model
    lines = [f'timer kind {k}' for k in sorted(kinds)]
    batch.append(('kinds', None, lines, [rig.line(l) for l in lines]))
    ctx.evaluations += len(lines)
    # OPEN wait: the real Peer._read_open under virtual time
    ow = []
    for w in [1, 2, 60, 3600] + [rng.randrange(1, 600) for _ in range(4 if ctx.tier == 'quick' else 40)]:
        for a in ['never', 0, 1, w * 1000 - 1, w * 1000, w * 1000 + 1, w * 2000, rng.randrange(0, w * 2000)]:
            ow.append(f'timer openwait {w} {a}')
    impl = []
    for l in ow:
        r = rig.line(l)
        impl.append(r)
        ctx.count('openwait:' + r)
        w, a = l.split()[2:]
        late = a == 'never' or int(a) > int(w) * 1000
        early = a != 'never' and int(a) < int(w) * 1000
        if (late and r != 'notify 5 1') or (early and r != 'opened'):
            ctx.failures.append(Failure('session-script', {'openwait': int(w), 'arrival': a, 'got': r}, {'line': l}, f'openwait {w} s, OPEN complete after {a} ms: {r}'))
    batch.append(('openwait', None, ow, impl))
    ctx.evaluations += len(ow)
    flush()

    # 2. random sessions (with the oracle) and class scripts
    done_s = done_c = 0
    while (done_s < n_sessions or done_c < n_class) and ctx.time_left() > 5:
        for _ in range(200):
            if done_s < n_sessions:
                case = gen_session(rng, maxlen)
                ctx.count('style:' + case['style'])
                lines, impl = check_session(ctx, rig, kinds, case, 'random', seen_fail)
                batch.append(('session', case, lines, impl))
                done_s += 1
        for _ in range(75):
            if done_c < n_class:
                lines = gen_class(rng, maxlen)
                impl = [rig.line(l) for l in lines]
                for l, r in zip(lines, impl):
                    ctx.count('classop:' + l.split()[1])
                    res = r.split(' ; ')[0]
                    if res.startswith('notify'):
                        ctx.count('class-' + res)
                ctx.evaluations += 1
                ctx.count('class:random')
                batch.append(('class', None, lines, impl))
                done_c += 1
        flush()
    if len(ctx.failures) > 5:
        # one defect shows up on many schedules: report the five shortest shrunk cases
        ctx.notes.append(f'{len(ctx.failures)} distinct failing cases; the 5 shortest are reported')
        ctx.failures.sort(key=lambda f: (len(json.dumps(f.canon)), json.dumps(f.canon)))
        del ctx.failures[5:]
    if done_s < n_sessions or done_c < n_class:
        ctx.notes.append(f'budget reached after {done_s} session cases and {done_c} class scripts')


def replay(path: str) -> int:
    from harness import timerrig

    data = json.loads(open(path).read())
    case = data.get('replay', data)
    rig = timerrig.TimerRig()
    try:
        if 'polls' not in case:
            for l in case.get('lines', [case.get('line')]):
                print(l, '->', rig.line(l))
            return 1
        kinds = timerrig.kind_objects()
        full, outs, writes = run_impl_session(rig, case)
        for l, o in zip(session_lines(case), full):
            print(f'{l:40s} -> {o}')
        print('KEEPALIVEs written at:', [t for t, _ in writes])
        what, _ = oracle(case, outs, writes, kinds)
        print('holds :', what is None, '' if what is None else what)
        return 0 if what is None else 1
    finally:
        rig.close()
