"""C04 — Adj-RIB-Out converges.  Correspondence of M-Rib with the real OutgoingRIB driven through
the real Peer._send_route_updates, plus the property oracle on the implementation."""

from __future__ import annotations

import json
from typing import Any

from harness import common
from harness.common import Ctx, Disagreement, Failure
from harness import ribrig

THEOREM_MODULES = ['ExaModel.Props.C04']
DRIVERS = ['drv_rib']
TABLES: list[str] = []  # no generated table is used by this property
ASSUMPTIONS = [
    'adj-rib-out is kept (cache on); routes belong to the families the RIB serves; paths_limit not in force',
    'the peer applies UPDATEs in the order sent (TCP)',
    'emission order between different NLRIs inside one snapshot is not modelled: per-NLRI subsequences are compared',
]
PROP = 'C04'
WITH_SESSION_OPS = False


def gen_ops(rng, length: int, session_ops: bool) -> list[list]:
    ops: list[list] = []
    nl = rng.sample(sorted(ribrig.NLRIS), rng.choice([1, 2, 3, 4, 8]))
    configured = [(n, rng.choice([1, 2]), 1) for n in nl[:2]] if session_ops else []
    for _ in range(length):
        x = rng.random()
        n = rng.choice(nl)
        if x < 0.30:
            ops.append(['add', n, rng.choice([1, 1, 2, 3]), rng.choice([1, 1, 2]), int(rng.random() < 0.1), int(rng.random() < 0.5)])
        elif x < 0.45:
            ops.append(['del', n, rng.choice([1, 2, 3]), 1])
        elif x < 0.48:
            ops.append(['delnlri', n])
        elif x < 0.54:
            ops.append(['resend', int(rng.random() < 0.5), rng.choice([0, 0, 1, 2])])
        elif x < 0.57:
            ops.append(['wall', rng.choice([[], [1], [2], [1, 2]])])
        elif x < 0.62:
            ops.append(['wdadd', n, rng.choice([1, 2]), 1, rng.choice([1, 2]), int(rng.random() < 0.4)])
        elif x < 0.65:
            ops.append(['wdann', rng.choice([1, 2])])
        elif x < 0.68:
            ops.append(['wdwd', rng.choice([1, 2])])
        elif session_ops and x < 0.72:
            ops.append(['lost'])
            k = rng.randrange(0, 4)
            for _ in range(k):
                m = rng.choice(nl)
                ops.append(rng.choice([['add', m, rng.choice([1, 2]), 1, 0, 1], ['del', m, 1, 1], ['resend', 0, 0]]))
            ops.append(['est', [], configured])
        elif session_ops and x < 0.78:
            ops.append(['eor'])
        else:
            ops.append(['tick'])
    return ops


def peer_table(sent: list[tuple], table: dict | None = None) -> dict:
    t = {} if table is None else table
    for ev in sent:
        if ev[0] == 'A':
            t[ev[1]] = (ev[3], ev[4])
        elif ev[0] == 'W':
            t.pop(ev[1], None)
    return t


def run_impl(ops: list[list], cache_on: bool = True, grouped: bool = True) -> dict:
    """Execute on the real code. Returns per-op outputs, cache/pending after every op, the oracle verdict."""
    rig = ribrig.RibRig(cache_on, grouped)
    outs, caches, pend = [], [], []
    table: dict = {}
    mark = 0
    try:
        for op in ops:
            o = rig.op(op)
            if op[0] == 'lost':
                table = {}
                mark = len(rig.sent)
            outs.append(o)
            caches.append(rig.op(['cache']))
            pend.append(rig.op(['pending']))
        # drain
        drain = []
        for _ in range(10000):
            o = rig.tick()
            if o == 'none':
                break
            drain.append(o)
        table = peer_table(rig.sent[mark:], table)
        cache = {n: (a, h) for n, f, a, h in rig.cache()}
        return {'outs': outs, 'caches': caches, 'pending': pend, 'drain': drain, 'sent': list(rig.sent), 'table': table, 'cache': cache, 'ok': table == cache, 'error': None}
    except Exception as e:  # an exception out of the RIB is itself a failure of the property's premise
        import traceback

        return {'outs': outs, 'caches': caches, 'pending': pend, 'drain': [], 'sent': list(rig.sent), 'table': {}, 'cache': {}, 'ok': False, 'error': f'{type(e).__name__}: {e}', 'tb': traceback.format_exc()[-1500:]}
    finally:
        rig.close()


def run_model(ops: list[list], cache_on: bool = True) -> dict:
    lines = [f'rib init {int(cache_on)} 1,2']
    idx = []
    for op in ops:
        idx.append(len(lines))
        lines.append(ribrig.model_line(op))
        lines.append('rib cache')
        lines.append('rib pending')
    base = len(lines)
    # drain: enough ticks; stop marker handled by reading until 'none'
    lines += ['rib tick'] * 64
    out = common.run_driver('drv_rib', lines)
    outs = [';'.join(sorted(out[i].split(';'))) if ops[j][0] == 'eor' else out[i] for j, i in enumerate(idx)]
    caches = [out[i + 1] for i in idx]
    pend = [out[i + 2] for i in idx]
    drain = []
    for o in out[base:]:
        if o == 'none':
            break
        drain.append(o)
    return {'outs': outs, 'caches': caches, 'pending': pend, 'drain': drain}


def category(o: str) -> str:
    return o.split(' ')[0] if o[:1] in 'AWR' else o


def per_key(outs: list[str], ops: list[list]) -> dict:
    """Per-NLRI subsequences of what was sent (and refresh markers per family), split at session losses.

    The order in which one generator emits *different* NLRIs is not modelled, so the events of a
    generator that is cut by a session loss (not run to exhaustion) are not compared: which of
    its events made it out depends on that order, and the peer's table is reset anyway."""
    seqs: dict = {}
    epoch = 0
    current: list[tuple[str, str]] = []  # events of the generator in progress

    def flush() -> None:
        for key, o in current:
            seqs.setdefault(key, []).append(o)
        current.clear()

    for op, o in zip(ops, outs):
        if op[0] == 'lost':
            current.clear()
            epoch += 1
        if op[0] != 'tick':
            continue
        if o[:3] == 'EOR':
            continue
        if o[:1] in 'AW':
            current.append((f'{epoch}/n' + o.split(' ')[1].split(':')[0], o))
        elif o[:1] == 'R':
            current.append((f'{epoch}/r' + o.split(' ')[1], o))
        elif o == 'exhausted':
            flush()
    flush()
    return seqs


def compare(ops: list[list], impl: dict, model: dict) -> str | None:
    """None if model and implementation agree on this case, else a description."""
    n = len(impl['outs'])
    for i in range(n):
        op = ops[i]
        if op[0] == 'tick':
            if category(impl['outs'][i]) != category(model['outs'][i]):
                return f'op {i} {op}: impl {impl["outs"][i]!r} model {model["outs"][i]!r}'
        elif impl['outs'][i] != model['outs'][i]:
            return f'op {i} {op}: impl {impl["outs"][i]!r} model {model["outs"][i]!r}'
        if impl['caches'][i] != model['caches'][i]:
            return f'cache after op {i} {op}: impl {impl["caches"][i]} model {model["caches"][i]}'
        if impl['pending'][i] != model['pending'][i]:
            return f'pending after op {i} {op}: impl {impl["pending"][i]} model {model["pending"][i]}'
    if impl['error']:
        return f'implementation raised {impl["error"]}'
    ti = [['tick']] * len(impl['drain'])
    a = per_key(impl['outs'] + impl['drain'], ops + ti)
    b = per_key(model['outs'] + model['drain'], ops + [['tick']] * len(model['drain']))
    if a != b:
        for k in sorted(set(a) | set(b)):
            if a.get(k) != b.get(k):
                return f'sent for {k}: impl {a.get(k)} model {b.get(k)}'
    if [category(x) for x in impl['drain']] != [category(x) for x in model['drain']]:
        return f'drain shape: impl {impl["drain"]} model {model["drain"]}'
    return None


def canon_ops(ops: list[list]) -> list:
    """Rename nlri / attr / nh / watchdog ids by first appearance (known-findings matching)."""
    maps: dict[str, dict] = {'n': {}, 'a': {}, 'h': {}, 'w': {}}

    def r(kind: str, v: int) -> int:
        m = maps[kind]
        if v not in m:
            m[v] = len(m) + 1
        return m[v]

    out = []
    for op in ops:
        k = op[0]
        if k == 'add':
            out.append(['add', r('n', op[1]), r('a', op[2]), r('h', op[3]), int(op[4])])
        elif k == 'del':
            out.append(['del', r('n', op[1])])
        elif k == 'delnlri':
            out.append(['del', r('n', op[1])])
        elif k == 'wdadd':
            out.append(['wdadd', r('n', op[1]), r('a', op[2]), r('h', op[3]), r('w', op[4]), int(op[5])])
        elif k in ('wdann', 'wdwd'):
            out.append([k, r('w', op[1])])
        elif k in ('est', 'reload'):
            out.append([k, [[r('n', x[0]), r('a', x[1]), r('h', x[2])] for x in op[1]], [[r('n', x[0]), r('a', x[1]), r('h', x[2])] for x in op[2]]])
        else:
            out.append(list(op))
    return out


def shrink(ops: list[list], bad) -> list[list]:
    """Delta debugging on the op list against predicate `bad` (True = still failing)."""
    cur = list(ops)
    n = 2
    while len(cur) >= 2:
        chunk = max(1, len(cur) // n)
        reduced = False
        for i in range(0, len(cur), chunk):
            cand = cur[:i] + cur[i + chunk :]
            if cand and bad(cand):
                cur = cand
                n = max(n - 1, 2)
                reduced = True
                break
        if not reduced:
            if chunk == 1:
                break
            n = min(n * 2, len(cur))
    # normalise flags that do not matter
    for i, op in enumerate(cur):
        if op[0] == 'add':
            for fld, v in ((5, 0), (4, 0)):
                cand = [list(o) for o in cur]
                if cand[i][fld] != v:
                    cand[i][fld] = v
                    if bad(cand):
                        cur = cand
    return cur


def oracle_fails(ops: list[list], cache_on: bool = True, grouped: bool = True) -> bool:
    return not run_impl(ops, cache_on, grouped)['ok']


def load_corpus(prop: str) -> list[list[list]]:
    d = common.VERIF / 'corpus' / prop
    cases = []
    if d.exists():
        for f in sorted(d.glob('*.json')):
            cases.append(json.loads(f.read_text())['ops'])
    return cases


def run(ctx: Ctx, session_ops: bool = False, prop: str = 'C04') -> None:
    rng = ctx.rng
    ncases = 400 if ctx.tier == 'quick' else 20000
    maxlen = 40 if ctx.tier == 'quick' else 160
    ctx.rule = (
        'random op sequences over a universe of 8 NLRIs (5 IPv4 unicast grouped, 3 IPv6 unicast ungrouped) x 3 attribute sets x 2 next hops x 2 watchdogs, '
        'with generator steps (tick) interleaved; a case is non-trivial when at least one announce reached the wire and at least two different kinds of RIB operation occurred; '
        'distinct = distinct canonical op list (ids renamed by first appearance)'
    )
    cases = [(c, 'corpus', True) for c in load_corpus(prop)]
    cases += [(c, 'corpus', False) for c in load_corpus(prop)]
    for i in range(ncases):
        # one case in four runs with `group-updates false` (one UPDATE per NLRI for every family)
        cases.append((gen_ops(rng, rng.randrange(2, maxlen), session_ops), 'random', rng.random() >= 0.25))
    seen_fail: set = set()
    for ops, origin, grouped in cases:
        if ctx.time_left() < 0:
            ctx.notes.append(f'budget reached after {ctx.evaluations} cases')
            break
        impl = run_impl(ops, True, grouped)
        ctx.evaluations += 1
        ctx.count('group-updates:' + ('true' if grouped else 'false'))
        for op in ops:
            ctx.count('op:' + op[0])
        ctx.count('len:%d-%d' % (len(ops) // 10 * 10, len(ops) // 10 * 10 + 9))
        kinds = {op[0] for op in ops if op[0] != 'tick'}
        if any(ev[0] == 'A' for ev in impl['sent']) and len(kinds) >= 2:
            ctx.nontrivial(canon_ops(ops))
        ctx.sample({'ops': ops, 'sent': [ribrig.show_ev(e) for e in impl['sent']], 'cache': impl['caches'][-1] if impl['caches'] else '-'}, cap=3)
        if ctx.driver_ok:
            model = run_model(ops)
            diff = compare(ops, impl, model)
            if diff:
                ctx.count('disagreement')
                small = shrink(ops, lambda c: compare(c, run_impl(c, True, grouped), run_model(c)) is not None) if len(ctx.disagreements) < 3 else ops
                ctx.disagreements.append(Disagreement('rib', {'ops': small, 'grouped': grouped}, None, compare(small, run_impl(small, True, grouped), run_model(small)) or diff))
        if not impl['ok']:
            ctx.count('oracle-fail')
            small = shrink(ops, lambda c: oracle_fails(c, True, grouped)) if len(seen_fail) < 40 else ops
            canon = canon_ops(small)
            key = json.dumps(canon)
            if key in seen_fail:
                continue
            seen_fail.add(key)
            res = run_impl(small, True, grouped)
            what = res['error'] or f'after drain the peer table {res["table"]} differs from the reported Adj-RIB-Out {res["cache"]}'
            ctx.failures.append(Failure('rib-history', canon, {'ops': small, 'cache_on': True, 'grouped': grouped}, what))


def replay(path: str) -> int:
    data = json.loads(open(path).read())
    ops = data['replay']['ops']
    res = run_impl(ops, data['replay'].get('cache_on', True), data['replay'].get('grouped', True))
    print('ops   :', ops)
    print('sent  :', [ribrig.show_ev(e) for e in res['sent']])
    print('peer  :', res['table'])
    print('cache :', res['cache'])
    print('error :', res['error'])
    print('holds :', res['ok'])
    return 0 if res['ok'] else 1
