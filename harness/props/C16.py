"""C16 — FlowSpec rules mean on the wire what they say in text.

Encode direction: abstract text rules -> API text -> the real `API.api_flow` parse -> the real
`Flow.pack_nlri` bytes, compared with the Lean model of ExaBGP's encoder (`flow exaenc`) and judged by
the property oracle: the Lean RFC reference decoder (`flow dec`) applied to the emitted bytes must give
back the rule as written, in the address family written; a text that denotes no RFC 8955/8956 rule must
be refused.  Traffic actions: the route's extended communities vs `flow act`, read back with `flow decact`.

Decode direction: reference-encoded, widened, mutated and truncated NLRIs through the real
`Flow.unpack_nlri`, compared with the Lean model of ExaBGP's decoder (`flow exadec`) and judged by the
oracle: what the reference decoder accepts must be delivered as the same rule; what it rejects as
truncated or undefined must not be delivered as a rule at all.
"""

from __future__ import annotations

import json
import struct
from typing import Any

from harness import common
from harness.common import Ctx, Disagreement, Failure
from harness import flowrig as rig

THEOREM_MODULES = ['ExaModel.Props.C16']
DRIVERS = ['drv_flow']
TABLES = ['flow']
ASSUMPTIONS = [
    'the text tokenizer and keyword dispatch are glue: covered by the correspondence runs, not by the theorems',
    'route distinguisher and extended-community framing inside the UPDATE (MP_REACH, attribute header) belong to C01/C15; here the NLRI bytes of Flow.pack_nlri and the 8-byte communities are compared',
    'IPv4 prefix padding bits are irrelevant (RFC 4271) and IPv6 padding is ignored on decoding (RFC 8956): prefixes are compared as bit patterns',
    'rate-limit values are compared as IEEE binary32 bit patterns (f32OfNat in Lean vs struct.pack in the code)',
]
PROP = 'C16'
DRV = 'drv_flow'

MAXW = {3: 1, 4: 2, 5: 2, 6: 2, 7: 1, 8: 1, 9: 2, 10: 2, 11: 1, 12: 1, 13: 4}  # RFC widths (Lean maxWidth); cross-checked with `flow enc` wf flag
CLASSNAME = {}
for _kw, (_id, _kind, _cls, _sizes, _afi) in rig.KEYWORDS.items():
    if _kind:
        CLASSNAME[_kw] = _cls

# ---------------------------------------------------------------------------------------------
# text rendering


def render_value(rng, kw: str, kind: int, v: int) -> str:
    if v < 0:
        return str(v)
    names = rig.NAMES.get(kw if kw not in ('next-header',) else 'protocol')
    x = rng.random()
    if names and x < 0.35:
        if kind == 2:
            bits = sorted(set(names.values()))
            parts = []
            left = v
            for b in bits:
                if b and left & b == b and bin(b).count('1') == 1:
                    parts.append(b)
                    left -= b
            if left == 0 and parts:
                rev = {}
                for n, b in sorted(names.items()):
                    rev.setdefault(b, n)
                return '+'.join(rev[b] for b in parts)
        else:
            cands = sorted(n for n, b in names.items() if b == v)
            if cands:
                return rng.choice(cands)
    if x > 0.9 and kw not in ('packet-length', 'dscp', 'traffic-class', 'flow-label'):
        return hex(v)  # Resource._value reads 0x.. ; the int()-based converters do not
    return str(v)


def render_ops(rng, kw: str, kind: int, terms: list[tuple[int, int]]) -> str:
    """terms: (flags, value) in ExaBGP numbering; first term has no AND."""
    toks: list[str] = []
    for i, (fl, v) in enumerate(terms):
        op = (rig.NUM_OPS if kind == 1 else rig.BIN_OPS)[fl & (7 if kind == 1 else 3)]
        if kind == 1 and op == '=' and rng.random() < 0.3:
            op = ''
        s = op + render_value(rng, kw, kind, v)
        if fl & 0x40 and toks:
            toks[-1] += '&' + s
        else:
            toks.append(s)
    if len(toks) == 1 and rng.random() < 0.5:
        return f'{kw} {toks[0]};'
    return f'{kw} [ {" ".join(toks)} ];'


def render_prefix(rng, c: tuple) -> str:
    ty = c[1]
    base = 'destination' if ty == 1 else 'source'
    if c[0] == 't4':
        kw = rng.choice([base, base + '-ipv4'])
        return f'{kw} {rig.ip4(c[2])}/{c[3]};'
    kw = rng.choice([base, base + '-ipv6'])
    if c[4] == 0 and rng.random() < 0.5:
        return f'{kw} {rig.ip6(c[2])}/{c[3]};'
    return f'{kw} {rig.ip6(c[2])}/{c[3]}/{c[4]};'


RD_KINDS = ['as2', 'ip', 'as4']


def gen_rd(rng) -> tuple[str, str]:
    k = rng.choice(RD_KINDS)
    if k == 'as2':
        a, n = rng.choice([0, 1, 65000, 65535]), rng.choice([0, 1, 65536, 4294967295])
        return f'{a}:{n}', (b'\x00\x00' + struct.pack('!HL', a, n)).hex()
    if k == 'ip':
        ip, n = rng.getrandbits(32), rng.choice([0, 5, 65535])
        return f'{rig.ip4(ip)}:{n}', (b'\x00\x01' + struct.pack('!LH', ip, n)).hex()
    a, n = rng.choice([65536, 70000, 4294967295]), rng.choice([0, 5, 65535])
    return f'{a}:{n}', (b'\x00\x02' + struct.pack('!LH', a, n)).hex()


def render_case(rng, case: dict) -> str:
    """Text of the case: components in the order of case['tcomps'], consecutive operations of the same
    (keyword) grouped into one statement."""
    parts = []
    if case.get('rd_text'):
        parts.append(f'rd {case["rd_text"]};')
    stmts = []
    i = 0
    t = case['tcomps']
    kws = case['kws']
    while i < len(t):
        c = t[i]
        if c[0] != 'o':
            stmts.append(render_prefix(rng, c))
            i += 1
            continue
        j = i
        terms = []
        while j < len(t) and t[j][0] == 'o' and t[j][1] == c[1] and kws[j] == kws[i] and (j == i or not case['breaks'][j]):
            terms.append((t[j][2], t[j][3]))
            j += 1
        stmts.append(render_ops(rng, kws[i], rig.KIND[c[1]], terms))
        i = j
    then = ' '.join(a[0] + ';' for a in case.get('actions', [])) or 'accept;'
    return ' '.join(parts) + f' match {{ {" ".join(stmts)} }} then {{ {then} }}'


# ---------------------------------------------------------------------------------------------
# generators (encode direction)

PARSER_MAX = {  # what the converters accept (read from configuration/flow: Resource 0..0xFFFF, packet_length, dscp_value, class_value, label_value)
    'protocol': 0xFFFF, 'next-header': 0xFFFF, 'port': 0xFFFF, 'destination-port': 0xFFFF, 'source-port': 0xFFFF,
    'icmp-type': 0xFFFF, 'icmp-code': 0xFFFF, 'tcp-flags': 0xFFFF, 'packet-length': 0xFFFF, 'dscp': 0x3F,
    'traffic-class': 0xFFFF, 'fragment': 0xFFFF, 'flow-label': 0xFFFFF,
}  # fmt: skip


def good_value(rng, kw: str, cid: int) -> int:
    top = min(PARSER_MAX[kw], 256 ** MAXW[cid] - 1)
    pool = [0, 1, 2, 6, 17, 63, 80, 127, 128, 254, 255, 256, 257, 1023, 1024, 65534, 65535, 65536, 1048575]
    pool = [p for p in pool if p <= top]
    if rng.random() < 0.5:
        return rng.choice(pool)
    return rng.randrange(0, top + 1)


def gen_terms(rng, kw: str, cid: int, n: int) -> list[tuple[int, int]]:
    kind = rig.KIND[cid]
    out = []
    for i in range(n):
        fl = rng.choice([1, 1, 1, 2, 3, 4, 5, 6]) if kind == 1 else rng.choice([0, 0, 1, 2, 3])
        if kind == 1 and rng.random() < 0.03:
            fl = rng.choice([0, 7])
        if i and rng.random() < 0.4:
            fl |= 0x40
        out.append((fl, good_value(rng, kw, cid)))
    return out


def gen_prefix(rng, v6: int, ty: int, offset: bool = False) -> tuple:
    if v6:
        ln = rng.choice([0, 1, 7, 8, 9, 32, 48, 63, 64, 65, 104, 127, 128, rng.randrange(0, 129)])
        addr = rng.getrandbits(128)
        addr = (addr >> (128 - ln)) << (128 - ln) if ln else 0
        off = 0
        if offset and ln > 0:
            off = rng.choice([1, ln - 1, rng.randrange(0, ln), 8, 64])
            if off >= ln:
                off = ln - 1
        return ('t6', ty, addr, ln, off)
    ln = rng.choice([0, 1, 7, 8, 9, 12, 16, 24, 31, 32, rng.randrange(0, 33)])
    addr = rng.getrandbits(32)
    addr = (addr >> (32 - ln)) << (32 - ln) if ln else 0
    return ('t4', ty, addr, ln)


def new_case(v6: int, stream: str) -> dict:
    return {'v6': v6, 'stream': stream, 'tcomps': [], 'kws': [], 'breaks': [], 'rd_text': None, 'rd': None, 'actions': []}


def add_ops(case: dict, kw: str, cid: int, terms: list[tuple[int, int]], brk: bool = True) -> None:
    for i, (fl, v) in enumerate(terms):
        case['tcomps'].append(('o', cid, fl, v))
        case['kws'].append(kw)
        case['breaks'].append(brk and i == 0)


def add_prefix(case: dict, c: tuple) -> None:
    case['tcomps'].append(c)
    case['kws'].append(None)
    case['breaks'].append(True)


def gen_good(rng, stream: str = 'good', v6: int | None = None, offset: bool = False, nterms=(1, 4), all13: bool = False) -> dict:
    v6 = rng.randrange(2) if v6 is None else v6
    case = new_case(v6, stream)
    afi = 2 if v6 else 1
    # an IPv6 rule needs an IPv6 prefix for ExaBGP to learn the family: always give one (family inference is its own stream)
    have = [1, 2] if all13 else [t for t in (1, 2) if rng.random() < 0.6]
    if v6 and not have:
        have = [rng.choice([1, 2])]
    items: list[tuple] = [('p', t) for t in have]
    for cid in range(3, 14 if v6 else 13):
        if all13 or rng.random() < 0.3:
            items.append(('o', cid))
    rng.shuffle(items)
    for it in items:
        if it[0] == 'p':
            add_prefix(case, gen_prefix(rng, v6, it[1], offset))
        else:
            cid = it[1]
            kw = rng.choice(rig.KEYWORD_OF[(cid, afi)])
            n = rng.randrange(nterms[0], nterms[1] + 1)
            add_ops(case, kw, cid, gen_terms(rng, kw, cid, n))
    if rng.random() < 0.25:
        case['rd_text'], case['rd'] = gen_rd(rng)
    if rng.random() < 0.15 and len(case['tcomps']) > 1:
        # repeat one operator keyword later in the text: the lists merge
        ops = [i for i, c in enumerate(case['tcomps']) if c[0] == 'o']
        if ops:
            i = rng.choice(ops)
            c = case['tcomps'][i]
            add_ops(case, case['kws'][i], c[1], gen_terms(rng, case['kws'][i], c[1], rng.randrange(1, 3)))
    return case


def gen_length(rng, target: int) -> dict:
    """A rule whose payload is exactly `target` bytes (lengths around 240, 256 and 4095)."""
    v6 = rng.randrange(2)
    case = new_case(v6, f'length-{target}')
    afi = 2 if v6 else 1
    vpn = rng.random() < 0.3
    size = 0
    if vpn:
        case['rd_text'], case['rd'] = gen_rd(rng)
        size += 8
    if v6 or rng.random() < 0.5:
        c = gen_prefix(rng, v6, rng.choice([1, 2]))
        add_prefix(case, c)
        size += (3 if v6 else 2) + (c[3] + 7) // 8
    # fill with port-like components: 1 type byte + terms of 2 bytes (value < 256) or 3 bytes
    cids = [4, 5, 6, 10]
    rng.shuffle(cids)
    remaining = target - size
    plan = []
    for k, cid in enumerate(cids):
        if remaining <= 0:
            break
        share = remaining if k == len(cids) - 1 else rng.randrange(0, remaining + 1)
        if share < 3:
            if k == len(cids) - 1 and remaining >= 3:
                share = remaining
            else:
                continue
        plan.append([cid, share])
        remaining -= share
    if plan:
        plan[-1][1] += remaining
        remaining = 0
    for cid, share in plan:
        body = share - 1
        if body < 2:
            return gen_length(rng, target)
        # body = 2a + 3b with a + b >= 1
        b = rng.randrange(0, body // 3 + 1)
        while (body - 3 * b) % 2:
            b -= 1
            if b < 0:
                break
        if b < 0:
            return gen_length(rng, target)
        a = (body - 3 * b) // 2
        vals = [rng.randrange(0, 256) for _ in range(a)] + [rng.randrange(256, 65536) for _ in range(b)]
        rng.shuffle(vals)
        kw = rng.choice(rig.KEYWORD_OF[(cid, afi)])
        terms = [((rng.choice([1, 2, 3, 4, 5, 6]) | (0x40 if i and rng.random() < 0.3 else 0)), v) for i, v in enumerate(vals)]
        add_ops(case, kw, cid, terms)
    return case


BOUNDARY = []  # (name, builder) — enumerated, deterministic probes of every field boundary


def _b(name):
    def deco(fn):
        BOUNDARY.append((name, fn))
        return fn

    return deco


def boundary_cases() -> list[dict]:
    """Enumerated (not sampled) boundary probes: per keyword max wire value, max+1, parser max, negative;
    prefix lengths 32/33, 128/129; offsets 0, len-1, len, 255, 256; family mixes; repeated prefixes."""
    out = []
    for kw, (cid, kind, cls, sizes, afi) in sorted(rig.KEYWORDS.items()):
        if not kind:
            continue
        wire = 256 ** MAXW[cid] - 1
        for v in sorted({0, wire, wire + 1, PARSER_MAX[kw], PARSER_MAX[kw] + 1, 255, 256, -1}):
            for v6 in (0, 1):
                if (afi or 1) != (2 if v6 else 1):
                    continue  # a keyword valid in both families is probed in IPv4 only: the value check is the same code
                c = new_case(v6, f'boundary:{kw}')
                add_prefix(c, ('t6', 1, 0x20010DB8 << 96, 32, 0) if v6 else ('t4', 1, 0x0A000000, 8))
                add_ops(c, kw, cid, [(1, v)])
                out.append(c)
    for ln in (0, 1, 31, 32, 33, 255, 256):
        c = new_case(0, 'boundary:prefix4')
        add_prefix(c, ('t4', 2, 0x0A000000 if ln >= 8 else 0, ln))
        out.append(c)
    for ln in (0, 1, 127, 128, 129, 255):
        c = new_case(1, 'boundary:prefix6')
        add_prefix(c, ('t6', 2, (0x20010DB8 << 96) if ln >= 32 else 0, ln, 0))
        out.append(c)
    for ln, off in ((64, 0), (64, 1), (64, 32), (64, 63), (64, 64), (64, 65), (32, 33), (128, 127), (104, 64), (0, 0), (0, 1), (64, 255), (64, 256)):
        c = new_case(1, 'boundary:offset')
        add_prefix(c, ('t6', 1, 0x20010DB8_00001234_5678_9A00 << 32 if ln >= 96 else (0x20010DB8 << 96), ln, off))
        out.append(c)
    # family mixes
    c = new_case(0, 'afi-mix')
    add_prefix(c, ('t4', 2, 0x0A000000, 8))
    add_prefix(c, ('t6', 1, 0x20010DB8 << 96, 32, 0))
    out.append(c)
    c = new_case(1, 'afi-mix')
    add_prefix(c, ('t6', 2, 0x20010DB8 << 96, 32, 0))
    add_prefix(c, ('t4', 1, 0x0A000000, 8))
    out.append(c)
    c = new_case(1, 'afi-mix')  # both under the same keyword
    add_prefix(c, ('t4', 2, 0x0A000000, 8))
    add_prefix(c, ('t6', 2, 0x20010DB8 << 96, 32, 0))
    out.append(c)
    for kw, (cid, kind, cls, sizes, afi) in sorted(rig.KEYWORDS.items()):
        if kind and afi is not None:
            # a family-specific keyword alone (no prefix), with a prefix of its family, with a prefix of the other family
            for pfx in (None, 'same', 'other'):
                v6 = 1 if afi == 2 else 0
                c = new_case(v6, 'afi-keyword')
                if pfx:
                    p6 = (v6 == 1) == (pfx == 'same')
                    add_prefix(c, ('t6', 1, 0x20010DB8 << 96, 32, 0) if p6 else ('t4', 1, 0x0A000000, 8))
                    if pfx == 'other':
                        c['v6'] = 1 - v6  # the prefix says the other family: whatever is meant, the text is contradictory
                        c['contradictory'] = True
                add_ops(c, kw, cid, [(1, 5)])
                out.append(c)
    # repeated prefixes
    for v6 in (0, 1):
        c = new_case(v6, 'repeat-prefix')
        for k in (0, 1):
            add_prefix(c, ('t6', 2, (0x20010DB8 + k) << 96, 32, 0) if v6 else ('t4', 2, (10 + k) << 24, 8))
        out.append(c)
    # deterministic lengths around the 240 switch, 256 and the 4095 limit: one `port` component
    for n in (239, 240, 241, 255, 256, 257, 4094, 4095, 4096):
        c = new_case(0, f'length-{n}')
        body = n - 1
        three = body % 2
        terms = [(1, 1000)] * three + [(1, 80)] * ((body - 3 * three) // 2)
        add_ops(c, 'port', 4, terms)
        out.append(c)
    # bit names summed
    c = new_case(0, 'bit-sum')
    add_ops(c, 'tcp-flags', 9, [(0, 2)])
    c['text_override'] = 'match { tcp-flags syn+syn; } then { discard; }'
    out.append(c)
    return out


# ---------------------------------------------------------------------------------------------
# actions


def gen_actions(rng) -> list[tuple[str, str]]:
    """[(text, driver token)]"""
    pool = []
    n = rng.choice([0, 9599, 9600, 16777216, 16777217, 16777219, 33554434, 1000000000000, 1000000000001, rng.randrange(0, 2**40)])
    pool.append(('discard', 'discard'))
    pool.append((f'rate-limit {n}', f'rate:{n}'))
    pool.append((f'rate-limit {n} bytes', f'rate:{n}'))
    m = rng.choice([0, 1, 1000, 16777217, rng.randrange(0, 2**33)])
    pool.append((f'rate-limit {m} packets', f'ratep:{m}'))
    a, nn = rng.choice([(0, 0), (65000, 12), (65535, 4294967295), (65535, 4294967296), (65536, 65535), (65536, 65536), (70000, 12), (4294967295, 1), (4294967296, 1)])
    pool.append((f'redirect {a}:{nn}', f'redir:{a}:{nn}'))
    d = rng.choice([0, 1, 63, 64, rng.randrange(0, 64)])
    pool.append((f'mark {d}', f'mark:{d}'))
    s, t = rng.choice([(1, 0), (0, 1), (1, 1)])
    pool.append(('action ' + '-'.join(x for x, on in (('sample', s), ('terminal', t)) if on), f'action:{s}:{t}'))
    pool.append(('redirect-to-nexthop', 'rnh'))
    ip = rng.getrandbits(32)
    pool.append((f'redirect {rig.ip4(ip)}', f'rip:{ip}'))
    pool.append((f'copy {rig.ip4(ip)}', f'copy:{ip}'))
    pool.append((f'redirect-to-nexthop-ietf {rig.ip4(ip)}', f'rietf:{ip}'))
    k = rng.choice([0, 1, 1, 2, 3])
    return rng.sample(pool, k)


# ---------------------------------------------------------------------------------------------
# running a batch of encode cases


def tcomp_words(case: dict) -> str:
    return ' '.join(rig.show_tcomp(c) for c in case['tcomps'])


def rule_words(rule: list[tuple]) -> str:
    return ' '.join(rig.show_comp(c) for c in rule)


ERRMAP = {'ValueError': 'value-error', 'error': 'struct-error', 'Notify': 'notify'}

_drv: common.Driver | None = None


def drive(lines: list[str]) -> list[str]:
    """Small scripts go through one persistent driver process, large ones through a fresh batch run."""
    global _drv
    if len(lines) > 40:
        return common.run_driver(DRV, lines)
    if _drv is None:
        _drv = common.Driver(DRV)
    return [_drv.ask(line) for line in lines]


def run_encode_batch(cases: list[dict], rng) -> list[dict]:
    """impl + model + reference for every case; returns one result dict per case."""
    res = []
    lines = []
    for case in cases:
        text = case.get('text_override') or render_case(rng, case)
        case['text'] = text
        p = rig.parse(text)
        r: dict = {'parse': p['status'], 'error': p.get('error')}
        if p['status'] == 'ok':
            r['pack'] = rig.pack(p['route'])
            try:
                r['comms'] = rig.communities(p['route'])
            except Exception as e:
                r['comms'] = None
                r['comms_error'] = f'{type(e).__name__}: {e}'[:120]
        rule = rig.to_rule(case['tcomps'])
        r['rule'] = rule
        vpn = int(case['rd'] is not None)
        rd = case['rd'] or '-'
        r['i_exa'] = len(lines)
        hint6 = int(any(kw and rig.KEYWORDS[kw][4] == 2 for kw in case['kws']))  # an IPv6-only keyword is present
        lines.append(f'flow exaenc {hint6} {rd} {tcomp_words(case)}'.rstrip())
        r['i_enc'] = len(lines)
        lines.append(f'flow enc {case["v6"]} {vpn} {rd} {rule_words(rule)}'.rstrip())
        r['i_tor'] = len(lines)
        lines.append(f'flow torule {case["v6"]} {tcomp_words(case)}'.rstrip())
        if r.get('pack', {}).get('status') == 'ok':
            r['i_dec'] = len(lines)
            lines.append(f'flow dec {r["pack"]["v6"]} {r["pack"]["vpn"]} {r["pack"]["hex"]}')
        if case['actions']:
            r['i_act'] = len(lines)
            lines.append('flow act ' + ' '.join(a[1] for a in case['actions']))
        res.append(r)
    out = drive(lines)
    # second round: read the implementation's communities back with the reference reader
    lines2 = []
    for r in res:
        for k in ('exa', 'enc', 'tor', 'dec', 'act'):
            if 'i_' + k in r:
                r[k] = out[r['i_' + k]]
        if r.get('comms'):
            r['i_decact'] = len(lines2)
            lines2 += [f'flow decact {c}' for c in r['comms']]
    out2 = drive(lines2)
    for r in res:
        if 'i_decact' in r:
            r['decact'] = out2[r['i_decact'] : r['i_decact'] + len(r['comms'])]
    return res


def value_class(cid: int, v: int) -> str:
    if v < 0:
        return 'negative'
    if v >= 256 ** MAXW[cid]:
        return f'above-{256 ** MAXW[cid] - 1}'
    return 'ok'


def describe_tcomp(case: dict, i: int) -> str:
    c = case['tcomps'][i]
    if c[0] == 'o':
        return f'{CLASSNAME[case["kws"][i]]}:{value_class(c[1], c[3])}'
    if c[0] == 't4':
        return f'prefix-ipv4:len-{"ok" if c[3] <= 32 else "above-32"}'
    ln, off = c[3], c[4]
    oc = 'zero' if off == 0 else 'above-255' if off > 255 else 'below-len' if off < ln else 'not-below-len'
    return f'prefix-ipv6:len-{"ok" if ln <= 128 else "above-128"}:offset-{oc}'


def canon_encode(cls: str, case: dict, extra: dict | None = None) -> dict:
    d = {'class': cls, 'family': 'ipv6' if case['v6'] else 'ipv4', 'vpn': case['rd'] is not None, 'components': sorted(describe_tcomp(case, i) for i in range(len(case['tcomps'])))}
    if case.get('contradictory'):
        d['family'] = 'contradictory'
    elif cls == 'accepted-then-pack-raises' and all(c[0] == 'o' for c in case['tcomps']) and not case['v6']:
        d.pop('family')  # the value check does not depend on the family (IPv6 canons keep the prefix that makes the rule IPv6)
    if extra:
        d.update(extra)
    return d


EXPECT_ACCEPT = ('good', 'offset', 'all13', 'long-lists', 'noncanonical-prefix')


def payload_len(r: dict) -> int:
    n = len(r['enc'].split(' ')[1]) // 2 if r['enc'].startswith('ok ') and r['enc'].split(' ')[1] != '-' else 0
    return n - (1 if n < 241 else 2)


def judge_encode(case: dict, r: dict) -> tuple[str | None, str | None, str]:
    """(disagreement model-vs-code or None, oracle failure class or None, explanation)."""
    dis = None
    t = case['tcomps']
    # correspondence: Lean toRule vs harness to_rule (on texts where both are defined the same way)
    comparable = (
        not any(c[0] == 'o' and c[3] < 0 for c in t)
        and not any(c[0] != 'o' and (c[3] > (128 if c[0] == 't6' else 32) or (c[0] == 't6' and c[4] > c[3])) for c in t)
        and all(len([c for c in t if c[1] == ty and c[0] != 'o']) <= 1 for ty in (1, 2))
    )
    want_rule = 'ok ' + (rule_words(r['rule']) or '-')
    if comparable and r['tor'] != want_rule:
        dis = f'toRule: lean {r["tor"][:200]} harness {want_rule[:200]}'
    wf = r['enc'].endswith('wf=1')
    ref_hex = r['enc'].split(' ')[1] if r['enc'].startswith('ok ') else None
    if r['parse'] == 'exc':
        return dis, 'parser-exception', f'exception escaped the parser: {r["error"]}'
    if case['actions'] and r.get('act') == 'refuse':
        # the then-clause is not expressible (mark 64, redirect 65536:65536 ...): acceptance of text is glue (C18)
        if r['parse'] == 'ok':
            dis = dis or f'actions: model refuses {[a[0] for a in case["actions"]]}, the parser accepts'
        return dis, None, 'refused-action'
    if r['parse'] == 'ok':
        pk = r['pack']
        # correspondence with the model of ExaBGP's encoder
        if pk['status'] == 'ok':
            want = f'ok {pk["v6"]} {pk["hex"]}'
            if r['exa'] != want and case['stream'] != 'bit-sum':  # bit-sum probes the value converter, which is glue
                dis = dis or f'exaPack: model {r["exa"][:200]} impl {want[:200]}'
        else:
            kind = ERRMAP.get(pk['error'], pk['error'])
            m = r['exa']
            ok = (m == f'raise {kind}') or (kind == 'notify' and m in ('raise notify-mask', 'raise too-long'))
            if not ok:
                dis = dis or f'exaPack: model {m[:200]} impl raise {pk["error"]} {pk.get("msg")}'
    only_too_long = case['stream'].startswith('length') and payload_len(r) > 4095
    if not wf and only_too_long:
        # a rule that no NLRI can hold: refusing it at parse or at pack time is all C16 asks (when is C18's question)
        if r['parse'] == 'ok' and r['pack']['status'] == 'ok':
            return dis, 'oversize-sent', f'{payload_len(r)} byte rule sent as {r["pack"]["hex"][:40]}'
        return dis, None, 'oversize-refused'
    if not wf:
        # the text denotes no RFC rule: it has to be refused
        if r['parse'] == 'refused':
            return dis, None, 'refused'
        pk = r['pack']
        if pk['status'] == 'raise':
            return dis, 'accepted-then-pack-raises', f'accepted at parse time, pack_nlri raises {pk["error"]}: {pk.get("msg")}'
        return dis, 'accepted-not-an-rfc-rule', f'text denotes no RFC 8955/8956 rule but was accepted and sent as {pk["hex"][:80]}'
    # well-formed rule
    if r['parse'] == 'refused':
        if case['stream'] in EXPECT_ACCEPT or case['stream'].startswith('length'):
            dis = dis or f'text-accept: well-formed rule of stream {case["stream"]} refused: {r["error"]}'
        return dis, None, 'wellformed-refused'
    pk = r['pack']
    if pk['status'] == 'raise':
        return dis, 'wellformed-pack-raises', f'well-formed rule accepted, pack_nlri raises {pk["error"]}: {pk.get("msg")}'
    vpn = int(case['rd'] is not None)
    want_dec = f'ok {case["rd"] or "-"} - {rule_words(r["rule"]) or "-"}'
    if pk['v6'] != case['v6']:
        return dis, 'wrong-family', f'rule written for {"ipv6" if case["v6"] else "ipv4"} sent in the {"ipv6" if pk["v6"] else "ipv4"} flow family: {pk["hex"][:80]}'
    if pk['vpn'] != vpn:
        return dis, 'wrong-safi', f'vpn={vpn} but sent with safi vpn={pk["vpn"]}'
    if r['dec'] != want_dec:
        return dis, 'wrong-meaning', f'reference decoder reads the emitted bytes {pk["hex"][:80]} as [{r["dec"][:160]}], the text says [{want_dec[:160]}]'
    if ref_hex != pk['hex']:
        # same meaning, different bytes: only padding bits may differ — not required by the property
        return dis, None, 'ok-padding'
    return dis, None, 'ok'


def judge_actions(case: dict, r: dict) -> tuple[str | None, str | None, str]:
    if not case['actions'] or r['parse'] != 'ok' or r.get('act') == 'refuse':
        return None, None, ''
    if r.get('comms') is None:
        return None, 'action-pack-raises', r.get('comms_error', '')
    act = r['act']
    want = sorted(act.split(' ')[1].split(',')) if act != 'ok -' else []
    got = sorted(r['comms'])
    dis = None
    if want != got:
        dis = f'actions {[a[0] for a in case["actions"]]}: model {want} impl {got}'
    # oracle: the reference reader applied to what the implementation produced names the actions written
    expect = []
    for text, tok in case['actions']:
        p = tok.split(':')
        if p[0] == 'discard':
            expect.append('rate-bytes:0:0')
        elif p[0] == 'rate':
            n = min(int(p[1]), 1000000000000)
            expect.append(f'rate-bytes:0:{struct.unpack("!L", struct.pack("!f", float(n)))[0]}')
        elif p[0] == 'ratep':
            expect.append(f'rate-packets:0:{struct.unpack("!L", struct.pack("!f", float(int(p[1]))))[0]}')
        elif p[0] == 'redir':
            a, n = int(p[1]), int(p[2])
            expect.append(f'redirect-as2:{a}:{n}' if a < 65536 else f'redirect-as4:{a}:{n}')
        elif p[0] == 'mark':
            expect.append(f'mark:{p[1]}')
        elif p[0] == 'action':
            expect.append(f'traffic-action:{p[1]}:{p[2]}')
        elif p[0] in ('rnh', 'rip'):
            expect.append('nexthop-simpson:0')
        elif p[0] == 'copy':
            expect.append('nexthop-simpson:1')
        elif p[0] == 'rietf':
            expect.append(f'nexthop-ietf4:{p[1]}:0')
    got_acts = sorted(x[3:] if x.startswith('ok ') else x for x in r.get('decact', []))
    if sorted(set(expect)) != sorted(set(got_acts)):
        return dis, 'wrong-action', f'actions written {[a[0] for a in case["actions"]]} are read back from {r["comms"]} as {got_acts}, expected {sorted(expect)}'
    return dis, None, 'ok'


def sub_case(case: dict, keep: list[int]) -> dict:
    c = dict(case)
    t = []
    kws = []
    brk = []
    for i in keep:
        x = case['tcomps'][i]
        kw = case['kws'][i]
        if x[0] == 'o':
            joined = bool(t) and t[-1][0] == 'o' and t[-1][1] == x[1] and kws[-1] == kw
            if x[2] & 0x40 and not joined:
                x = ('o', x[1], x[2] & ~0x40, x[3])  # an AND needs a predecessor in the same statement
            brk.append(not (x[2] & 0x40))
        else:
            brk.append(True)
        t.append(x)
        kws.append(kw)
    c['tcomps'], c['kws'], c['breaks'] = t, kws, brk
    c.pop('text', None)
    c.pop('text_override', None)
    return c


def eval_one(case: dict, rng) -> tuple[str | None, str | None, str, dict]:
    r = run_encode_batch([case], rng)[0]
    dis, cls, why = judge_encode(case, r)
    if cls is None and case['actions']:
        d2, cls, why2 = judge_actions(case, r)
        why = why2 or why
    return dis, cls, why, r


def shrink_encode(case: dict, cls: str, rng) -> dict:
    """Drop components / operations while the same failure class persists; the returned case carries the
    exact text that failed (`text_override`) so that re-evaluation is deterministic."""

    def fails(c: dict) -> bool:
        if eval_one(c, rng)[1] == cls:
            c['text_override'] = c['text']
            return True
        return False

    cur = dict(case)
    cur['text_override'] = case['text']
    cand = dict(case, actions=[])
    cand.pop('text_override', None)
    if fails(cand):
        cur = cand
    if cur['rd'] is not None:
        cand = dict(cur, rd=None, rd_text=None)
        cand.pop('text_override', None)
        if fails(cand):
            cur = cand
    need6 = case['v6'] == 1 and any(c[0] == 't6' for c in case['tcomps'])
    changed = True
    while changed and len(cur['tcomps']) > 1:
        changed = False
        n = len(cur['tcomps'])
        chunks = [list(range(n // 2)), list(range(n // 2, n))] if n > 8 else []
        chunks += [[i] for i in range(n)]
        for drop in chunks:
            keep = [i for i in range(n) if i not in drop]
            if not keep:
                continue
            cand = sub_case(cur, keep)
            if need6 and not any(c[0] == 't6' for c in cand['tcomps']):
                continue  # the family of the rule is part of what was written
            if fails(cand):
                cur = cand
                changed = True
                break
    return cur


# ---------------------------------------------------------------------------------------------
# decode direction: inputs


def be(n: int, v: int) -> bytes:
    return v.to_bytes(n, 'big')


def raw_of_rule(rule: list[tuple], rng=None, widen: bool = False) -> list:
    """Raw components of a rule with the shortest widths (or, widen=True, any RFC width that holds the value)."""
    raw = []
    for c in rule:
        if c[0] == 'p4':
            n = (c[2] + 7) // 8
            raw.append(['p', c[1], bytes([c[2]]) + be(n, c[3] << (n * 8 - c[2]))])
        elif c[0] == 'p6':
            bits = c[2] - c[3]
            n = (bits + 7) // 8
            raw.append(['p', c[1], bytes([c[2], c[3]]) + be(n, c[4] << (n * 8 - bits))])
        else:
            terms = []
            for i, (f, v) in enumerate(c[2]):
                code = 0 if v < 256 else 1 if v < 65536 else 2 if v < 2**32 else 3
                if widen and rng.random() < 0.5:
                    code = rng.randrange(code, 4)
                op = ((f >> 3) & 1) * 64 + code * 16 + (f & 7)
                if i == len(c[2]) - 1:
                    op |= 0x80
                terms.append([op, be(1 << code, v)])
            raw.append(['o', c[1], terms])
    return raw


def enc_raw(raw: list) -> bytes:
    out = b''
    for c in raw:
        if c[0] == 'p':
            out += bytes([c[1]]) + c[2]
        else:
            out += bytes([c[1]]) + b''.join(bytes([op]) + val for op, val in c[2])
    return out


def length_prefix(n: int, two: bool = False) -> bytes:
    if n < 240 and not two:
        return bytes([n])
    return bytes([0xF0 | (n >> 8) & 0x0F, n & 0xFF])


def nlri_of(payload: bytes, rd: bytes = b'', two: bool = False, announce: int | None = None) -> bytes:
    body = rd + payload
    return length_prefix(len(body) if announce is None else announce, two) + body


def abstract_rule(rng, v6: int, offset: bool = False, nterms=(1, 3), p: float = 0.3) -> list[tuple]:
    """A well-formed abstract rule (decode direction does not go through text)."""
    case = gen_good(rng, v6=v6, offset=offset, nterms=nterms)
    rule = rig.to_rule(case['tcomps'])
    # at most one prefix per type by construction; merged repeats are fine
    return rule


def gen_decode_inputs(rng, n: int, ref_pool: list[tuple[int, int, str, set]]) -> list[dict]:
    """Each input: {'v6','vpn','hex','tags'}: a base (reference-encoded well-formed rule, short, offset 0)
    plus at most one exotic feature, so that a failure can be attributed."""
    out: list[dict] = []

    def emit(v6, vpn, b: bytes, tags) -> None:
        out.append({'v6': v6, 'vpn': vpn, 'hex': b.hex() if b else '-', 'tags': sorted(tags)})

    for v6, vpn, hx_, tags in ref_pool:
        emit(v6, vpn, bytes.fromhex(hx_), tags | {'from-text'})
    feats = ['plain', 'plain', 'wide', 'offset', 'trailing', 'two-byte-length', 'truncate-fixlen', 'truncate-buffer', 'undefined-type',
             'drop-eol-last', 'drop-eol-mid', 'early-eol', 'reserved-bits', 'first-and', 'flip', 'swap', 'dup', 'vpn', 'vpn-short', 'value-overrun',
             'prefix-overrun', 'len-240', 'len-256', 'len-4095', 'random']  # fmt: skip
    for k in range(n):
        feat = feats[k % len(feats)] if k < 4 * len(feats) else rng.choice(feats)
        v6 = rng.randrange(2)
        rule = abstract_rule(rng, v6, offset=(feat == 'offset'))
        raw = raw_of_rule(rule, rng, widen=(feat == 'wide'))
        tags = {feat}
        vpn = 0
        rd = b''
        if feat in ('vpn',) or (feat == 'plain' and rng.random() < 0.2):
            vpn = 1
            rd = bytes.fromhex(gen_rd(rng)[1])
            tags.add('vpn')
        payload = enc_raw(raw)
        if feat in ('plain', 'wide', 'offset', 'vpn'):
            emit(v6, vpn, nlri_of(payload, rd), tags)
        elif feat == 'trailing':
            emit(v6, vpn, nlri_of(payload, rd) + bytes(rng.randrange(256) for _ in range(rng.randrange(1, 6))), tags)
        elif feat == 'two-byte-length':
            emit(v6, vpn, nlri_of(payload, rd, two=True), tags)
        elif feat == 'truncate-fixlen':
            if len(payload) > 1:
                cut = rng.randrange(1, len(payload))
                emit(v6, vpn, nlri_of(payload[:cut], rd), tags)
        elif feat == 'truncate-buffer':
            full = nlri_of(payload, rd)
            if len(full) > 1:
                emit(v6, vpn, full[: rng.randrange(0, len(full))], tags)
        elif feat == 'undefined-type':
            bad = rng.choice([0, 14, 15, 200, 255] + ([13] if not v6 else []))
            pos = rng.randrange(0, len(raw) + 1)
            comp = rng.choice([['o', bad, [[0x81, b'\x06']]], ['p', bad, b'\x08\x0a'], ['o', bad, []]])
            emit(v6, vpn, nlri_of(enc_raw(raw[:pos] + [comp] + raw[pos:]), rd), tags)
        elif feat in ('drop-eol-last', 'drop-eol-mid', 'early-eol', 'reserved-bits', 'first-and', 'value-overrun'):
            ops = [i for i, c in enumerate(raw) if c[0] == 'o']
            if not ops:
                continue
            i = ops[-1] if feat in ('drop-eol-last', 'value-overrun') else rng.choice(ops)
            terms = raw[i][2]
            if feat == 'drop-eol-last':
                terms[-1][0] &= 0x7F
                raw = raw[: i + 1]
            elif feat == 'drop-eol-mid':
                if i == len(raw) - 1:
                    continue
                terms[-1][0] &= 0x7F
            elif feat == 'early-eol':
                if len(terms) < 2:
                    continue
                terms[rng.randrange(0, len(terms) - 1)][0] |= 0x80
            elif feat == 'reserved-bits':
                t = rng.choice(terms)
                t[0] |= 0x08 if (rig.KIND[raw[i][1]] == 1 or rng.random() < 0.5) else 0x04
            elif feat == 'first-and':
                terms[0][0] |= 0x40
            elif feat == 'value-overrun':
                # the last operator of the last component announces a wider value than the payload holds
                code = (terms[-1][0] >> 4) & 3
                if code == 3:
                    continue
                terms[-1][0] = (terms[-1][0] & 0xCF) | ((code + rng.randrange(1, 4 - code)) << 4)
                raw = raw[: i + 1]
            emit(v6, vpn, nlri_of(enc_raw(raw), rd), tags)
        elif feat == 'prefix-overrun':
            if not raw or raw[0][0] != 'p':
                continue
            # a prefix as last component with fewer pattern bytes than its length needs
            p = raw[0]
            need = len(p[2])
            if need <= (2 if v6 else 1):
                continue
            short = ['p', p[1], p[2][: need - rng.randrange(1, need - (1 if v6 else 0))]]
            emit(v6, vpn, nlri_of(enc_raw(raw[1:] + [short]) if False else enc_raw([short]), rd), tags)
        elif feat == 'flip':
            b = bytearray(nlri_of(payload, rd))
            if len(b) > 1:
                j = rng.randrange(1, len(b))
                b[j] ^= 1 << rng.randrange(8)
                emit(v6, vpn, bytes(b), tags)
        elif feat == 'swap':
            if len(raw) >= 2:
                i = rng.randrange(0, len(raw) - 1)
                raw[i], raw[i + 1] = raw[i + 1], raw[i]
                emit(v6, vpn, nlri_of(enc_raw(raw), rd), tags)
        elif feat == 'dup':
            if raw:
                i = rng.randrange(0, len(raw))
                emit(v6, vpn, nlri_of(enc_raw(raw[: i + 1] + [raw[i]] + raw[i + 1 :]), rd), tags)
        elif feat == 'vpn-short':
            small = enc_raw(raw_of_rule([('op', 3, [(1, 6)])])) if rng.random() < 0.5 else payload[:7]
            if len(small) < 8:
                emit(v6, 1, nlri_of(small), tags)
        elif feat in ('len-240', 'len-256', 'len-4095'):
            target = {'len-240': [238, 239, 240, 241, 242], 'len-256': [254, 255, 256, 257, 300, 511, 512, 1000], 'len-4095': [4094, 4095]}[feat]
            t = rng.choice(target)
            case = gen_length(rng, t)
            case['rd'] = case['rd_text'] = None
            rule = rig.to_rule(case['tcomps'])
            payload = enc_raw(raw_of_rule(rule))
            # gen_length counted a possible rd; recompute so that the payload has exactly the wanted size classes
            emit(case['v6'], 0, nlri_of(payload), {feat, f'payload-{"ge" if len(payload) >= 256 else "lt"}-256'})
        elif feat == 'random':
            emit(v6, rng.randrange(2), bytes(rng.randrange(256) for _ in range(rng.randrange(0, 12))), tags)
    return out


TRUNC_ERRS = {'undefined-type', 'value-short', 'prefix-short', 'no-eol', 'length-short', 'rd-short'}


def impl_as_rule(v6: int, comps: list[str]) -> tuple[list[str], list[str]]:
    """The rule the implementation delivered, in the abstract vocabulary, plus notes on operator bits
    that should have been ignored but are part of what it delivers."""
    out = []
    notes = []
    for s in comps:
        p = s.split(':')
        if p[0] == 'p4':
            ln = int(p[2])
            raw = b'' if p[3] == '-' else bytes.fromhex(p[3])
            n = len(raw)
            pat = int.from_bytes(raw, 'big') >> (n * 8 - ln) if n * 8 >= ln else -1
            out.append(f'p4:{p[1]}:{ln}:{pat}')
        elif p[0] == 'p6':
            ln, off = int(p[2]), int(p[3])
            raw = b'' if p[4] == '-' else bytes.fromhex(p[4])
            addr = int.from_bytes(raw + bytes(16 - len(raw)), 'big') if len(raw) <= 16 else -1
            bits = ln - off
            pat = (addr >> (128 - ln)) & ((1 << bits) - 1) if 0 <= bits and ln <= 128 else -1
            out.append(f'p6:{p[1]}:{ln}:{off}:{pat}')
        else:
            cid = int(p[1])
            kind = rig.KIND.get(cid, 1)
            terms = []
            for i, t in enumerate(p[2].split(',')):
                ops, v = (int(x) for x in t.split('/'))
                if ops & 0x08 or (kind == 2 and ops & 0x04):
                    notes.append('reserved-bit')
                if i == 0 and ops & 0x40:
                    notes.append('first-and')
                terms.append(f'{rig.flags_to_f(kind, ops, i == 0)}/{v}')
            out.append(f'op:{cid}:' + ','.join(terms))
    return out, notes


def scan_features(v6: int, vpn: int, hx_: str) -> set:
    """Byte-level features of an NLRI (lenient walk, for attributing a failure to a known mechanism only)."""
    b = b'' if hx_ == '-' else bytes.fromhex(hx_)
    feats: set = set()
    if not b:
        return feats
    if b[0] >= 0xF0:
        if len(b) < 2:
            return feats
        n, body = ((b[0] & 0x0F) << 8) | b[1], b[2:]
    else:
        n, body = b[0], b[1:]
    if n >= 256:
        feats.add('payload-ge-256')
    body = body[:n]
    if vpn:
        if len(body) < 8:
            feats.add('vpn-short')
            return feats
        body = body[8:]
    i = 0
    while i < len(body):
        t = body[i]
        i += 1
        kind = rig.KIND.get(t) if (v6 or t != 13) else None
        if kind is None:
            break
        if kind == 0:
            if v6:
                if i + 1 >= len(body):
                    break
                if body[i + 1]:
                    feats.add('offset')
                    break  # the two readings part ways here
                i += 2 + (body[i] + 7) // 8
            else:
                if i >= len(body):
                    break
                i += 1 + (body[i] + 7) // 8
            continue
        first = True
        while i < len(body):
            op = body[i]
            if op & 0x08 or (kind == 2 and op & 0x04):
                feats.add('reserved-bits')
            if first and op & 0x40:
                feats.add('first-and')
            first = False
            i += 1 + (1 << ((op >> 4) & 3))
            if op & 0x80:
                break
    return feats


def decode_probes() -> list[dict]:
    """Enumerated minimal inputs, one per decoding mechanism the RFCs pin down."""
    out = []

    def emit(mech: str, v6: int, vpn: int, b: bytes) -> None:
        out.append({'v6': v6, 'vpn': vpn, 'hex': b.hex(), 'tags': ['probe:' + mech]})

    # extended length: payloads of 240, 255, 256, 300, 4095 bytes (one port component with many operators)
    for n in (239, 240, 255, 256, 257, 300, 4095):
        body = n - 1
        three = 1 if body % 2 else 0
        terms = [(1, 1000)] * three + [(1, 80)] * ((body - 3 * three) // 2)
        payload = enc_raw(raw_of_rule([('op', 4, terms)]))
        assert len(payload) == n, (len(payload), n)
        emit('payload-ge-256' if n >= 256 else 'payload-lt-256', 0, 0, nlri_of(payload))
    # RFC 8956 section 3.8.2: source ::1234:5678:9a00:0/64-104 -> 02 68 40 12 34 56 78 9a
    emit('offset', 1, 0, nlri_of(bytes.fromhex('02684012345678 9a'.replace(' ', ''))))
    emit('offset', 1, 0, nlri_of(bytes.fromhex('0140200000000003810605815 0'.replace(' ', ''))))
    emit('reserved-bits', 0, 0, nlri_of(bytes.fromhex('04 8e 50'.replace(' ', ''))))
    emit('reserved-bits', 0, 0, nlri_of(bytes.fromhex('09 8c 02'.replace(' ', ''))))
    emit('first-and', 0, 0, nlri_of(bytes.fromhex('03 c1 06'.replace(' ', ''))))
    emit('vpn-short', 0, 1, nlri_of(bytes.fromhex('038106')))
    emit('vpn-short', 0, 1, nlri_of(b''))
    emit('two-byte-length-small', 0, 0, bytes.fromhex('f003038106'))
    emit('wide-value', 0, 0, nlri_of(bytes.fromhex('05b10000000000000050')))
    emit('undefined-type', 0, 0, nlri_of(bytes.fromhex('0381060d8105')))
    emit('undefined-type', 1, 0, nlri_of(bytes.fromhex('0381060e8105')))
    emit('value-overrun', 0, 0, nlri_of(bytes.fromhex('0381060591 50'.replace(' ', ''))))
    emit('no-eol', 0, 0, nlri_of(bytes.fromhex('03810605 0150'.replace(' ', ''))))
    emit('prefix-overrun', 0, 0, nlri_of(bytes.fromhex('01180a00')))
    return out


def run_decode_batch(inputs: list[dict]) -> list[dict]:
    lines = []
    for x in inputs:
        lines.append(f'flow dec {x["v6"]} {x["vpn"]} {x["hex"]}')
        lines.append(f'flow exadec {x["v6"]} {x["vpn"]} {x["hex"]}')
    out = drive(lines)
    res = []
    for i, x in enumerate(inputs):
        data = b'' if x['hex'] == '-' else bytes.fromhex(x['hex'])
        res.append({'ref': out[2 * i], 'exa': out[2 * i + 1], 'impl': rig.decode(x['v6'], x['vpn'], data)})
    return res


def judge_decode(x: dict, r: dict) -> tuple[str | None, str | None, str]:
    impl = r['impl']
    # correspondence with the model of ExaBGP's decoder
    if impl['status'] == 'raise':
        got = 'raise'
    elif impl['status'] == 'invalid':
        got = f'invalid {impl["rest"]}'
    elif impl['status'] == 'ok':
        got = f'ok {impl["rd"]} {impl["rest"]} {" ".join(impl["comps"]) or "-"}'
    else:
        got = f'{impl["status"]} {impl.get("error")}'
    dis = None if got == r['exa'] else f'exaDecode: model {r["exa"][:200]} impl {got[:200]}'
    ref = r['ref']
    if impl['status'] == 'render-raise':
        return dis, 'render-raises', f'json()/extensive() of a decoded NLRI raises {impl.get("error")}'
    if ref.startswith('ok '):
        _, rd, rest, *comps = ref.split(' ')
        if impl['status'] == 'raise':
            return dis, 'wellformed-raises', f'well-formed NLRI (reference: {ref[:120]}) makes unpack_nlri raise {impl["error"]}: {impl.get("msg")}'
        if impl['status'] == 'invalid':
            return dis, 'wellformed-invalid', f'well-formed NLRI (reference: {ref[:120]}) is turned into NLRI.INVALID'
        got_rule, notes = impl_as_rule(x['v6'], impl['comps'])
        want_rule = [c for c in comps if c != '-']
        if impl['rest'] != rest or impl['rd'] != rd:
            return dis, 'wrong-framing', f'reference rd={rd} rest={rest}; implementation rd={impl["rd"]} rest={impl["rest"]}'
        if got_rule != want_rule:
            return dis, 'wrong-rule', f'reference decodes [{" ".join(want_rule)[:160]}], implementation delivers [{" ".join(got_rule)[:160]}] ({impl["ext"][:100]})'
        if notes:
            return dis, 'ignored-bits-delivered', f'operator bits RFC 8955 says MUST be ignored on decoding are part of the delivered rule: {sorted(set(notes))} -> {impl["ext"][:100]}'
        if not impl.get('json_ok'):
            return dis, 'json-unparsable', impl['json'][:160]
        return dis, None, 'ok'
    err = ref.split(' ')[1]
    if err in TRUNC_ERRS and impl['status'] == 'ok':
        return dis, 'malformed-delivered', f'reference rejects the NLRI ({err}); implementation delivers the rule [{impl["ext"][:120]}]'
    return dis, None, f'rejected:{err}' if impl['status'] != 'ok' else f'lenient:{err}'


# ---------------------------------------------------------------------------------------------


def load_corpus() -> list[dict]:
    d = common.VERIF / 'corpus' / PROP
    out = []
    if d.exists():
        for f in sorted(d.glob('*.json')):
            j = json.loads(f.read_text())
            j['file'] = f.name
            out.append(j)
    return out


def corpus_to_case(j: dict) -> dict:
    c = new_case(j['v6'], 'corpus:' + j['file'])
    for i, t in enumerate(j['tcomps']):
        t = tuple(t)
        c['tcomps'].append(t)
        c['kws'].append(j['kws'][i])
        c['breaks'].append(not (t[0] == 'o' and t[2] & 0x40))
    c['rd_text'], c['rd'] = j.get('rd_text'), j.get('rd')
    if j.get('text'):
        c['text_override'] = j['text']
    c['contradictory'] = j.get('contradictory', False)
    return c


def run(ctx: Ctx) -> None:
    rng = ctx.rng
    quick = ctx.tier == 'quick'
    n_good = 3500 if quick else 60000
    n_len = 80 if quick else 1500
    n_dec = 8000 if quick else 150000
    ctx.rule = (
        'encode: text rules generated from abstract component lists (13 component types, IPv4/IPv6 with offsets, operator lists with AND chains, '
        'named and numeric values, repeated keywords, route distinguishers, then-clauses) plus enumerated field boundaries; a case is non-trivial when the '
        'real parser accepted it, pack_nlri produced bytes and the rule has at least two components or an operator list of two or more; '
        'decode: reference-encoded rules plus one structural mutation each; non-trivial when the implementation delivered a rule with at least one component '
        'or rejected a mutated NLRI; distinct = distinct (text component list | NLRI bytes)'
    )
    if not ctx.driver_ok:
        ctx.notes.append('driver did not build: no correspondence, no oracle')
        return

    # ---- encode direction -------------------------------------------------------------
    cases: list[dict] = []
    for j in load_corpus():
        if j.get('direction') == 'encode':
            cases.append(corpus_to_case(j))
    cases += boundary_cases()
    for t in [238, 239, 240, 241, 254, 255, 256, 257, 4093, 4094, 4095, 4096, 4097]:
        for _ in range(2 if quick else 12):
            cases.append(gen_length(rng, t))
    for i in range(n_good):
        x = rng.random()
        if x < 0.55:
            c = gen_good(rng)
        elif x < 0.70:
            c = gen_good(rng, 'offset', v6=1, offset=True)
        elif x < 0.80:
            c = gen_good(rng, 'all13', all13=True, nterms=(1, 2))
        elif x < 0.90:
            c = gen_good(rng, 'long-lists', nterms=(3, 12))
        else:
            c = gen_good(rng, 'noncanonical-prefix')
            c['tcomps'] = [((cc[0], cc[1], cc[2] | rng.getrandbits(16), *cc[3:]) if cc[0] != 'o' else cc) for cc in c['tcomps']]
        if rng.random() < 0.5:
            c['actions'] = gen_actions(rng)
        cases.append(c)
    for _ in range(n_len):
        cases.append(gen_length(rng, rng.choice([200, 239, 240, 241, 255, 256, 300, 1000, 4000, 4094, 4095, 4096, 5000])))

    seen: dict[str, Failure] = {}
    ref_pool: list[tuple[int, int, str, set]] = []
    B = 400
    for start in range(0, len(cases), B):
        if ctx.time_left() < (30 if quick else 300):
            ctx.notes.append(f'encode: budget reached after {start} of {len(cases)} cases')
            break
        batch = cases[start : start + B]
        results = run_encode_batch(batch, rng)
        for case, r in zip(batch, results):
            ctx.evaluations += 1
            ctx.count('enc:stream:' + case['stream'].split(':')[0].split('-4')[0].split('-2')[0])
            ctx.count('enc:parse:' + r['parse'])
            if r['parse'] == 'ok':
                ctx.count('enc:pack:' + r['pack']['status'])
            for c in case['tcomps']:
                ctx.count(f'enc:component:{c[1]}')
            dis, cls, why = judge_encode(case, r)
            acls = None
            if case['actions']:
                d2, acls, awhy = judge_actions(case, r)
                dis = dis or d2
                for a in case['actions']:
                    ctx.count('enc:action:' + a[1].split(':')[0])
            ctx.count('enc:verdict:' + (cls or why.split(':')[0] or 'ok'))
            if r['parse'] == 'ok' and r['pack']['status'] == 'ok':
                n = len(r['pack']['hex']) // 2
                ctx.count('enc:nlri-bytes:' + ('<240' if n < 241 else '240-255' if n < 258 else '256-4094' if n < 4097 else '>=4095'))
                if len(r['rule']) >= 2 or any(c[0] == 'op' and len(c[2]) >= 2 for c in r['rule']):
                    ctx.nontrivial(['enc', case['v6'], case['rd'], [list(c) for c in case['tcomps']]])
                if cls is None and r['enc'].endswith('wf=1') and len(ref_pool) < (300 if quick else 5000):
                    tags = set()
                    if any(c[0] == 'p6' and c[3] for c in r['rule']):
                        tags.add('offset')
                    if n - (1 if n < 241 else 2) >= 256:
                        tags.add('payload-ge-256')
                    ref_pool.append((case['v6'], int(case['rd'] is not None), r['enc'].split(' ')[1], tags))
                ctx.sample({'text': case['text'][:300], 'sent': r['pack']['hex'][:120], 'reference_decode_of_sent': r.get('dec', '')[:200], 'communities': r.get('comms')}, cap=4)
            if dis:
                ctx.count('disagreement')
                if len(ctx.disagreements) < 20:
                    ctx.disagreements.append(Disagreement('flow-encode', {'text': case['text'][:400], 'tcomps': [list(c) for c in case['tcomps']], 'v6': case['v6'], 'rd': case['rd']}, r.get('exa'), dis))
            for kls, w in ((cls, why), (acls, awhy if case['actions'] else '')):
                if not kls:
                    continue
                ctx.count('oracle-fail:' + kls)
                probe = case['stream'].split(':')[0] in ('afi-mix', 'afi-keyword', 'repeat-prefix', 'bit-sum', 'corpus')
                small, w2 = case, w
                if kls in ('wrong-action', 'action-pack-raises'):
                    canon = {'class': kls, 'actions': sorted(a[1].split(':')[0] for a in case['actions'])}
                elif case['stream'].startswith('length'):
                    payload = payload_len(r)
                    canon = {'class': kls, 'payload-bytes': payload if payload == 4095 else ('above-4095' if payload > 4095 else 'below-4095')}
                else:
                    if not probe and len(seen) < 60:
                        small = shrink_encode(case, kls, rng)
                        w2 = eval_one(small, rng)[2]
                    canon = canon_encode(kls, small)
                    if case['stream'] == 'bit-sum':
                        canon['text'] = case['text_override']
                key = json.dumps(canon, sort_keys=True)
                if key in seen:
                    continue
                seen[key] = Failure(
                    'text-field',
                    canon,
                    {'direction': 'encode', 'text': small.get('text_override') or small['text'], 'v6': small['v6'], 'rd': small['rd'], 'rd_text': small['rd_text'],
                     'tcomps': [list(c) for c in small['tcomps']], 'kws': small['kws'], 'actions': [list(a) for a in small['actions']], 'contradictory': small.get('contradictory', False),
                     'stream': case['stream']},
                    w2,
                )
                ctx.failures.append(seen[key])

    # ---- decode direction -------------------------------------------------------------
    inputs: list[dict] = []
    for j in load_corpus():
        if j.get('direction') == 'decode':
            inputs.append({'v6': j['v6'], 'vpn': j['vpn'], 'hex': j['hex'], 'tags': sorted(j.get('tags', ['corpus'])), 'corpus': j['file']})
    inputs += decode_probes()
    inputs += gen_decode_inputs(rng, n_dec, ref_pool)
    pending: list[tuple[dict, dict, str, str]] = []
    for start in range(0, len(inputs), 2000):
        if ctx.time_left() < (8 if quick else 60):
            ctx.notes.append(f'decode: budget reached after {start} of {len(inputs)} inputs')
            break
        batch = inputs[start : start + 2000]
        results = run_decode_batch(batch)
        for x, r in zip(batch, results):
            ctx.evaluations += 1
            for t in x['tags']:
                ctx.count('dec:input:' + t)
            ctx.count('dec:impl:' + r['impl']['status'])
            ctx.count('dec:reference:' + (r['ref'].split(' ')[1] if r['ref'].startswith('err') else 'ok'))
            dis, cls, why = judge_decode(x, r)
            ctx.count('dec:verdict:' + (cls or why.split(' ')[0]))
            if (r['impl']['status'] == 'ok' and r['impl'].get('comps')) or (r['impl']['status'] != 'ok' and 'plain' not in x['tags']):
                ctx.nontrivial(['dec', x['v6'], x['vpn'], x['hex']])
            if r['impl']['status'] == 'ok':
                ctx.sample({'nlri': x['hex'][:120], 'tags': x['tags'], 'delivered': r['impl'].get('json', '')[:200], 'reference': r['ref'][:200]}, cap=8)
            if dis:
                ctx.count('disagreement')
                if len(ctx.disagreements) < 20:
                    ctx.disagreements.append(Disagreement('flow-decode', x, r['exa'], dis))
            if cls:
                ctx.count('oracle-fail:' + cls)
                pending.append((x, r, cls, why))
    # attribute failures to mechanisms: the enumerated probes (tag 'probe:<mechanism>') define the canonical forms;
    # a random input that fails and carries the byte-level feature of a mechanism whose probe fails is explained by it
    failing_mech = set()
    for x, r, cls, why in pending:
        for t in x['tags']:
            if t.startswith('probe:'):
                failing_mech.add(t[6:])
    for x, r, cls, why in sorted(pending, key=lambda p: not any(t.startswith('probe:') for t in p[0]['tags'])):
        probe = [t[6:] for t in x['tags'] if t.startswith('probe:')]
        feats = scan_features(x['v6'], x['vpn'], x['hex'])
        if probe:
            canon = {'class': cls, 'feature': probe}
        elif feats & failing_mech:
            ctx.count('dec:explained-by:' + ','.join(sorted(feats & failing_mech)))
            continue
        else:
            canon = {'class': cls, 'feature': sorted(t for t in x['tags'] if t not in ('plain', 'from-text')) or ['plain'], 'byte-features': sorted(feats)}
        key = json.dumps(canon, sort_keys=True)
        if key in seen:
            continue
        seen[key] = Failure('nlri-class', canon, {'direction': 'decode', 'v6': x['v6'], 'vpn': x['vpn'], 'hex': x['hex'], 'tags': x['tags']}, why)
        ctx.failures.append(seen[key])


def replay(path: str) -> int:
    import random

    data = json.loads(open(path).read())
    rp = data['replay']
    rng = random.Random(0)
    if rp['direction'] == 'encode':
        case = new_case(rp['v6'], rp.get('stream', 'replay'))
        case['tcomps'] = [tuple(c) for c in rp['tcomps']]
        case['kws'] = rp['kws']
        case['breaks'] = [not (c[0] == 'o' and c[2] & 0x40) for c in case['tcomps']]
        case['rd'], case['rd_text'] = rp.get('rd'), rp.get('rd_text')
        case['actions'] = [tuple(a) for a in rp.get('actions', [])]
        case['text_override'] = rp['text']
        case['contradictory'] = rp.get('contradictory', False)
        dis, cls, why, r = eval_one(case, rng)
        print('text      :', 'announce flow route { %s }' % rp['text'])
        print('parse     :', r['parse'], r.get('error') or '')
        print('pack      :', r.get('pack'))
        print('reference :', r.get('enc'))
        print('ref-decode:', r.get('dec'))
        print('verdict   :', cls or 'holds', '-', why)
        return 1 if cls else 0
    x = {'v6': rp['v6'], 'vpn': rp['vpn'], 'hex': rp['hex'], 'tags': rp.get('tags', [])}
    r = run_decode_batch([x])[0]
    dis, cls, why = judge_decode(x, r)
    print('nlri      :', x['hex'], 'ipv6' if x['v6'] else 'ipv4', 'flow-vpn' if x['vpn'] else 'flow')
    print('reference :', r['ref'])
    print('impl      :', {k: v for k, v in r['impl'].items() if k in ('status', 'error', 'msg', 'rest', 'rd', 'comps', 'ext')})
    print('verdict   :', cls or 'holds', '-', why)
    return 1 if cls else 0
